import Tup.Model.Placeholder
import Tup.Spec.Decode
/-!
  Colour escapes ↔ ID bits: the colour that the emitted `38;5;n` / `38;2;r;g;b` (and `58;…`)
  token sets has `colorVal = v % 2^24`, for both forms; the 4th ID byte is `id / 2^24 % 256`.
-/
namespace Tup.Ph
open Tup Tup.Spec

theorem and_ff (v : Nat) : v &&& 0xFF = v % 256 := by
  have : (0xFF : Nat) = 2 ^ 8 - 1 := by decide
  rw [this, Nat.and_two_pow_sub_one_eq_mod]

theorem and_mid (v : Nat) : v &&& 0xFFFF00 = (v / 2 ^ 8 % 2 ^ 16) * 2 ^ 8 := by
  have h1 : (v &&& 0xFFFF00) / 2 ^ 8 = v / 2 ^ 8 % 2 ^ 16 := by
    rw [Nat.and_div_two_pow]
    have : (0xFFFF00 : Nat) / 2 ^ 8 = 2 ^ 16 - 1 := by decide
    rw [this, Nat.and_two_pow_sub_one_eq_mod]
  have h2 : (v &&& 0xFFFF00) % 2 ^ 8 = 0 := by
    rw [Nat.and_mod_two_pow]
    have : (0xFFFF00 : Nat) % 2 ^ 8 = 0 := by decide
    rw [this]; simp
  omega

theorem and_hi (v : Nat) : v &&& 0xFF000000 = (v / 2 ^ 24 % 2 ^ 8) * 2 ^ 24 := by
  have h1 : (v &&& 0xFF000000) / 2 ^ 24 = v / 2 ^ 24 % 2 ^ 8 := by
    rw [Nat.and_div_two_pow]
    have : (0xFF000000 : Nat) / 2 ^ 24 = 2 ^ 8 - 1 := by decide
    rw [this, Nat.and_two_pow_sub_one_eq_mod]
  have h2 : (v &&& 0xFF000000) % 2 ^ 24 = 0 := by
    rw [Nat.and_mod_two_pow]
    have : (0xFF000000 : Nat) % 2 ^ 24 = 0 := by decide
    rw [this]; simp
  omega

theorem id4thByte_eq (id : Nat) : id4thByte id = id / 16777216 % 256 := by
  unfold id4thByte
  rw [and_hi, Nat.shiftRight_eq_div_pow]
  omega

theorem id4thByte_lt (id : Nat) : id4thByte id < 297 := by
  rw [id4thByte_eq]; omega

/-- the colour selected by `colorTok lead allow256 v` -/
def colorOf (allow256 : Bool) (v : Nat) : Color :=
  if allow256 && (v &&& 0xFFFF00 == 0) then .idx (v &&& 0xFF)
  else .rgb ((v >>> 16) &&& 0xFF) ((v >>> 8) &&& 0xFF) (v &&& 0xFF)

theorem colorTok_eq (lead : Nat) (allow256 : Bool) (v : Nat) :
    colorTok lead allow256 v =
      match colorOf allow256 v with
      | .idx n => .csi [lead, 5, n] 109
      | .rgb r g b => .csi [lead, 2, r, g, b] 109 := by
  unfold colorTok colorOf
  split <;> rfl

/-- colour ↔ ID bits, both escape forms -/
theorem colorVal_colorOf (allow256 : Bool) (v : Nat) : colorVal (some (colorOf allow256 v)) = v % 16777216 := by
  unfold colorOf
  split
  · rename_i h
    simp only [Bool.and_eq_true, beq_iff_eq] at h
    have h2 := h.2
    rw [and_mid] at h2
    simp only [colorVal, and_ff]
    omega
  · simp only [colorVal, and_ff, Nat.shiftRight_eq_div_pow]
    omega

/-- the full 32-bit ID from the 4th byte and the foreground colour -/
theorem idOf_colorOf (allow256 : Bool) (id : Nat) (h : id < 4294967296) :
    id4thByte id * 16777216 + colorVal (some (colorOf allow256 id)) % 16777216 = id := by
  rw [colorVal_colorOf, id4thByte_eq]
  omega

theorem colorVal_colorOf_pid (allow256 : Bool) (pid : Nat) (h : pid ≤ 0xFFFFFF) :
    colorVal (some (colorOf allow256 pid)) = pid := by
  rw [colorVal_colorOf]
  omega

/-- when is the emitted colour the 24-bit form -/
theorem colorOf_isRgb (allow256 : Bool) (v : Nat) :
    (∃ r g b, colorOf allow256 v = .rgb r g b) ↔ (allow256 = false ∨ v / 256 % 65536 ≠ 0) := by
  unfold colorOf
  rw [and_mid]
  cases allow256 <;> simp
  · split
    · rename_i h; simp; omega
    · rename_i h; simp; omega

end Tup.Ph
