import Tup.Model.Alloc
/-!
  Lemmas about `mergeDesc` (`heapq.merge(*lists, key=atime, reverse=True)` of `Model/Db.lean`):
  the merge is a permutation of the concatenation of its inputs, and it is sorted by `atime`
  descending whenever every input list is.
-/
namespace Tup.DbMerge
open Tup

/-- every input list is sorted most-recent-first -/
def AllDesc (ls : List (List Row)) : Prop := ∀ l ∈ ls, l.Pairwise (fun a b => a.atime ≥ b.atime)

theorem pickMax_none {ls : List (List Row)} (h : pickMax ls = none) : ls.flatten = [] := by
  induction ls with
  | nil => rfl
  | cons l ls ih =>
    cases l with
    | nil =>
      simp only [pickMax, Option.map_eq_none_iff] at h
      simpa using ih h
    | cons a l =>
      simp only [pickMax] at h
      split at h
      · cases h
      · split at h <;> cases h

/-- the picked row is the head of list `i`; removing it removes exactly that row -/
theorem pickMax_some {ls : List (List Row)} {i : Nat} {r : Row} (h : pickMax ls = some (i, r)) :
    (r :: (dropHeadAt ls i).flatten).Perm ls.flatten := by
  induction ls generalizing i r with
  | nil => cases h
  | cons l ls ih =>
    cases l with
    | nil =>
      simp only [pickMax, Option.map_eq_some_iff] at h
      obtain ⟨⟨j, r'⟩, hj, he⟩ := h
      simp only [Prod.mk.injEq] at he
      obtain ⟨rfl, rfl⟩ := he
      simpa [dropHeadAt] using ih hj
    | cons a l =>
      simp only [pickMax] at h
      split at h
      · injection h with h
        simp only [Prod.mk.injEq] at h
        obtain ⟨rfl, rfl⟩ := h
        simp [dropHeadAt]
      · rename_i j r' hj
        split at h
        · injection h with h
          simp only [Prod.mk.injEq] at h
          obtain ⟨rfl, rfl⟩ := h
          simp only [dropHeadAt, List.flatten_cons]
          exact (List.perm_middle (l₁ := a :: l)).symm.trans ((ih hj).append_left (a :: l))
        · injection h with h
          simp only [Prod.mk.injEq] at h
          obtain ⟨rfl, rfl⟩ := h
          simp [dropHeadAt]

/-- the picked row is at least as recent as every row of every (sorted) input list -/
theorem pickMax_ge {ls : List (List Row)} {i : Nat} {r : Row} (hs : AllDesc ls)
    (h : pickMax ls = some (i, r)) : ∀ x ∈ ls.flatten, r.atime ≥ x.atime := by
  induction ls generalizing i r with
  | nil => cases h
  | cons l ls ih =>
    have hs' : AllDesc ls := fun l' hl' => hs l' (List.mem_cons_of_mem _ hl')
    cases l with
    | nil =>
      simp only [pickMax, Option.map_eq_some_iff] at h
      obtain ⟨⟨j, r'⟩, hj, he⟩ := h
      simp only [Prod.mk.injEq] at he
      obtain ⟨rfl, rfl⟩ := he
      simpa using ih hs' hj
    | cons a l =>
      have ha : ∀ x ∈ l, a.atime ≥ x.atime := (List.pairwise_cons.1 (hs (a :: l) (List.mem_cons_self ..))).1
      simp only [pickMax] at h
      intro x hx
      simp only [List.flatten_cons, List.mem_append, List.mem_cons] at hx
      split at h
      · rename_i hn
        injection h with h
        simp only [Prod.mk.injEq] at h
        obtain ⟨rfl, rfl⟩ := h
        rw [pickMax_none hn] at hx
        rcases hx with (rfl | hx) | hx
        · exact Nat.le_refl _
        · exact ha x hx
        · cases hx
      · rename_i j r' hj
        have hr' := ih hs' hj
        split at h
        · rename_i hgt
          injection h with h
          simp only [Prod.mk.injEq] at h
          obtain ⟨rfl, rfl⟩ := h
          rcases hx with (rfl | hx) | hx
          · omega
          · have := ha x hx; omega
          · exact hr' x hx
        · rename_i hgt
          injection h with h
          simp only [Prod.mk.injEq] at h
          obtain ⟨rfl, rfl⟩ := h
          rcases hx with (rfl | hx) | hx
          · exact Nat.le_refl _
          · exact ha x hx
          · have := hr' x hx; omega

theorem allDesc_dropHeadAt {ls : List (List Row)} (hs : AllDesc ls) (i : Nat) : AllDesc (dropHeadAt ls i) := by
  induction ls generalizing i with
  | nil => intro l hl; cases hl
  | cons l ls ih =>
    have hs' : AllDesc ls := fun l' hl' => hs l' (List.mem_cons_of_mem _ hl')
    have hl := hs l (List.mem_cons_self ..)
    cases i with
    | zero =>
      intro l' hl'
      simp only [dropHeadAt, List.mem_cons] at hl'
      rcases hl' with rfl | hl'
      · cases l with
        | nil => exact List.Pairwise.nil
        | cons a l => exact (List.pairwise_cons.1 hl).2
      · exact hs' l' hl'
    | succ i =>
      intro l' hl'
      simp only [dropHeadAt, List.mem_cons] at hl'
      rcases hl' with rfl | hl'
      · exact hl
      · exact ih hs' i l' hl'

/-- whatever the fuel, the merge emits only rows of its inputs -/
theorem mem_mergeDescFuel {fuel : Nat} {ls : List (List Row)} {x : Row}
    (h : x ∈ mergeDescFuel fuel ls) : x ∈ ls.flatten := by
  induction fuel generalizing ls with
  | zero => cases h
  | succ fuel ih =>
    simp only [mergeDescFuel] at h
    split at h
    · cases h
    · rename_i i r hp
      have hperm := pickMax_some hp
      rcases List.mem_cons.1 h with rfl | h
      · exact hperm.subset (List.mem_cons_self ..)
      · exact hperm.subset (List.mem_cons_of_mem _ (ih h))

/-- with enough fuel (the total number of rows) the merge is a permutation of the concatenation -/
theorem mergeDescFuel_perm {fuel : Nat} {ls : List (List Row)} (hf : ls.flatten.length ≤ fuel) :
    (mergeDescFuel fuel ls).Perm ls.flatten := by
  induction fuel generalizing ls with
  | zero =>
    have : ls.flatten = [] := List.eq_nil_of_length_eq_zero (by omega)
    rw [this]; exact List.Perm.refl _
  | succ fuel ih =>
    simp only [mergeDescFuel]
    split
    · rename_i hp; rw [pickMax_none hp]
    · rename_i i r hp
      have hperm := pickMax_some hp
      have hlen := hperm.length_eq
      simp only [List.length_cons] at hlen
      exact ((ih (ls := dropHeadAt ls i) (by omega)).cons r).trans hperm

theorem mergeDescFuel_sorted {fuel : Nat} {ls : List (List Row)} (hs : AllDesc ls) :
    (mergeDescFuel fuel ls).Pairwise (fun a b => a.atime ≥ b.atime) := by
  induction fuel generalizing ls with
  | zero => exact List.Pairwise.nil
  | succ fuel ih =>
    simp only [mergeDescFuel]
    split
    · exact List.Pairwise.nil
    · rename_i i r hp
      refine List.pairwise_cons.2 ⟨?_, ih (allDesc_dropHeadAt hs i)⟩
      intro x hx
      exact pickMax_ge hs hp x ((pickMax_some hp).subset (List.mem_cons_of_mem _ (mem_mergeDescFuel hx)))

/-- `heapq.merge` loses and duplicates nothing -/
theorem mergeDesc_perm (ls : List (List Row)) : (mergeDesc ls).Perm ls.flatten := by
  unfold mergeDesc
  exact mergeDescFuel_perm (by rw [List.length_flatten]; exact Nat.le_refl _)

/-- `heapq.merge(…, key=atime, reverse=True)` of lists sorted most-recent-first is sorted most-recent-first -/
theorem mergeDesc_sorted {ls : List (List Row)} (hs : AllDesc ls) :
    (mergeDesc ls).Pairwise (fun a b => a.atime ≥ b.atime) := mergeDescFuel_sorted hs

/-- the sum of the lengths is the length of the concatenation -/
theorem sum_length_eq (ls : List (List Row)) : (ls.map List.length).sum = ls.flatten.length := by
  rw [List.length_flatten]

end Tup.DbMerge
