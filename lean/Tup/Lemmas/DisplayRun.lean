import Tup.Lemmas.DisplayInv
/-!
  From one `upload` to whole histories of `Model.Display`: the events of a request, the environment steps,
  logs only grow, and the induction over the history (`trace_ok`).
-/
namespace Tup.Display
open Tup Tup.Spec

/-! ### logs only grow -/

theorem arriveLogs_suffix (logs : String → List Arrival) (T : String) (a : Arrival) (t : String) :
    logs t <:+ arriveLogs logs T a t := by
  by_cases h : t = T
  · subst h; rw [arriveLogs_same]; exact List.suffix_cons _ _
  · rw [arriveLogs_other _ _ h]; exact List.suffix_refl _

theorem upload_logs_suffix (cfg : Cfg) (thr : String → Tup.Thresholds) (rb : Bool) (s : State) (r : Request) (T : String) :
    s.logs T <:+ (upload cfg thr rb s r).1.logs T := by
  unfold upload
  split
  · exact List.suffix_refl _
  · dsimp only
    split
    · exact List.suffix_refl _
    · exact List.suffix_refl _
    · split
      · exact List.suffix_refl _
      · split <;> exact arriveLogs_suffix _ _ _ _

theorem request_fst (cfg : Cfg) (thr : String → Tup.Thresholds) (rb : Bool) (s : State) (r : Request) :
    (request cfg thr rb s r).1 = (upload cfg thr rb s r).1 := by
  unfold request; split <;> simp_all

theorem envStep_logs (cfg : Cfg) (s : State) (e : Env) : (envStep cfg s e).logs = s.logs := by
  cases e <;> rfl

theorem step_logs_suffix (cfg : Cfg) (thr : String → Tup.Thresholds) (rb : Bool) (s : State) (st : Step) (T : String) :
    s.logs T <:+ (step cfg thr rb s st).1.logs T := by
  cases st with
  | req r => simp only [step, request_fst]; exact upload_logs_suffix ..
  | env e => simp only [step, envStep_logs]; exact List.suffix_refl _

theorem run_logs_suffix (cfg : Cfg) (thr : String → Tup.Thresholds) (rb : Bool) :
    ∀ (steps : List Step) (s : State) (T : String), s.logs T <:+ (run cfg thr rb s steps).logs T
  | [], _, _ => List.suffix_refl _
  | st :: rest, s, T => (step_logs_suffix cfg thr rb s st T).trans (run_logs_suffix cfg thr rb rest _ T)

theorem strictTimes_of_run {cfg : Cfg} {thr : String → Tup.Thresholds} {rb : Bool} {steps : List Step} {s : State}
    (h : StrictTimes (run cfg thr rb s steps)) : StrictTimes s :=
  fun T => (h T).sublist (run_logs_suffix cfg thr rb steps s T).sublist

/-! ### the events of a request -/

theorem upload_events {cfg : Cfg} {thr : String → Tup.Thresholds} {rb : Bool} {s : State} {r : Request} {e : Event}
    (h : e ∈ (upload cfg thr rb s r).2.1) :
    ∃ x sent, e = .transmit r.term x r.via sent ∧ uploadVia r.via = some sent := by
  unfold upload at h
  split at h
  · simp at h
  · dsimp only at h
    split at h
    · simp at h
    · simp at h
    · split at h
      · simp at h
      · next sent hv =>
        split at h <;>
        · simp only [List.mem_singleton] at h
          exact ⟨_, sent, h, hv⟩

theorem request_events {cfg : Cfg} {thr : String → Tup.Thresholds} {rb : Bool} {s : State} {r : Request} {e : Event}
    (h : e ∈ (request cfg thr rb s r).2) :
    e ∈ (upload cfg thr rb s r).2.1 ∨
    ∃ x, (upload cfg thr rb s r).2.2 = some x ∧ e = .print r.term x r.desc := by
  unfold request at h
  split at h
  · next s' evs x hu =>
    dsimp only at h
    split at h
    · rcases List.mem_append.1 h with h | h
      · left; rw [hu]; exact h
      · right; rw [hu]; exact ⟨x, rfl, by simpa using h⟩
    · left; rw [hu]; exact h
  · next s' evs hu => left; rw [hu]; exact h

/-! ### environment steps -/

theorem envStep_good {cfg : Cfg} {s : State} (hg : Good cfg s) (e : Env) : Good cfg (envStep cfg s e) := by
  have alloc : ∀ op, allocOp op → Good cfg { s with db := applyOp cfg s.db op } := fun op hop =>
    ⟨reach_applyOp hg.reach op, by simp only [applyOp_uploads hg.reach hop]; exact hg.rel⟩
  cases e with
  | tick dt => exact ⟨hg.reach, hg.rel⟩
  | get req ch => exact alloc _ trivial
  | set id d => exact alloc _ trivial
  | del id => exact alloc _ trivial
  | cleanup sp u m removed => exact alloc _ trivial
  | cleanupUploads n kept =>
    refine ⟨reach_applyOp hg.reach (.cleanupUploads n kept), ?_⟩
    show Rel (applyOp cfg s.db (.cleanupUploads n kept)).uploads s.logs
    simp only [applyOp, cleanupUploads]
    split
    · next h => exact rel_filter_kept hg.rel h
    · exact hg.rel

/-! ### one step, then histories -/

theorem step_spec {cfg : Cfg} {thr : String → Tup.Thresholds} {s : State} {st : Step}
    (hg : Good cfg s) (hst : StrictTimes (step cfg thr true s st).1) :
    Good cfg (step cfg thr true s st).1 ∧
    ∀ T x d, Event.print T x d ∈ (step cfg thr true s st).2 → 0 < (thr T).maxUploads →
      printOk (specThr (thr T)) ((step cfg thr true s st).1.logs T) x d.token d.rows d.cols
        (step cfg thr true s st).1.now = true := by
  cases st with
  | req r =>
    simp only [step, request_fst] at hst ⊢
    obtain ⟨h1, h2, h3⟩ := upload_spec hg _ rfl hst
    refine ⟨h1, ?_⟩
    intro T x d he hpos
    rcases request_events he with he | ⟨x', hx', he⟩
    · obtain ⟨_, _, he, _⟩ := upload_events he; cases he
    · injection he with e1 e2 e3; subst e1 e2 e3
      rw [h2]; exact h3 x hx' hpos
  | env e =>
    refine ⟨envStep_good hg e, ?_⟩
    intro T x d he _
    simp [step] at he

theorem trace_ok {cfg : Cfg} {thr : String → Tup.Thresholds} (hpos : ∀ T, 0 < (thr T).maxUploads) :
    ∀ (steps : List Step) (s0 : State), Good cfg s0 → StrictTimes (run cfg thr true s0 steps) →
      ∀ s T x d, (s, Event.print T x d) ∈ trace cfg thr true s0 steps →
        printOk (specThr (thr T)) (s.logs T) x d.token d.rows d.cols s.now = true
  | [], _, _, _, _, _, _, _, h => by simp [trace] at h
  | st :: rest, s0, hg, hst, s, T, x, d, h => by
    have hst1 : StrictTimes (step cfg thr true s0 st).1 := strictTimes_of_run (steps := rest) hst
    obtain ⟨hg1, hp⟩ := step_spec hg hst1
    simp only [trace, List.mem_append, List.mem_map] at h
    rcases h with ⟨e, he, heq⟩ | h
    · simp only [Prod.mk.injEq] at heq
      obtain ⟨rfl, rfl⟩ := heq
      exact hp T x d he (hpos T)
    · exact trace_ok hpos rest _ hg1 hst s T x d h

theorem run_good {cfg : Cfg} {thr : String → Tup.Thresholds} :
    ∀ (steps : List Step) (s0 : State), Good cfg s0 → StrictTimes (run cfg thr true s0 steps) →
      Good cfg (run cfg thr true s0 steps)
  | [], _, hg, _ => hg
  | _ :: rest, _, hg, hst =>
    run_good rest _ (step_spec hg (strictTimes_of_run (steps := rest) hst)).1 hst

/-! ### the database stays one the library can produce (no hypothesis needed) -/

theorem upload_reach {cfg : Cfg} {thr : String → Tup.Thresholds} {s : State} {r : Request}
    (h : Reachable cfg s.db) : Reachable cfg (upload cfg thr true s r).1.db := by
  have hb := bind_reach h s.now r.target r.desc
  unfold upload
  split
  · next db1 heq => rw [heq] at hb; exact hb
  · next db1 x heq =>
    rw [heq] at hb
    dsimp only
    split
    · exact hb
    · exact hb
    · split
      · exact hb
      · split
        · exact hb
        · next db2 hm =>
          have := reach_applyOp hb (.mark x r.term r.size s.now)
          simpa [applyOp, hm, dbOf] using this

theorem envStep_reach {cfg : Cfg} {s : State} (h : Reachable cfg s.db) (e : Env) :
    Reachable cfg (envStep cfg s e).db := by
  cases e with
  | tick dt => exact h
  | get req ch => exact reach_applyOp h (.get req s.now ch)
  | set id d => exact reach_applyOp h (.set id d s.now)
  | del id => exact reach_applyOp h (.del id)
  | cleanup sp u m removed => exact reach_applyOp h (.cleanup sp u m removed)
  | cleanupUploads n kept => exact reach_applyOp h (.cleanupUploads n kept)

theorem run_reach {cfg : Cfg} {thr : String → Tup.Thresholds} :
    ∀ (steps : List Step) (s0 : State), Reachable cfg s0.db → Reachable cfg (run cfg thr true s0 steps).db
  | [], _, h => h
  | .req r :: rest, s0, h => by
    rw [run]; apply run_reach rest
    simp only [step, request_fst]; exact upload_reach h
  | .env e :: rest, s0, h => by
    rw [run]; apply run_reach rest
    exact envStep_reach h e

/-- every transmit event of every history (repaired or not) was produced by `_upload` -/
theorem trace_transmit {cfg : Cfg} {thr : String → Tup.Thresholds} {rb : Bool} :
    ∀ (steps : List Step) (s0 s : State) (T : String) (x : Nat) (via : Via) (sent : Sent),
      (s, Event.transmit T x via sent) ∈ trace cfg thr rb s0 steps → uploadVia via = some sent
  | [], _, _, _, _, _, _, h => by simp [trace] at h
  | st :: rest, s0, s, T, x, via, sent, h => by
    simp only [trace, List.mem_append, List.mem_map] at h
    rcases h with ⟨e, he, heq⟩ | h
    · simp only [Prod.mk.injEq] at heq
      obtain ⟨_, rfl⟩ := heq
      cases st with
      | req r =>
        simp only [step] at he
        rcases request_events he with he | ⟨_, _, he⟩
        · obtain ⟨_, _, he, hv⟩ := upload_events he
          injection he with _ _ e3 e4; subst e3 e4; exact hv
        · cases he
      | env e => simp [step] at he
    · exact trace_transmit rest _ s T x via sent h

end Tup.Display
