import Tup.Model.ShellExport
import Tup.Spec.Sh
/-!
  Lemmas for C18: the exporter's escapes are exactly what `Spec.Sh`'s printf reads back.
  Core Lean only.
-/
open Tup Tup.ShellExport Tup.Spec.Sh

namespace Tup.ShLemmas

/-- what `nextPiece` needs to know about the escape of one byte, without the rest of the format -/
def escOk (b : UInt8) : Bool :=
  match escapeByte b with
  | [c] => c == b && c != 37 && c != 92 && c != 39
  | [a, c] => (a == 92 && c == 110 && b == 10) || (a == 92 && c == 92 && b == 92) || (a == 37 && c == 37 && b == 37)
  | [s, d, e, f] => s == 92 && isOct d && isOct e && isOct f && d != 92 && d != 110 &&
      decide (octv d * 64 + octv e * 8 + octv f < 256) && UInt8.ofNat (octv d * 64 + octv e * 8 + octv f) == b
  | _ => false

theorem escOk_fin : ∀ n : Fin 256, escOk (UInt8.ofNat n) = true := by decide +kernel

theorem escOk_all (b : UInt8) : escOk b = true := by
  have := escOk_fin ⟨b.toNat, b.toNat_lt⟩
  simpa using this

theorem nextPiece_escapeByte (b : UInt8) (rest : Bytes) :
    nextPiece (escapeByte b ++ rest) = some (.lit b, rest) := by
  have h := escOk_all b
  unfold escOk at h
  split at h
  · rename_i c hc
    simp only [Bool.and_eq_true, beq_iff_eq, bne_iff_ne, ne_eq] at h
    obtain ⟨⟨⟨h1, h2⟩, h3⟩, _⟩ := h
    subst h1
    simp [hc, nextPiece, h2, h3]
  · rename_i a c hc
    simp only [Bool.or_eq_true, Bool.and_eq_true, beq_iff_eq] at h
    rcases h with (⟨⟨h1, h2⟩, h3⟩ | ⟨⟨h1, h2⟩, h3⟩) | ⟨⟨h1, h2⟩, h3⟩ <;> subst h1 h2 h3 <;> simp [hc, nextPiece]
  · rename_i s d e f hc
    simp only [Bool.and_eq_true, beq_iff_eq, bne_iff_ne, ne_eq, decide_eq_true_eq] at h
    obtain ⟨⟨⟨⟨⟨⟨⟨h1, h2⟩, h3⟩, h4⟩, h5⟩, h6⟩, h7⟩, h8⟩ := h
    subst h1
    simp [hc, nextPiece, h2, h3, h4, h5, h6, h7, h8]
  · contradiction

theorem parseFmt_nil : parseFmt [] = some [] := by
  rw [parseFmt]; simp

theorem parseFmt_step {l : Bytes} {p : Piece} {r : Bytes} (h : nextPiece l = some (p, r)) :
    parseFmt l = (parseFmt r).map (p :: ·) := by
  rw [parseFmt]
  have hne : l.isEmpty = false := by
    cases l with
    | nil => simp [nextPiece] at h
    | cons _ _ => rfl
  simp only [hne, Bool.false_eq_true, ↓reduceIte]
  split
  · rename_i h'; rw [h] at h'; contradiction
  · rename_i p' r' h'; rw [h] at h'; injection h' with h'; injection h' with h1 h2; subst h1 h2; rfl

theorem parseFmt_escapeBytes (c rest : Bytes) :
    parseFmt (escapeBytes c ++ rest) = (parseFmt rest).map (c.map Piece.lit ++ ·) := by
  induction c with
  | nil => simp [escapeBytes]
  | cons b t ih =>
    have : escapeBytes (b :: t) ++ rest = escapeByte b ++ (escapeBytes t ++ rest) := by
      simp [escapeBytes]
    rw [this, parseFmt_step (nextPiece_escapeByte b _), ih]
    cases parseFmt rest <;> simp

theorem parseFmt_str (rest : Bytes) : parseFmt (asc "%s" ++ rest) = (parseFmt rest).map (Piece.str :: ·) := by
  have : nextPiece (asc "%s" ++ rest) = some (.str, rest) := by
    have : asc "%s" = [37, 115] := by decide
    simp [this, nextPiece]
  rw [parseFmt_step this]

/-! ### one pass of printf over the exporter's pieces -/

theorem pass_lits (c : Bytes) (ps : List Piece) (args : List Bytes) :
    pass (c.map Piece.lit ++ ps) args = (c ++ (pass ps args).1, (pass ps args).2) := by
  induction c with
  | nil => simp
  | cons b t ih => simp [pass, ih]

/-- the pieces the exporter's format stands for -/
def piecesOf : List Bytes → List Piece
  | [] => []
  | c :: cs => (match tryBase64 c with | some _ => [Piece.str] | none => c.map Piece.lit) ++ piecesOf cs

/-- the values of the exporter's parameters -/
def argsOf : List Bytes → List Bytes
  | [] => []
  | c :: cs => (match tryBase64 c with | some _ => [c] | none => []) ++ argsOf cs

theorem parseFmt_build (chunks : List Bytes) : parseFmt (build chunks).1 = some (piecesOf chunks) := by
  induction chunks with
  | nil => simp [build, piecesOf, parseFmt_nil]
  | cons c cs ih =>
    simp only [build, piecesOf]
    cases h : tryBase64 c with
    | some e => simp [parseFmt_str, ih]
    | none => simp [parseFmt_escapeBytes, ih]

theorem pass_pieces (chunks : List Bytes) : pass (piecesOf chunks) (argsOf chunks) = (chunks.flatten, []) := by
  induction chunks with
  | nil => simp [piecesOf, argsOf, pass]
  | cons c cs ih =>
    simp only [piecesOf, argsOf]
    cases h : tryBase64 c with
    | some e => simp [pass, ih]
    | none => simp [pass_lits, ih]

theorem printfOut_build (chunks : List Bytes) :
    printfOut (build chunks).1 (argsOf chunks) = some chunks.flatten := by
  simp [printfOut, parseFmt_build, runFmt, pass_pieces]

/-! ### D6: the leading dash -/

theorem parseFmt_dashFix (f : Bytes) : parseFmt (dashFix f) = parseFmt f := by
  unfold dashFix
  split
  · rename_i c rest
    split
    · rename_i hc
      subst hc
      have h1 : nextPiece (asc "\\055" ++ rest) = some (.lit 45, rest) := by
        have : asc "\\055" = [92, 48, 53, 53] := by decide
        simp [this, nextPiece, isOct, octv]
      have h2 : nextPiece ((45 : UInt8) :: rest) = some (.lit 45, rest) := by
        simp [nextPiece]
      rw [parseFmt_step h1, parseFmt_step h2]
    · rfl
  · rfl

theorem dashFix_not_option (f : Bytes) : isOption (dashFix f) = false ∧ dashFix f ≠ [45, 45] := by
  unfold dashFix
  split
  · rename_i c rest
    split
    · have : asc "\\055" = [92, 48, 53, 53] := by decide
      simp [this, isOption]
    · rename_i hc
      constructor
      · cases rest <;> simp [isOption, hc]
      · intro h; injection h with h _; exact hc h
  · simp [isOption]

theorem printfCmd_dashFix (f : Bytes) (args : List Bytes) :
    printfCmd (dashFix f :: args) = printfOut f args := by
  obtain ⟨h1, h2⟩ := dashFix_not_option f
  simp [printfCmd, h1, h2, printfOut, parseFmt_dashFix]

/-! ### bytes that never occur -/

def escAvoids (x : UInt8) (b : UInt8) : Bool := !(escapeByte b).contains x

theorem esc_no_quote_fin : ∀ n : Fin 256, escAvoids 39 (UInt8.ofNat n) = true := by decide +kernel
theorem esc_no_nl_fin : ∀ n : Fin 256, escAvoids 10 (UInt8.ofNat n) = true := by decide +kernel

theorem escapeByte_no_quote (b : UInt8) : (39 : UInt8) ∉ escapeByte b := by
  have := esc_no_quote_fin ⟨b.toNat, b.toNat_lt⟩
  simpa [escAvoids] using this

theorem escapeByte_no_nl (b : UInt8) : (10 : UInt8) ∉ escapeByte b := by
  have := esc_no_nl_fin ⟨b.toNat, b.toNat_lt⟩
  simpa [escAvoids] using this

theorem escapeBytes_no_quote (c : Bytes) : (39 : UInt8) ∉ escapeBytes c := by
  simp only [escapeBytes, List.mem_flatMap, not_exists, not_and]
  intro b _; exact escapeByte_no_quote b

theorem escapeBytes_no_nl (c : Bytes) : (10 : UInt8) ∉ escapeBytes c := by
  simp only [escapeBytes, List.mem_flatMap, not_exists, not_and]
  intro b _; exact escapeByte_no_nl b

theorem dashFix_avoids (x : UInt8) (hx : x ≠ 92 ∧ x ≠ 48 ∧ x ≠ 53) (f : Bytes) (h : x ∉ f) : x ∉ dashFix f := by
  unfold dashFix
  split
  · rename_i c rest
    split
    · have : asc "\\055" = [92, 48, 53, 53] := by decide
      simp only [this, List.mem_append, List.mem_cons, List.not_mem_nil, or_false, not_or]
      simp only [List.mem_cons, not_or] at h
      exact ⟨⟨hx.1, hx.2.1, hx.2.2, hx.2.2⟩, h.2⟩
    · exact h
  · exact h

end Tup.ShLemmas
