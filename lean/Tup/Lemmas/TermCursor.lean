import Tup.Model.Tracker
namespace Tup.Spec
open Tup

/-- well-formedness of the cursor-related part of a terminal state -/
structure Term.WF (t : Term) : Prop where
  cy_lt : t.cy < t.h
  bot_lt : t.bot < t.h
  top_le : t.top ≤ t.bot
  saved_ok : ∀ x y s, t.saved = some (x, y, s) → y < t.h

@[simp] theorem scrollUp1_w (t : Term) : t.scrollUp1.w = t.w := rfl
@[simp] theorem scrollUp1_h (t : Term) : t.scrollUp1.h = t.h := rfl
@[simp] theorem scrollUp1_cx (t : Term) : t.scrollUp1.cx = t.cx := rfl
@[simp] theorem scrollUp1_cy (t : Term) : t.scrollUp1.cy = t.cy := rfl
@[simp] theorem scrollUp1_top (t : Term) : t.scrollUp1.top = t.top := rfl
@[simp] theorem scrollUp1_bot (t : Term) : t.scrollUp1.bot = t.bot := rfl
@[simp] theorem scrollUp1_saved (t : Term) : t.scrollUp1.saved = t.saved := rfl
@[simp] theorem scrollUp1_cfg (t : Term) : t.scrollUp1.cfg = t.cfg := rfl
@[simp] theorem scrollDown1_w (t : Term) : t.scrollDown1.w = t.w := rfl
@[simp] theorem scrollDown1_h (t : Term) : t.scrollDown1.h = t.h := rfl
@[simp] theorem scrollDown1_cx (t : Term) : t.scrollDown1.cx = t.cx := rfl
@[simp] theorem scrollDown1_cy (t : Term) : t.scrollDown1.cy = t.cy := rfl
@[simp] theorem scrollDown1_top (t : Term) : t.scrollDown1.top = t.top := rfl
@[simp] theorem scrollDown1_bot (t : Term) : t.scrollDown1.bot = t.bot := rfl
@[simp] theorem scrollDown1_saved (t : Term) : t.scrollDown1.saved = t.saved := rfl
@[simp] theorem scrollDown1_cfg (t : Term) : t.scrollDown1.cfg = t.cfg := rfl

/-- the cursor-related fields -/
structure Core where
  w : Nat
  h : Nat
  cx : Nat
  cy : Nat
  top : Nat
  bot : Nat
  saved : Option (Nat × Nat × Sgr)
  cfg : TermCfg

def Term.core (t : Term) : Core := ⟨t.w, t.h, t.cx, t.cy, t.top, t.bot, t.saved, t.cfg⟩

theorem iter_scrollUp1_core (n : Nat) (t : Term) : (iter Term.scrollUp1 n t).core = t.core := by
  induction n generalizing t with
  | zero => rfl
  | succ n ih => simp [iter, ih]; rfl

theorem iter_scrollDown1_core (n : Nat) (t : Term) : (iter Term.scrollDown1 n t).core = t.core := by
  induction n generalizing t with
  | zero => rfl
  | succ n ih => simp [iter, ih]; rfl

theorem WF_of_core {t t' : Term} (h : t'.core = t.core) (wf : t.WF) : t'.WF := by
  simp only [Term.core, Core.mk.injEq] at h
  obtain ⟨_, h2, _, h4, h5, h6, h7, _⟩ := h
  exact ⟨by rw [h4, h2]; exact wf.cy_lt, by rw [h6, h2]; exact wf.bot_lt, by rw [h5, h6]; exact wf.top_le,
    by intro x y s hs; rw [h2]; rw [h7] at hs; exact wf.saved_ok x y s hs⟩

/-- `t'` is a well-formed successor of `t` on the same screen with the same parameters -/
def Good (t t' : Term) : Prop := t'.WF ∧ t'.h = t.h ∧ t'.w = t.w ∧ t'.cfg = t.cfg

theorem Good.of_core {t t' : Term} (wf : t.WF) (h : t'.core = t.core) : Good t t' :=
  ⟨WF_of_core h wf, by simp only [Term.core, Core.mk.injEq] at h; exact ⟨h.2.1, h.1, h.2.2.2.2.2.2.2⟩⟩

theorem csi_WF (t : Term) (wf : t.WF) (ps : List Nat) (f : Nat) : Good t (t.csi ps f) := by
  have hh : 1 ≤ t.h := by have := wf.cy_lt; omega
  have c1 := wf.cy_lt; have c2 := wf.bot_lt; have c3 := wf.top_le
  have keep : ∀ t' : Term, t'.core = t.core → Good t t' := fun t' h => Good.of_core wf h
  delta Term.csi
  extract_lets n limU limD tp0 bt0 tp bt k1 cxx k2 col
  by_cases h : f = 109
  · rw [if_pos h]; exact keep _ rfl
  rw [if_neg h]; clear h
  by_cases h : f = 65
  · rw [if_pos h]
    refine ⟨⟨?_, wf.bot_lt, wf.top_le, wf.saved_ok⟩, rfl, rfl, rfl⟩
    show max limU (t.cy - n) < t.h
    simp only [limU]; split <;> omega
  rw [if_neg h]; clear h
  by_cases h : f = 66
  · rw [if_pos h]
    refine ⟨⟨?_, wf.bot_lt, wf.top_le, wf.saved_ok⟩, rfl, rfl, rfl⟩
    show min limD (t.cy + n) < t.h
    simp only [limD]; split <;> omega
  rw [if_neg h]; clear h
  by_cases h : f = 67
  · rw [if_pos h]; exact ⟨⟨wf.cy_lt, wf.bot_lt, wf.top_le, wf.saved_ok⟩, rfl, rfl, rfl⟩
  rw [if_neg h]; clear h
  by_cases h : f = 68
  · rw [if_pos h]; exact ⟨⟨wf.cy_lt, wf.bot_lt, wf.top_le, wf.saved_ok⟩, rfl, rfl, rfl⟩
  rw [if_neg h]; clear h
  by_cases h : f = 71
  · rw [if_pos h]; exact ⟨⟨wf.cy_lt, wf.bot_lt, wf.top_le, wf.saved_ok⟩, rfl, rfl, rfl⟩
  rw [if_neg h]; clear h
  by_cases h : f = 100
  · rw [if_pos h]
    refine ⟨⟨?_, wf.bot_lt, wf.top_le, wf.saved_ok⟩, rfl, rfl, rfl⟩
    show min (n - 1) (t.h - 1) < t.h
    omega
  rw [if_neg h]; clear h
  by_cases h : f = 72 ∨ f = 102
  · rw [if_pos h]
    refine ⟨⟨?_, wf.bot_lt, wf.top_le, wf.saved_ok⟩, rfl, rfl, rfl⟩
    show min (n - 1) (t.h - 1) < t.h
    omega
  rw [if_neg h]; clear h
  by_cases h : f = 115
  · rw [if_pos h]
    refine ⟨⟨wf.cy_lt, wf.bot_lt, wf.top_le, ?_⟩, rfl, rfl, rfl⟩
    intro x y s hs
    simp only [Option.some.injEq, Prod.mk.injEq] at hs
    show y < t.h
    omega
  rw [if_neg h]; clear h
  by_cases h : f = 117
  · rw [if_pos h]
    cases hs : t.saved with
    | none => exact ⟨⟨hh, wf.bot_lt, wf.top_le, by intro x y s h'; cases h'⟩, rfl, rfl, rfl⟩
    | some v =>
      obtain ⟨x, y, s⟩ := v
      exact ⟨⟨wf.saved_ok x y s hs, wf.bot_lt, wf.top_le, by intro x' y' s' h'; cases h'; exact wf.saved_ok x y s hs⟩, rfl, rfl, rfl⟩
  rw [if_neg h]; clear h
  by_cases h : f = 83
  · rw [if_pos h]; exact keep _ (iter_scrollUp1_core _ _)
  rw [if_neg h]; clear h
  by_cases h : f = 84
  · rw [if_pos h]; exact keep _ (iter_scrollDown1_core _ _)
  rw [if_neg h]; clear h
  by_cases h : f = 114
  · rw [if_pos h]
    by_cases h2 : tp ≥ bt
    · rw [if_pos h2]; exact keep _ rfl
    · rw [if_neg h2]
      refine ⟨⟨hh, ?_, ?_, wf.saved_ok⟩, rfl, rfl, rfl⟩
      · show bt < t.h
        simp only [bt]; omega
      · show tp ≤ bt
        omega
  rw [if_neg h]; clear h
  by_cases h : f = 74
  · rw [if_pos h]
    by_cases a0 : k1 = 0
    · rw [if_pos a0]; exact keep _ rfl
    rw [if_neg a0]
    by_cases a1 : k1 = 1
    · rw [if_pos a1]; exact keep _ rfl
    rw [if_neg a1]
    by_cases a2 : k1 = 2
    · rw [if_pos a2]; exact keep _ rfl
    rw [if_neg a2]; exact keep _ rfl
  rw [if_neg h]; clear h
  by_cases h : f = 75
  · rw [if_pos h]
    by_cases a0 : k2 = 0
    · rw [if_pos a0]; exact keep _ rfl
    rw [if_neg a0]
    by_cases a1 : k2 = 1
    · rw [if_pos a1]; exact keep _ rfl
    rw [if_neg a1]
    by_cases a2 : k2 = 2
    · rw [if_pos a2]; exact keep _ rfl
    rw [if_neg a2]; exact keep _ rfl
  rw [if_neg h]; clear h
  by_cases h : f = 110
  · rw [if_pos h]
    by_cases a0 : ps = [6]
    · rw [if_pos a0]; exact keep _ rfl
    rw [if_neg a0]; exact keep _ rfl
  rw [if_neg h]; exact keep _ rfl

theorem index_WF (t : Term) (wf : t.WF) : Good t t.index := by
  have c1 := wf.cy_lt
  unfold Term.index
  by_cases h : t.cy = t.bot
  · rw [if_pos h]; exact Good.of_core wf rfl
  rw [if_neg h]
  by_cases h2 : t.cy + 1 < t.h
  · rw [if_pos h2]; exact ⟨⟨h2, wf.bot_lt, wf.top_le, wf.saved_ok⟩, rfl, rfl, rfl⟩
  rw [if_neg h2]; exact Good.of_core wf rfl

theorem Good.trans {a b c : Term} (h1 : Good a b) (h2 : Good b c) : Good a c :=
  ⟨h2.1, h2.2.1.trans h1.2.1, h2.2.2.1.trans h1.2.2.1, h2.2.2.2.trans h1.2.2.2⟩

theorem Good.refl {a : Term} (wf : a.WF) : Good a a := ⟨wf, rfl, rfl, rfl⟩

theorem Good.setCx {a b : Term} (h : Good a b) (x : Nat) : Good a { b with cx := x } :=
  ⟨⟨h.1.cy_lt, h.1.bot_lt, h.1.top_le, h.1.saved_ok⟩, h.2⟩

theorem putChar_WF (t : Term) (wf : t.WF) (cp : Nat) : Good t (t.putChar cp) := by
  unfold Term.putChar
  by_cases hc : isCombining cp = true
  · rw [if_pos hc]
    by_cases h0 : t.cx = 0
    · rw [if_pos h0]; exact Good.refl wf
    · rw [if_neg h0]; exact Good.of_core wf rfl
  rw [if_neg hc]
  extract_lets ti t1 c
  have g1 : Good t t1 := by
    simp only [t1]
    by_cases hw : t.cx ≥ t.w
    · rw [if_pos hw]; exact (index_WF t wf).setCx 0
    · rw [if_neg hw]; exact Good.refl wf
  exact ⟨⟨g1.1.cy_lt, g1.1.bot_lt, g1.1.top_le, g1.1.saved_ok⟩, g1.2⟩

theorem init_WF (w h : Nat) (cfg : TermCfg) (hh : 1 ≤ h) : (Term.init w h cfg).WF :=
  ⟨hh, by show h - 1 < h; omega, Nat.zero_le _, by intro x y s hs; cases hs⟩

theorem feed_WF (t : Term) (wf : t.WF) (k : Tok) : Good t (t.feed k) := by
  have hh : 1 ≤ t.h := by have := wf.cy_lt; omega
  unfold Term.feed
  split
  · exact putChar_WF t wf _
  · exact index_WF t wf
  · exact index_WF t wf
  · exact index_WF t wf
  · exact (Good.refl wf).setCx 0
  · exact (Good.refl wf).setCx _
  · exact Good.refl wf
  · exact csi_WF t wf _ _
  · exact index_WF t wf
  · exact (index_WF t wf).setCx 0
  · by_cases h : t.cy = t.top
    · rw [if_pos h]; exact Good.of_core wf rfl
    rw [if_neg h]
    by_cases h2 : t.cy > 0
    · rw [if_pos h2]
      exact ⟨⟨by show t.cy - 1 < t.h; have := wf.cy_lt; omega, wf.bot_lt, wf.top_le, wf.saved_ok⟩, rfl, rfl, rfl⟩
    · rw [if_neg h2]; exact Good.refl wf
  · exact ⟨WF_of_core (t := Term.init t.w t.h t.cfg) rfl (init_WF t.w t.h t.cfg hh), rfl, rfl, rfl⟩
  · exact ⟨⟨wf.cy_lt, wf.bot_lt, wf.top_le, by intro x y s hs; cases hs; exact wf.cy_lt⟩, rfl, rfl, rfl⟩
  · cases hs : t.saved with
    | none => exact ⟨⟨hh, wf.bot_lt, wf.top_le, by intro x y s h'; cases h'⟩, rfl, rfl, rfl⟩
    | some v =>
      obtain ⟨x, y, s⟩ := v
      exact ⟨⟨wf.saved_ok x y s hs, wf.bot_lt, wf.top_le, by intro x' y' s' h'; cases h'; exact wf.saved_ok x y s hs⟩, rfl, rfl, rfl⟩
  all_goals exact Good.refl wf

theorem feedP_WF (t : Term) (wf : t.WF) (k : Tok) : Good t (t.feedP k) := by
  have hh : 1 ≤ t.h := by have := wf.cy_lt; omega
  unfold Term.feedP
  split
  · exact ⟨⟨by show min _ (t.h - 1) < t.h; omega, wf.bot_lt, wf.top_le, wf.saved_ok⟩, rfl, rfl, rfl⟩
  · cases hs : t.saved with
    | none => exact ⟨⟨hh, wf.bot_lt, wf.top_le, by intro x y s h'; cases h'⟩, rfl, rfl, rfl⟩
    | some v =>
      obtain ⟨x, y, s⟩ := v
      exact ⟨⟨wf.saved_ok x y s hs, wf.bot_lt, wf.top_le, by intro x' y' s' h'; cases h'; exact wf.saved_ok x y s hs⟩, rfl, rfl, rfl⟩
  · cases hs : t.saved with
    | none => exact ⟨⟨hh, wf.bot_lt, wf.top_le, by intro x y s h'; cases h'⟩, rfl, rfl, rfl⟩
    | some v =>
      obtain ⟨x, y, s⟩ := v
      exact ⟨⟨wf.saved_ok x y s hs, wf.bot_lt, wf.top_le, by intro x' y' s' h'; cases h'; exact wf.saved_ok x y s hs⟩, rfl, rfl, rfl⟩
  · exact (Good.refl wf).setCx _
  · exact feed_WF t wf _

theorem foldl_feedP_WF (ts : List Tok) (t : Term) (wf : t.WF) : Good t (ts.foldl Term.feedP t) := by
  induction ts generalizing t with
  | nil => exact Good.refl wf
  | cons k ks ih => exact (feedP_WF t wf k).trans (ih _ (feedP_WF t wf k).1)

end Tup.Spec
