import Tup.Lemmas.PhTable
/-!
  Feeding the pieces of a placeholder line to the specification terminal `Spec.Term`:
  SGR tokens only change the SGR state; a base character followed by its diacritics writes one
  cell at the cursor and advances it; a sequence of (cell formatting, placeholder, diacritics)
  groups that fits the width writes exactly those cells and nothing else.
-/
namespace Tup.Ph
open Tup Tup.Spec

/-- an SGR control sequence (`CSI … m`) -/
def IsSgr (t : Tok) : Prop := ∃ ps, t = .csi ps 109

/-- effect of one token on the SGR state when it is an SGR sequence -/
def sgrStep (s : Sgr) : Tok → Sgr
  | .csi ps 109 => applySgr (if ps.isEmpty then [0] else ps) s
  | _ => s

def sgrAfter (s : Sgr) (ts : List Tok) : Sgr := ts.foldl sgrStep s

theorem feed_sgr (t : Term) (tok : Tok) (h : IsSgr tok) : t.feed tok = { t with sgr := sgrStep t.sgr tok } := by
  obtain ⟨ps, rfl⟩ := h
  simp [Term.feed, Term.csi, sgrStep]

theorem feedAll_sgrs (ts : List Tok) : ∀ (t : Term), (∀ tok ∈ ts, IsSgr tok) →
    t.feedAll ts = { t with sgr := sgrAfter t.sgr ts } := by
  induction ts with
  | nil => intro t _; simp [Term.feedAll, sgrAfter]
  | cons a r ih =>
    intro t h
    have ha := h a (by simp)
    have hr : ∀ tok ∈ r, IsSgr tok := fun tok ht => h tok (by simp [ht])
    have := ih ({ t with sgr := sgrStep t.sgr a }) hr
    simp only [Term.feedAll, List.foldl_cons, sgrAfter] at this ⊢
    rw [feed_sgr t a ha, this]

/-- overwrite one cell -/
def setCell (t : Term) (y x : Nat) (c : Cell) : Term :=
  { t with cells := fun y' x' => if y' = y ∧ x' = x then c else t.cells y' x' }

@[simp] theorem setCell_cx (t : Term) (y x : Nat) (c : Cell) : (setCell t y x c).cx = t.cx := rfl
@[simp] theorem setCell_cy (t : Term) (y x : Nat) (c : Cell) : (setCell t y x c).cy = t.cy := rfl
@[simp] theorem setCell_w (t : Term) (y x : Nat) (c : Cell) : (setCell t y x c).w = t.w := rfl
@[simp] theorem setCell_sgr (t : Term) (y x : Nat) (c : Cell) : (setCell t y x c).sgr = t.sgr := rfl
@[simp] theorem setCell_cells_same (t : Term) (y x : Nat) (c : Cell) : (setCell t y x c).cells y x = c := by
  simp [setCell]

theorem setCell_self (t : Term) (y x : Nat) : setCell t y x (t.cells y x) = t := by
  cases t
  simp only [setCell]
  congr
  funext y' x'
  split
  · rename_i h; rw [h.1, h.2]
  · rfl

theorem setCell_setCell (t : Term) (y x : Nat) (c c' : Cell) : setCell (setCell t y x c) y x c' = setCell t y x c' := by
  simp only [setCell]
  congr
  funext y' x'
  split <;> rfl

theorem putChar_base (t : Term) (cp : Nat) (hc : isCombining cp = false) (hx : t.cx < t.w) :
    t.putChar cp = { setCell t t.cy t.cx ⟨cp, [], t.sgr.fg, t.sgr.ul, t.sgr.bg⟩ with cx := t.cx + 1 } := by
  unfold Term.putChar setCell
  have : ¬ t.cx ≥ t.w := by omega
  simp [hc, this]

theorem putChar_mark (t : Term) (cp : Nat) (hc : isCombining cp = true) (hx : 0 < t.cx) :
    t.putChar cp = setCell t t.cy (t.cx - 1)
      { t.cells t.cy (t.cx - 1) with marks := (t.cells t.cy (t.cx - 1)).marks ++ [cp] } := by
  unfold Term.putChar setCell
  have : t.cx ≠ 0 := by omega
  simp [hc, this]

theorem feedAll_marks (ms : List Nat) : ∀ (t : Term), (∀ m ∈ ms, isCombining m = true) → 0 < t.cx →
    t.feedAll (ms.map Tok.char) = setCell t t.cy (t.cx - 1)
      { t.cells t.cy (t.cx - 1) with marks := (t.cells t.cy (t.cx - 1)).marks ++ ms } := by
  induction ms with
  | nil =>
    intro t _ _
    simp only [Term.feedAll, List.map_nil, List.foldl_nil, List.append_nil]
    exact (setCell_self t _ _).symm
  | cons a r ih =>
    intro t h hx
    have ha := h a (by simp)
    have hr : ∀ m ∈ r, isCombining m = true := fun m hm => h m (by simp [hm])
    simp only [Term.feedAll, List.map_cons, List.foldl_cons, Term.feed]
    rw [putChar_mark t a ha hx]
    have := ih (setCell t t.cy (t.cx - 1) { t.cells t.cy (t.cx - 1) with marks := (t.cells t.cy (t.cx - 1)).marks ++ [a] }) hr
      (by simpa using hx)
    simp only [Term.feedAll] at this
    rw [this]
    simp [setCell_setCell, List.append_assoc]

/-! ### cell groups: (formatting, base character, diacritics) -/

abbrev Group := List Tok × List Nat

def groupToks (base : Nat) (g : Group) : List Tok :=
  g.1 ++ [Tok.char base] ++ g.2.map (fun i => Tok.char (diacCp i))

def groupsToks (base : Nat) (gs : List Group) : List Tok := gs.flatMap (groupToks base)

/-- the cells a run of groups writes, starting in SGR state `s` -/
def groupCells (base : Nat) (s : Sgr) : List Group → List Cell
  | [] => []
  | g :: r =>
    let s' := sgrAfter s g.1
    ⟨base, g.2.map diacCp, s'.fg, s'.ul, s'.bg⟩ :: groupCells base s' r

def sgrAfterGroups (s : Sgr) : List Group → Sgr
  | [] => s
  | g :: r => sgrAfterGroups (sgrAfter s g.1) r

/-- write cells left to right from column `x` of row `y` -/
def writeRow (t : Term) (y : Nat) : Nat → List Cell → Term
  | _, [] => t
  | x, c :: cs => writeRow (setCell t y x c) y (x + 1) cs

theorem writeRow_with (cs : List Cell) : ∀ (t : Term) (y x a : Nat) (b : Sgr),
    writeRow { t with cx := a, sgr := b } y x cs = { writeRow t y x cs with cx := a, sgr := b } := by
  induction cs with
  | nil => intro t y x a b; rfl
  | cons c r ih =>
    intro t y x a b
    simp only [writeRow]
    exact ih (setCell t y x c) y (x + 1) a b

theorem writeRow_cells (cs : List Cell) : ∀ (t : Term) (y x y' x' : Nat),
    (writeRow t y x cs).cells y' x' =
      if y' = y ∧ x ≤ x' ∧ x' < x + cs.length then cs[x' - x]?.getD Cell.blank else t.cells y' x' := by
  induction cs with
  | nil =>
    intro t y x y' x'
    have : ¬ (y' = y ∧ x ≤ x' ∧ x' < x + 0) := by omega
    simp [writeRow]
    omega
  | cons c r ih =>
    intro t y x y' x'
    simp only [writeRow, ih, List.length_cons]
    by_cases h1 : y' = y
    · by_cases h2 : x' = x
      · subst h1 h2
        have : ¬ (x' + 1 ≤ x' ∧ x' < x' + 1 + r.length) := by omega
        simp [setCell, this]
      · by_cases h3 : x + 1 ≤ x' ∧ x' < x + 1 + r.length
        · have h4 : x ≤ x' ∧ x' < x + (r.length + 1) := by omega
          have h5 : x' - x = (x' - (x + 1)) + 1 := by omega
          simp [h1, h3, h4, h5]
        · have h4 : ¬ (x ≤ x' ∧ x' < x + (r.length + 1)) := by omega
          simp [h1, h3, h4, setCell, h2]
    · simp [h1, setCell]

@[simp] theorem writeRow_cx (cs : List Cell) : ∀ (t : Term) (y x : Nat), (writeRow t y x cs).cx = t.cx := by
  induction cs with
  | nil => intro t y x; rfl
  | cons c r ih => intro t y x; simp [writeRow, ih]
@[simp] theorem writeRow_cy (cs : List Cell) : ∀ (t : Term) (y x : Nat), (writeRow t y x cs).cy = t.cy := by
  induction cs with
  | nil => intro t y x; rfl
  | cons c r ih => intro t y x; simp only [writeRow, ih]; rfl
@[simp] theorem writeRow_w (cs : List Cell) : ∀ (t : Term) (y x : Nat), (writeRow t y x cs).w = t.w := by
  induction cs with
  | nil => intro t y x; rfl
  | cons c r ih => intro t y x; simp [writeRow, ih]
@[simp] theorem writeRow_sgr (cs : List Cell) : ∀ (t : Term) (y x : Nat), (writeRow t y x cs).sgr = t.sgr := by
  induction cs with
  | nil => intro t y x; rfl
  | cons c r ih => intro t y x; simp [writeRow, ih]

theorem feed_group (base : Nat) (hb : isCombining base = false) (g : Group) (t : Term)
    (hf : ∀ tok ∈ g.1, IsSgr tok) (hi : ∀ i ∈ g.2, i < 297) (hx : t.cx < t.w) :
    t.feedAll (groupToks base g) =
      { setCell t t.cy t.cx ⟨base, g.2.map diacCp, (sgrAfter t.sgr g.1).fg, (sgrAfter t.sgr g.1).ul, (sgrAfter t.sgr g.1).bg⟩
        with cx := t.cx + 1, sgr := sgrAfter t.sgr g.1 } := by
  unfold groupToks
  simp only [Term.feedAll, List.foldl_append, List.foldl_cons, List.foldl_nil]
  have h1 := feedAll_sgrs g.1 t hf
  simp only [Term.feedAll] at h1
  rw [h1]
  simp only [Term.feed]
  rw [putChar_base _ base hb (by simpa using hx)]
  have hm : ∀ m ∈ g.2.map diacCp, isCombining m = true := by
    intro m hm
    obtain ⟨i, hi', rfl⟩ := List.mem_map.mp hm
    exact isCombining_diacCp i (hi i hi')
  have h2 := feedAll_marks (g.2.map diacCp)
    ({ setCell { t with sgr := sgrAfter t.sgr g.1 } t.cy t.cx ⟨base, [], (sgrAfter t.sgr g.1).fg, (sgrAfter t.sgr g.1).ul, (sgrAfter t.sgr g.1).bg⟩
        with cx := t.cx + 1 }) hm (by simp)
  simp only [Term.feedAll, List.map_map] at h2
  have h3 : (g.2.map fun i => Tok.char (diacCp i)) = g.2.map (Tok.char ∘ diacCp) := rfl
  rw [h3]
  simp only [setCell] at h2 ⊢
  rw [h2]
  simp
  funext y' x'
  by_cases h : y' = t.cy ∧ x' = t.cx <;> simp [h]

theorem feedAll_append (t : Term) (a b : List Tok) : t.feedAll (a ++ b) = (t.feedAll a).feedAll b := by
  simp [Term.feedAll, List.foldl_append]

theorem feed_groups (base : Nat) (hb : isCombining base = false) (gs : List Group) : ∀ (t : Term),
    (∀ g ∈ gs, (∀ tok ∈ g.1, IsSgr tok) ∧ ∀ i ∈ g.2, i < 297) → t.cx + gs.length ≤ t.w →
    t.feedAll (groupsToks base gs) =
      { writeRow t t.cy t.cx (groupCells base t.sgr gs) with cx := t.cx + gs.length, sgr := sgrAfterGroups t.sgr gs } := by
  induction gs with
  | nil => intro t _ _; simp [groupsToks, Term.feedAll, writeRow, groupCells, sgrAfterGroups]
  | cons g r ih =>
    intro t h hx
    have hg := h g (by simp)
    have hr : ∀ g ∈ r, (∀ tok ∈ g.1, IsSgr tok) ∧ ∀ i ∈ g.2, i < 297 := fun g' hg' => h g' (by simp [hg'])
    simp only [List.length_cons] at hx
    have hgs : groupsToks base (g :: r) = groupToks base g ++ groupsToks base r := by simp [groupsToks]
    rw [hgs, feedAll_append, feed_group base hb g t hg.1 hg.2 (by omega)]
    rw [ih _ hr (by simp; omega)]
    simp only [groupCells, sgrAfterGroups, writeRow, List.length_cons]
    rw [writeRow_with]
    have : t.cx + 1 + r.length = t.cx + (r.length + 1) := by omega
    simp [this]

end Tup.Ph
