import Tup.Lemmas.PhLine
/-!
  Complete outputs (all styles): the last thing that touches the SGR state is the reset that ends the last line.
-/
namespace Tup.Ph
open Tup Tup.Spec

theorem enumFrom_append {α} (a b : List α) : ∀ n, enumFrom n (a ++ b) = enumFrom n a ++ enumFrom (n + a.length) b := by
  induction a with
  | nil => intro n; simp [enumFrom]
  | cons x r ih =>
    intro n
    simp only [List.cons_append, enumFrom, ih, List.length_cons]
    have : n + 1 + r.length = n + (r.length + 1) := by omega
    rw [this]

/-- every style's token stream for `init ++ [last]` ends with the tokens of the last line -/
theorem streamToks_snoc (st : Style) (width : Nat) (init : List (List Tok)) (last : List Tok) :
    ∃ pre, streamToks st width (init ++ [last]) = pre ++ last := by
  cases st with
  | atCursor save lf =>
    simp only [streamToks, enumFrom_append, List.flatMap_append, enumFrom, List.flatMap_cons, List.flatMap_nil,
      List.append_nil, List.length_append, List.length_cons, List.length_nil, Nat.zero_add]
    refine ⟨((enumFrom 0 init).flatMap fun x => curBefore save lf x.1 (init.length + 1) ++ x.2 ++
      curAfter save lf width x.1 (init.length + 1)) ++ curBefore save lf init.length (init.length + 1), ?_⟩
    simp [curAfter, List.append_assoc]
  | abs px py =>
    simp only [streamToks, enumFrom_append, List.flatMap_append, enumFrom, List.flatMap_cons, List.flatMap_nil,
      List.append_nil, Nat.zero_add]
    exact ⟨((enumFrom 0 init).flatMap fun x => [Tok.csi [py + x.1 + 1, px + 1] 72] ++ x.2) ++
      [Tok.csi [py + init.length + 1, px + 1] 72], by simp [List.append_assoc]⟩

theorem index_sgr (t : Term) : t.index.sgr = t.sgr := by
  unfold Term.index Term.scrollUp1
  split
  · rfl
  · split <;> rfl

/-- a token list that ends with the reset leaves the SGR state default, whatever came before -/
theorem feedAll_ends_reset (t : Term) (pre : List Tok) : (t.feedAll (pre ++ [sgrReset])).sgr = {} := by
  rw [feedAll_append, feedAll_singleton, feed_reset_sgr]

theorem lineToksAll_ne_nil (p : Placeholder) (m : Mode) (fmt : FmtT) (h : p.startRow < p.endRow) :
    p.lineToksAll m fmt =
      ((List.range' p.startRow (p.endRow - p.startRow - 1)).map (lineToks p m fmt)) ++ [lineToks p m fmt (p.endRow - 1)] := by
  unfold Placeholder.lineToksAll
  have h1 : p.endRow - p.startRow = (p.endRow - p.startRow - 1) + 1 := by omega
  rw [h1, List.range'_concat, List.map_append]
  simp
  congr 2
  omega

end Tup.Ph
