import Tup.Lemmas.RespFold
/-!
  Lemmas for C19, part 4: `receive` on noise ++ an encoded well-formed response ++ anything.
-/
open Tup Tup.Response
open Tup.Spec.Response (Key Wf encodeKey joinComma keyOk sepFree selI selN selP selX valueOf keyName nodupB
  encode expected Expected wf msgOk noiseOk)

namespace Tup.RespLemmas

/-- the model-side record for what the specification expects -/
def toResp (e : Expected) : Resp :=
  { imageId := e.imageId.map Int.ofNat
    imageNumber := e.imageNumber.map Int.ofNat
    placementId := e.placementId.map Int.ofNat
    additional := e.extras
    message := e.message
    isOk := e.isOk
    isValid := true
    nonResponse := e.nonResponse }

/-- every string of the response decodes as UTF-8 in the sense of the model's decoder
    (`utf8Valid`; compared with CPython's and with the specification's `isUtf8` by the harness) -/
def decodable (w : Wf) : Bool :=
  w.keys.all decodableKey && (match w.message with | none => true | some m => utf8Valid m)

theorem splitIntro_framed (noise X : Bytes) (hn : ¬ intro <:+: noise) :
    splitIntro (noise ++ intro ++ X) = (noise, X) := by
  induction noise with
  | nil => simp [splitIntro, intro, List.isPrefixOf]
  | cons b t ih =>
    have ht : ¬ intro <:+: t := fun h => hn (List.infix_cons h)
    have hp : intro.isPrefixOf (b :: (t ++ intro ++ X)) = false := by
      cases hh : intro.isPrefixOf (b :: (t ++ intro ++ X)) with
      | false => rfl
      | true =>
        exfalso
        match t, hn with
        | [], _ => simp [intro, List.isPrefixOf] at hh
        | [c], _ => simp [intro, List.isPrefixOf] at hh
        | c :: d :: u, hn =>
          simp only [intro, List.cons_append, List.isPrefixOf, Bool.and_eq_true, beq_iff_eq, Bool.and_true] at hh
          apply hn
          obtain ⟨h1, h2, h3⟩ := hh
          subst h1 h2 h3
          exact ⟨[], u, by simp [intro]⟩
    simp only [List.cons_append, List.append_assoc] at hp ⊢
    simp only [splitIntro, hp, Bool.false_eq_true, ↓reduceIte]
    have := ih ht
    simp only [List.append_assoc] at this
    rw [this]

theorem sepFree_avoid {s : Bytes} (h : sepFree s = true) {x : UInt8} (hx : x = 44 ∨ x = 59 ∨ x = 27) : x ∉ s := by
  intro hm
  simp only [sepFree, Bool.not_eq_true', List.any_eq_false, Bool.or_eq_true, beq_iff_eq, not_or] at h
  have := h x hm
  rcases hx with e | e | e <;> subst e <;> simp at this

theorem encodeKey_avoid {k : Key} (hk : keyOk k = true) {x : UInt8} (hx : x = 44 ∨ x = 59 ∨ x = 27) :
    x ∉ encodeKey k := by
  have hi : asc "i=" = [105, 61] := by decide
  have hI : asc "I=" = [73, 61] := by decide
  have hp : asc "p=" = [112, 61] := by decide
  have hdig : ∀ n, x ∉ natToDec n := by
    intro n hm
    have := natToDec_digits n x hm
    rcases hx with e | e | e <;> subst e <;> simp [isDigit] at this
  cases k with
  | imageId n =>
    simp only [encodeKey, hi, List.mem_append, List.mem_cons, List.not_mem_nil, or_false, not_or]
    refine ⟨⟨?_, ?_⟩, hdig n⟩ <;> rcases hx with e | e | e <;> subst e <;> decide
  | imageNumber n =>
    simp only [encodeKey, hI, List.mem_append, List.mem_cons, List.not_mem_nil, or_false, not_or]
    refine ⟨⟨?_, ?_⟩, hdig n⟩ <;> rcases hx with e | e | e <;> subst e <;> decide
  | placementId n =>
    simp only [encodeKey, hp, List.mem_append, List.mem_cons, List.not_mem_nil, or_false, not_or]
    refine ⟨⟨?_, ?_⟩, hdig n⟩ <;> rcases hx with e | e | e <;> subst e <;> decide
  | extra k v =>
    simp only [keyOk, Bool.and_eq_true] at hk
    obtain ⟨⟨⟨⟨_, _⟩, hs⟩, _⟩, hv⟩ := hk
    cases v with
    | none => simpa [encodeKey] using sepFree_avoid hs hx
    | some v =>
      simp only [Bool.and_eq_true] at hv
      simp only [encodeKey, List.mem_append, List.mem_cons, List.not_mem_nil, or_false, not_or]
      refine ⟨⟨sepFree_avoid hs hx, ?_⟩, sepFree_avoid hv.1.2 hx⟩
      rcases hx with e | e | e <;> subst e <;> decide

theorem not_term_infix_append (A B : Bytes) (hA : (27 : UInt8) ∉ A) (hB : ¬ term <:+: B) : ¬ term <:+: A ++ B := by
  induction A with
  | nil => simpa using hB
  | cons a t ih =>
    simp only [List.mem_cons, not_or] at hA
    intro h
    rcases List.infix_cons_iff.mp h with hp | hi
    · obtain ⟨u, hu⟩ := hp
      simp only [term, List.cons_append, List.cons.injEq] at hu
      exact hA.1 hu.1
    · exact ih hA.2 hi

theorem foldl_encoded (keys : List Key) (r : Resp) (hk : ∀ k ∈ keys, keyOk k = true)
    (hd : ∀ k ∈ keys, decodableKey k = true) :
    (keys.map encodeKey).foldl applyPart r = keys.foldl applyKey r := by
  induction keys generalizing r with
  | nil => rfl
  | cons k ks ih =>
    simp only [List.map_cons, List.foldl_cons]
    rw [applyPart_encodeKey r k (hk k (by simp)) (hd k (by simp))]
    exact ih _ (fun x hx => hk x (by simp [hx])) (fun x hx => hd x (by simp [hx]))

theorem take_strip_term (b : Bytes) : (b ++ term).take ((b ++ term).length - 2) = b := by
  have : (b ++ term).length - 2 = b.length := by simp [term]
  rw [this, List.take_left']
  rfl

theorem pick_none (o : Option Nat) : pick o none = o.map Int.ofNat := by
  cases o <;> rfl

/-- The heart of C19: one `receive_response` call on noise, an encoded well-formed response, and
    whatever follows. -/
theorem receive_encoded (noise rest : Bytes) (w : Wf) (hw : wf w = true) (hn : noiseOk noise = true)
    (hd : decodable w = true) :
    receive (noise ++ encode w ++ rest) = (.resp (toResp (expected noise w)), rest) := by
  -- unpack the hypotheses
  simp only [wf, Bool.and_eq_true, List.all_eq_true] at hw
  obtain ⟨⟨⟨⟨⟨hkeys, hnd⟩, _⟩, _⟩, _⟩, hmsg⟩ := hw
  simp only [decodable, Bool.and_eq_true, List.all_eq_true] at hd
  obtain ⟨hdk, hdm⟩ := hd
  have hnoise : ¬ intro <:+: noise := by
    intro h
    have := (isInfix_iff intro noise).mpr h
    simp [noiseOk, intro] at hn this
    simp [hn] at this
  -- the key section
  let parts := w.keys.map encodeKey
  have hparts : ∀ x : UInt8, (x = 44 ∨ x = 59 ∨ x = 27) → ∀ q ∈ parts, x ∉ q := by
    intro x hx q hq
    obtain ⟨k, hk, rfl⟩ := List.mem_map.mp hq
    exact encodeKey_avoid (hkeys k hk) hx
  have hK27 : (27 : UInt8) ∉ joinComma parts := mem_joinComma parts (by decide) (hparts 27 (by simp))
  have hK59 : (59 : UInt8) ∉ joinComma parts := mem_joinComma parts (by decide) (hparts 59 (by simp))
  have hfold : ∀ r, (splitOn 44 (joinComma parts)).foldl applyPart r = w.keys.foldl applyKey r := by
    intro r
    rw [foldl_parts parts r (hparts 44 (by simp))]
    exact foldl_encoded w.keys r hkeys hdk
  have hfinal : ∀ r : Resp, r.imageId = none → r.imageNumber = none → r.placementId = none → r.additional = [] →
      w.keys.foldl applyKey r = { r with imageId := (valueOf selI w.keys).map Int.ofNat
                                         imageNumber := (valueOf selN w.keys).map Int.ofNat
                                         placementId := (valueOf selP w.keys).map Int.ofNat
                                         additional := w.keys.filterMap selX } := by
    intro r h1 h2 h3 h4
    rw [foldl_applyKey w.keys r hnd (by simp [h4])]
    simp [h1, h2, h3, h4, pick_none]
  cases hm : w.message with
  | none =>
    have henc : noise ++ encode w ++ rest = noise ++ intro ++ joinComma parts ++ term ++ rest := by
      simp [encode, hm, intro, term, parts]
    have hbody : ¬ term <:+: joinComma parts := by
      have := not_term_infix_append (joinComma parts) [] hK27 (by simp [term])
      simpa using this
    rw [henc]
    unfold receive
    rw [scan_framed noise (joinComma parts) rest hnoise hbody]
    simp only [parseResponse]
    have e1 : noise ++ intro ++ joinComma parts ++ term = noise ++ intro ++ (joinComma parts ++ term) := by simp
    rw [e1, splitIntro_framed noise _ hnoise]
    have e2 : (joinComma parts ++ term).take ((joinComma parts ++ term).length - 2) = joinComma parts :=
      take_strip_term _
    simp only [e2, splitOnce_not_mem 59 _ hK59, hfold]
    rw [hfinal _ rfl rfl rfl rfl]
    simp [toResp, expected, hm]
  | some m =>
    rw [hm] at hmsg hdm
    simp only [msgOk, Bool.and_eq_true, Bool.not_eq_true'] at hmsg
    have hmt : ¬ term <:+: m := by
      intro h
      have := (isInfix_iff term m).mpr h
      simp [term] at this
      simp [this] at hmsg
    have henc : noise ++ encode w ++ rest = noise ++ intro ++ (joinComma parts ++ 59 :: m) ++ term ++ rest := by
      simp [encode, hm, intro, term, parts]
    have hbody : ¬ term <:+: joinComma parts ++ 59 :: m := by
      have h1 : (27 : UInt8) ∉ joinComma parts ++ [59] := by simp [hK27]
      have := not_term_infix_append (joinComma parts ++ [59]) m h1 hmt
      simpa using this
    rw [henc]
    unfold receive
    rw [scan_framed noise _ rest hnoise hbody]
    simp only [parseResponse]
    have e1 : noise ++ intro ++ (joinComma parts ++ 59 :: m) ++ term
        = noise ++ intro ++ ((joinComma parts ++ 59 :: m) ++ term) := by simp
    rw [e1, splitIntro_framed noise _ hnoise]
    have e2 : ((joinComma parts ++ 59 :: m) ++ term).take (((joinComma parts ++ 59 :: m) ++ term).length - 2)
        = joinComma parts ++ 59 :: m := take_strip_term _
    simp only [e2, splitOnce_append 59 _ m hK59, hdm, Bool.not_true, Bool.false_eq_true, ↓reduceIte, hfold]
    rw [hfinal _ rfl rfl rfl rfl]
    have hok : asc "OK" = [79, 75] := by decide
    simp [toResp, expected, hm, hok]

end Tup.RespLemmas
