import Tup.Lemmas.PhTable
/-!
  C07(A) at the level of cells: the cells a placeholder line puts on the screen
  (`lineRealCells`: base character U+10EEEE, the emitted diacritics, constant fg/ul colours,
  arbitrary per-cell background) decode, by the protocol rules `Spec.decodeRow`, to
  (row, start_col + j) with the 4th ID byte, for every mode.
-/
namespace Tup.Ph
open Tup Tup.Spec

/-- a placeholder cell carrying the diacritics with table indices `is` -/
def phCell (fg ul bg : Option Color) (is : List Nat) : Cell :=
  { ch := Spec.placeholderChar, marks := is.map diacCp, fg := fg, ul := ul, bg := bg }

/-- the cells of a printable line, left to right (`bgf col` is the background of the cell of image column `col`) -/
def lineRealCells (fg ul : Option Color) (bgf : Nat → Option Color) (m : Mode) (row sc ec b4 : Nat) : List Cell :=
  phCell fg ul (bgf sc) (firstCell (counts m sc b4).1 row sc b4) ::
    (List.range' (sc + 1) (ec - (sc + 1))).map fun col => phCell fg ul (bgf col) (otherCell (counts m sc b4).2 row col b4)

theorem filterMap_diacIndex (is : List Nat) (h : ∀ i ∈ is, i < 297) :
    (is.map diacCp).filterMap Spec.diacIndex = is := by
  induction is with
  | nil => rfl
  | cons a t ih =>
    have ha : a < 297 := h a (by simp)
    have ht : ∀ i ∈ t, i < 297 := fun i hi => h i (by simp [hi])
    simp [diacIndex_diacCp a ha, ih ht]

def idOf (fg : Option Color) (msb : Nat) : Nat := msb * 16777216 + colorVal fg % 16777216

theorem decodeCell_phCell (prev : Option Prev) (fg ul bg : Option Color) (is : List Nat) (h : ∀ i ∈ is, i < 297) :
    decodeCell prev (phCell fg ul bg is) =
      let same := match prev with
        | some p => if p.fg = fg ∧ p.ul = ul then some p else none
        | none => none
      let rcm := resolve same is
      some (⟨idOf fg rcm.2.2, colorVal ul, rcm.1, rcm.2.1⟩, ⟨fg, ul, rcm.1, rcm.2.1, rcm.2.2⟩) := by
  unfold decodeCell phCell idOf
  simp [filterMap_diacIndex is h]
  exact ⟨⟨rfl, rfl, rfl⟩, rfl, rfl, rfl⟩

theorem otherCell_lt (oc row col b4 : Nat) (hr : row < 297) (hb : b4 < 297) :
    ∀ i ∈ otherCell oc row col b4, i < 297 := by
  unfold otherCell
  rw [tableLen_eq]
  intro i hi
  split at hi
  · split at hi
    · rename_i h2
      split at hi <;> simp at hi <;> omega
    · simp at hi; omega
  · simp at hi

theorem firstCell_lt (fc row sc b4 : Nat) (hr : row < 297) (hs : sc < 297) (hb : b4 < 297) :
    ∀ i ∈ firstCell fc row sc b4, i < 297 := by
  unfold firstCell
  intro i hi
  split at hi
  · split at hi
    · split at hi <;> simp at hi <;> omega
    · simp at hi; omega
  · simp at hi

theorem decode_other (fg ul bg : Option Color) (oc row s b4 : Nat) (hr : row < 297) (hb : b4 < 297) :
    decodeCell (some ⟨fg, ul, row, s, b4⟩) (phCell fg ul bg (otherCell oc row (s + 1) b4)) =
      some (⟨idOf fg b4, colorVal ul, row, s + 1⟩, ⟨fg, ul, row, s + 1, b4⟩) := by
  rw [decodeCell_phCell _ _ _ _ _ (otherCell_lt oc row (s + 1) b4 hr hb)]
  unfold otherCell
  by_cases h1 : oc ≥ 1 <;> by_cases h2 : oc ≥ 2 ∧ s + 1 < tableLen <;> by_cases h3 : oc ≥ 3 <;>
    simp [h1, h2, h3, resolve]

theorem decode_others (fg ul : Option Color) (bgf : Nat → Option Color) (oc row b4 : Nat) (hr : row < 297) (hb : b4 < 297) :
    ∀ (n start : Nat),
    decodeRow (some ⟨fg, ul, row, start, b4⟩)
        ((List.range' (start + 1) n).map fun col => phCell fg ul (bgf col) (otherCell oc row col b4))
      = (List.range' (start + 1) n).map fun col => some ⟨idOf fg b4, colorVal ul, row, col⟩ := by
  intro n
  induction n with
  | zero => intro s; simp [decodeRow]
  | succ n ih =>
    intro s
    simp only [List.range'_succ, List.map_cons, decodeRow]
    rw [decode_other fg ul _ oc row s b4 hr hb]
    simp [ih (s + 1)]

theorem decode_first (fg ul bg : Option Color) (m : Mode) (hf : 1 ≤ m.firstLevel ∧ m.firstLevel ≤ 4)
    (row sc b4 : Nat) (hr : row < 297) (hs : sc < 297) (hb : b4 < 297) :
    decodeCell none (phCell fg ul bg (firstCell (counts m sc b4).1 row sc b4)) =
      some (⟨idOf fg b4, colorVal ul, row, sc⟩, ⟨fg, ul, row, sc, b4⟩) := by
  rw [decodeCell_phCell _ _ _ _ _ (firstCell_lt _ row sc b4 hr hs hb)]
  unfold counts firstCell
  obtain ⟨hf1, hf2⟩ := hf
  by_cases hb0 : b4 = 0 <;> by_cases hs0 : sc = 0 <;>
    rcases (show m.firstLevel = 1 ∨ m.firstLevel = 2 ∨ m.firstLevel = 3 ∨ m.firstLevel = 4 by omega) with h | h | h | h <;>
    simp [hb0, hs0, h, resolve]

/-- C07(A), cell level: every mode, every width, start column and row below 297. -/
theorem decodeRow_lineRealCells (fg ul : Option Color) (bgf : Nat → Option Color) (m : Mode)
    (hf : 1 ≤ m.firstLevel ∧ m.firstLevel ≤ 4) (row sc ec b4 : Nat)
    (hr : row < 297) (hs : sc < 297) (hb : b4 < 297) (hlt : sc < ec) :
    decodeRow none (lineRealCells fg ul bgf m row sc ec b4)
      = (List.range' sc (ec - sc)).map fun col => some ⟨idOf fg b4, colorVal ul, row, col⟩ := by
  unfold lineRealCells
  have hlen : ec - sc = (ec - (sc + 1)) + 1 := by omega
  rw [hlen, List.range'_succ]
  simp only [List.map_cons, decodeRow, decode_first fg ul _ m hf row sc b4 hr hs hb]
  rw [decode_others fg ul bgf _ row b4 hr hb]

theorem lineRealCells_length (fg ul : Option Color) (bgf : Nat → Option Color) (m : Mode) (row sc ec b4 : Nat) (hlt : sc < ec) :
    (lineRealCells fg ul bgf m row sc ec b4).length = ec - sc := by
  unfold lineRealCells
  simp
  omega

end Tup.Ph
