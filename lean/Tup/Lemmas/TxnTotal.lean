import Tup.Lemmas.TxnRun
/-!
  Helper lemmas for C03, part 6: on `DbInv` databases the blocks of `get_id` raise nothing but
  "inadmissible choice" (`lookupBlock_error`, `sampleBlock_error`) — no `KeyError`, no `ValueError`,
  and the model has no constraint error at all; and what a `get_id` block that returns an id did to
  that id's row (`get_step_binding`).
-/
namespace Tup.TxnLemmas
open Tup Tup.Txn Tup.DbLemmas Tup.IdLemmas Tup.AllocLemmas Tup.Spec.AllocStep

theorem setId_ok_of_inSpace {s : Space} (hs : s ∈ Space.all) {id : Nat} (hin : Spec.inSpace s id = true)
    (db : Db) (d : String) (now : Nat) : ∃ db', setId db id d now = .ok db' := by
  unfold setId
  rw [(fromId_iff_inSpace hs id).2 hin]
  exact ⟨_, rfl⟩

theorem setId_error {db : Db} {id now : Nat} {d : String} {e : Err} (h : setId db id d now = .error e) :
    e = .valueError ∧ fromId id = none := by
  unfold setId at h
  split at h
  · next hn => injection h with h; exact ⟨h.symm, hn⟩
  · cases h

theorem getInfo_error {db : Db} {id : Nat} {e : Err} (h : getInfo db id = .error e) :
    e = .valueError ∧ fromId id = none := by
  unfold getInfo at h
  split at h
  · next hn => injection h with h; exact ⟨h.symm, hn⟩
  · cases h

theorem needsUploading_error {db : Db} {id now : Nat} {term : String} {thr : Thresholds} {e : Err}
    (h : needsUploading db id term thr now = .error e) : e = .valueError ∧ fromId id = none := by
  unfold needsUploading at h
  split at h
  · next e' he => injection h with h; subst h; exact getInfo_error he
  · cases h
  · split at h <;> cases h

theorem lookupBlock_error {cfg : Cfg} {req : Req} {now pick : Nat} {db : Db} {e : Err} (hinv : DbInv db)
    (hs : req.space ∈ Space.all) (hu : req.sub.valid = true)
    (h : lookupBlock cfg req now pick db = .error e) : ∃ why, e = .badChoice why := by
  have hrow : ∀ v, (List.find? (fun r => r.id == pick) ((db.ids req.space).inSub req.space req.sub)) = some v →
      ∀ e', setId db pick req.desc now ≠ .error e' := by
    intro v hv e' he
    obtain ⟨hvm, hvid⟩ := find?_id_some hv
    have hin := hinv.space _ hs v (mem_inSub.1 hvm).1
    rw [hvid] at hin
    obtain ⟨db', hok⟩ := setId_ok_of_inSpace hs hin db req.desc now
    rw [hok] at he; cases he
  unfold lookupBlock at h
  simp only [] at h
  split at h
  · split at h
    · cases h
    · injection h with h; exact ⟨_, h.symm⟩
  · split at h
    · split at h
      · split at h
        · next v hv =>
          split at h
          · split at h
            · cases h
            · next e' he => exact absurd he (hrow v hv e')
          · injection h with h; exact ⟨_, h.symm⟩
        · injection h with h; exact ⟨_, h.symm⟩
      · split at h
        · -- `available_ids.remove(row_id)` cannot fail: every live row is an enumerated id
          next hany =>
          exfalso
          obtain ⟨r, hr, hnc⟩ := List.any_eq_true.1 hany
          obtain ⟨hrt, hf⟩ := mem_inSub.1 hr
          have hm := member_of_row hinv hs hu hrt hf
          have := (mem_allIds_iff_member hs hu r.id).2 hm
          simp [this] at hnc
        · split at h
          · split at h
            · next hpick =>
              split at h
              · cases h
              · next e' he =>
                exfalso
                have hp := (List.mem_filter.1 (List.contains_iff_mem.1 hpick)).1
                have hm := (mem_allIds_iff_member hs hu pick).1 hp
                obtain ⟨db', hok⟩ := setId_ok_of_inSpace hs (inSpace_of_member hm) db req.desc now
                rw [hok] at he; cases he
            · injection h with h; exact ⟨_, h.symm⟩
          · split at h
            · next v hv =>
              split at h
              · split at h
                · cases h
                · next e' he => exact absurd he (hrow v hv e')
              · injection h with h; exact ⟨_, h.symm⟩
            · injection h with h; exact ⟨_, h.symm⟩
    · cases h

theorem sampleScan_error {s : Space} {u : Sub} {t : Table} {k : Nat} {cs : List Nat} {e : Err}
    (h : sampleScan s u t k cs = .error e) : ∃ why, e = .badChoice why := by
  induction k generalizing cs with
  | zero =>
    cases cs with
    | nil => simp [sampleScan] at h
    | cons c cs => simp only [sampleScan] at h; injection h with h; exact ⟨_, h.symm⟩
  | succ k ih =>
    cases cs with
    | nil => simp only [sampleScan] at h; injection h with h; exact ⟨_, h.symm⟩
    | cons c cs =>
      simp only [sampleScan] at h
      split at h
      · injection h with h; exact ⟨_, h.symm⟩
      · split at h
        · exact ih h
        · split at h
          · cases h
          · injection h with h; exact ⟨_, h.symm⟩

theorem sampleBlock_error {req : Req} {now pick : Nat} {smp : List Nat} {db : Db} {e : Err}
    (hs : req.space ∈ Space.all)
    (h : sampleBlock req now pick smp db = .error e) : ∃ why, e = .badChoice why := by
  unfold sampleBlock at h
  simp only [] at h
  split at h
  · split at h
    · cases h
    · injection h with h; exact ⟨_, h.symm⟩
  · split at h
    · next e' hsc => injection h with h; subst h; exact sampleScan_error hsc
    · cases h
    · next id hsc =>
      split at h
      · cases h
      · next e' he =>
        exfalso
        obtain ⟨hm, _⟩ := sampleScan_some hsc
        obtain ⟨db', hok⟩ := setId_ok_of_inSpace hs (inSpace_of_member (member_of_containsInSub hs hm)) db req.desc now
        rw [hok] at he; cases he

theorem cleanup_error {db : Db} {s : Space} {u : Sub} {m : Nat} {removed : List Nat} {e : Err}
    (h : Tup.cleanup db s u m removed = .error e) : ∃ why, e = .badChoice why := by
  unfold Tup.cleanup at h
  simp only [] at h
  split at h
  · cases h
  · injection h with h; exact ⟨_, h.symm⟩

theorem cleanupUploads_error {db : Db} {n : Nat} {kept : List (Nat × String)} {e : Err}
    (h : Tup.cleanupUploads db n kept = .error e) : ∃ why, e = .badChoice why := by
  unfold Tup.cleanupUploads at h
  split at h
  · cases h
  · injection h with h; exact ⟨_, h.symm⟩

theorem markUploaded_error {db : Db} {id size time : Nat} {term : String} {e : Err}
    (h : markUploaded db id term size time = .error e) : e = .valueError ∧ fromId id = none := by
  unfold markUploaded at h
  split at h
  · next e' he => injection h with h; subst h; exact getInfo_error he
  · cases h
  · cases h

/-- **No step fails on an invariant database except for an inadmissible choice or a bad id argument.** -/
theorem pstep_error {cfg : Cfg} {p : PState} {db : Db} {e : Err} (hinv : DbInv db)
    (h : pstep cfg p db = .error e) :
    (∃ why, e = .badChoice why) ∨ (e = .valueError ∧ ∃ id, p.idArg = some id ∧ fromId id = none) := by
  cases hwf : p.wf cfg with
  | false => rw [pstep_not_wf db hwf] at h; cases h
  | true =>
    unfold pstep pstepG at h
    simp only [hwf, Bool.not_true, Bool.false_eq_true, ↓reduceIte] at h
    cases p with
    | getLookup req now ch =>
      obtain ⟨hs, hu⟩ := wf_getLookup hwf
      simp only [] at h
      split at h
      · next e' he => injection h with h; subst h; exact Or.inl (lookupBlock_error hinv ((valid_iff_mem_all _).1 hs) hu he)
      · cases h
      · cases h
    | getSample req now pick fs ss rs acc =>
      obtain ⟨hs, hu, _⟩ := wf_getSample hwf
      cases fs with
      | nil => simp only [] at h; cases h
      | cons f fs =>
        simp only [] at h
        split at h
        · next e' he => injection h with h; subst h; exact Or.inl (sampleBlock_error ((valid_iff_mem_all _).1 hs) he)
        · split at h
          · cases h
          · injection h with h; exact Or.inl ⟨_, h.symm⟩
        · cases h
        · split at h <;> cases h
    | getCleanup req now pick pq fs ss rs acc =>
      simp only [] at h
      split at h
      · next e' he => injection h with h; subst h; exact Or.inl (cleanup_error he)
      · cases h
    | set id d now =>
      simp only [] at h
      split at h
      · next e' he => injection h with h; subst h; exact Or.inr ⟨(setId_error he).1, id, rfl, (setId_error he).2⟩
      · cases h
    | del id =>
      simp only [] at h
      split at h
      · next e' he =>
        injection h with h; subst h
        unfold delId at he
        split at he
        · next hn => injection he with he; exact Or.inr ⟨he.symm, id, rfl, hn⟩
        · cases he
      · cases h
    | cleanup s u m removed =>
      simp only [] at h
      split at h
      · next e' he => injection h with h; subst h; exact Or.inl (cleanup_error he)
      · cases h
    | mark id term size time =>
      simp only [] at h
      split at h
      · next e' he => injection h with h; subst h; exact Or.inr ⟨(markUploaded_error he).1, id, rfl, (markUploaded_error he).2⟩
      · cases h
    | cleanupUploads n kept =>
      simp only [] at h
      split at h
      · next e' he => injection h with h; subst h; exact Or.inl (cleanupUploads_error he)
      · cases h
    | needsInfo id term thr now =>
      simp only [] at h
      split at h
      · next e' he => injection h with h; subst h; exact Or.inr ⟨(getInfo_error he).1, id, rfl, (getInfo_error he).2⟩
      · cases h
      · cases h
    | needsRow id term thr now desc => simp only [] at h; split at h <;> cases h
    | needsAgo id term thr now desc r => simp only [] at h; cases h
    | needs id term thr now =>
      simp only [] at h
      split at h
      · next e' he =>
        injection h with h; subst h
        have := needsUploading_error he
        exact Or.inr ⟨this.1, id, rfl, this.2⟩
      · cases h
    | uinfo id term => simp only [] at h; cases h
    | info id =>
      simp only [] at h
      split at h
      · next e' he => injection h with h; subst h; exact Or.inr ⟨(getInfo_error he).1, id, rfl, (getInfo_error he).2⟩
      · cases h
    | count todo u acc =>
      match todo with
      | [] => simp only [] at h; cases h
      | [s] => simp only [] at h; cases h
      | s :: s' :: todo => simp only [] at h; cases h
    | finished r => simp only [] at h; cases h

/-! ## what a `get_id` block that returns an id did to that id's row -/

theorem hasId_false_lookup {t : Table} {id : Nat} (h : t.hasId id = false) : t.lookup id = none := by
  rw [lookup_eq_none]
  intro r hr hid
  unfold Table.hasId at h
  rw [List.any_eq_false] at h
  exact h r hr (by simp [hid])

/-- A `get_id` block that finishes with id `n`:
    * outcome `fresh` / `sampled`: `n` was bound to nothing in the space's table at that moment;
    * outcome `hit` / `foundLate`: `n` was already bound to the requested description;
    * outcome `recycled v`: the subspace is enumerable and was full (`count ≥ size`, or no enumerated id is
      free), and `v`, the row overwritten, was a least recently used row of the subspace. -/
theorem get_step_binding {cfg : Cfg} {req : Req} {now : Nat} {p : PState} {db db' : Db} {n : Nat} {out : Outcome}
    (hg : IsGet req now p) (hp : pstep cfg p db = .ok (.finished (.got (.id n) out), db')) :
    match out with
    | .fresh => (db.ids req.space).lookup n = none
    | .sampled _ => (db.ids req.space).lookup n = none
    | .hit => ∃ r ∈ db.ids req.space, r.id = n ∧ r.desc = req.desc ∧ req.space.sqlFilter req.sub n = true
    | .foundLate _ => ∃ r ∈ db.ids req.space, r.id = n ∧ r.desc = req.desc ∧ req.space.sqlFilter req.sub n = true
    | .recycled v =>
      v ∈ (db.ids req.space).inSub req.space req.sub ∧ v.id = n ∧
      (oldestIds ((db.ids req.space).inSub req.space req.sub)).contains n = true ∧
      (req.space.subspaceSize req.sub ≤ ((db.ids req.space).inSub req.space req.sub).length ∨
        ∀ i ∈ req.space.allIds req.sub, ∃ r ∈ (db.ids req.space).inSub req.space req.sub, r.id = i)
    | .exhausted _ => False := by
  have hc := pstep_cases hp
  generalize effOp cfg p db = o at hc
  generalize hq : PState.finished (.got (.id n) out) = q at hc
  cases hc with
  | invalid hwf => cases hq
  | lookupDone hwf hl =>
    obtain ⟨rfl, rfl⟩ := hg
    obtain ⟨hs, hu⟩ := wf_getLookup hwf
    have hsa := (valid_iff_mem_all _).1 hs
    injection hq with hq; injection hq with hq1 hq2; injection hq1 with hq1; subst hq1 hq2
    cases lookupBlock_spec hl with
    | hit r hr hd hf hid hdb => exact ⟨r, hr, hid, hd, hid ▸ hf⟩
    | recycled v hmiss henum hv hid hold hwhy hset =>
      refine ⟨hv, hid, hold, ?_⟩
      rcases hwhy with h1 | h2
      · exact Or.inl h1
      · right
        intro i hi
        rw [List.filter_eq_nil_iff] at h2
        have := h2 i hi
        simp only [Bool.not_eq_true, Bool.not_eq_false', List.any_eq_true, beq_iff_eq] at this
        exact this
    | fresh hmiss henum hcount hall hfree hset =>
      rw [lookup_eq_none]
      intro r hr hid
      have hm := (mem_allIds_iff_member hsa hu _).1 hall
      have hf := (sqlFilter_iff_member hu (inSpace_of_member hm)).2 hm
      exact hfree r (mem_inSub.2 ⟨hr, hid ▸ hf⟩) hid
  | lookupMiss hwf hmiss henum => cases hq
  | sampleNil hwf => cases hq
  | sampleInserted hwf hmiss hsb hmem hfree hset hleft =>
    obtain ⟨rfl, rfl⟩ := hg
    injection hq with hq; injection hq with hq1 hq2; injection hq1 with hq1; subst hq1 hq2
    exact hasId_false_lookup hfree
  | sampleFound hwf hne hany =>
    obtain ⟨rfl, rfl⟩ := hg
    injection hq with hq; injection hq with hq1 hq2; injection hq1 with hq1; subst hq1 hq2
    obtain ⟨r, hr, hid⟩ := List.any_eq_true.1 hany
    unfold Table.byDesc at hr
    obtain ⟨hr, hpp⟩ := List.mem_filter.1 hr
    simp only [Bool.and_eq_true, beq_iff_eq] at hpp hid
    exact ⟨r, hr, hid, hpp.1, hid ▸ hpp.2⟩
  | sampleExhausted hwf hmiss hsb => cases hq
  | sampleNone hwf hmiss hsb => cases hq
  | cleanupInt hwf hc => cases hq
  | set hc => cases hg
  | del hc => cases hg
  | cleanup hwf hc => cases hg
  | mark hc => cases hg
  | cleanupUploads hc => cases hg
  | read hp1 hp2 => cases p <;> simp [isRead] at hp1 <;> cases hg

end Tup.TxnLemmas
