import Tup.Lemmas.IdSpace
/-! Helper lemmas for C10: `all_ids` (membership, no duplicates, length) and `subspace_size`.
    Core Lean only. -/
namespace Tup.IdLemmas
open Tup

/-! ## generic list helpers -/

theorem nodup_flatMap_key {α β} {l : List α} {f : α → List β} (key : β → α) (hl : l.Nodup)
    (hf : ∀ a ∈ l, (f a).Nodup) (hkey : ∀ a ∈ l, ∀ y ∈ f a, key y = a) : (l.flatMap f).Nodup := by
  unfold List.Nodup at *
  rw [List.pairwise_flatMap]
  refine ⟨hf, hl.imp_of_mem ?_⟩
  intro a b ha hb hab x hx y hy hxy
  apply hab
  rw [← hkey a ha x hx, ← hkey b hb y hy, hxy]

theorem nodup_map_key {α β} {l : List α} {f : α → β} (key : β → α) (hl : l.Nodup)
    (hkey : ∀ a ∈ l, key (f a) = a) : (l.map f).Nodup := by
  unfold List.Nodup at *
  rw [List.pairwise_map]
  refine hl.imp_of_mem ?_
  intro a b ha hb hab hxy
  apply hab
  rw [← hkey a ha, ← hkey b hb, hxy]

theorem length_flatMap_const {α β} (l : List α) (f : α → List β) (n : Nat)
    (h : ∀ a ∈ l, (f a).length = n) : (l.flatMap f).length = l.length * n := by
  induction l with
  | nil => simp
  | cons a l ih =>
    rw [List.flatMap_cons, List.length_append, h a (by simp), ih (fun b hb => h b (by simp [hb])),
      List.length_cons, Nat.succ_mul, Nat.add_comm]

/-! ## the three-level enumeration -/

/-- the shape of `all_ids`: `(b3 << 24) | (b12 << 8) | b0` over three lists -/
def pack3 (l3 l12 l0 : List Nat) : List Nat :=
  l3.flatMap fun b3 => l12.flatMap fun b12 => l0.map fun b0 => (b3 <<< 24) ||| (b12 <<< 8) ||| b0

theorem mem_pack3 (l3 l12 l0 : List Nat) (h12 : ∀ x ∈ l12, x < 65536) (h0 : ∀ x ∈ l0, x < 256)
    (id : Nat) :
    id ∈ pack3 l3 l12 l0 ↔ (id / 16777216 ∈ l3 ∧ id / 256 % 65536 ∈ l12 ∧ id % 256 ∈ l0) := by
  simp only [pack3, List.mem_flatMap, List.mem_map]
  constructor
  · rintro ⟨b3, m3, b12, m12, b0, m0, rfl⟩
    have a := h12 _ m12
    have b := h0 _ m0
    rw [or3 _ _ _ a b]
    have e3 : (b3 * 16777216 + b12 * 256 + b0) / 16777216 = b3 := by omega
    have e12 : (b3 * 16777216 + b12 * 256 + b0) / 256 % 65536 = b12 := by omega
    have e0 : (b3 * 16777216 + b12 * 256 + b0) % 256 = b0 := by omega
    rw [e3, e12, e0]; exact ⟨m3, m12, m0⟩
  · rintro ⟨m3, m12, m0⟩
    refine ⟨_, m3, _, m12, _, m0, ?_⟩
    rw [or3 _ _ _ (h12 _ m12) (h0 _ m0)]
    have := chain id
    omega

theorem nodup_pack3 (l3 l12 l0 : List Nat) (h12 : ∀ x ∈ l12, x < 65536) (h0 : ∀ x ∈ l0, x < 256)
    (n3 : l3.Nodup) (n12 : l12.Nodup) (n0 : l0.Nodup) : (pack3 l3 l12 l0).Nodup := by
  unfold pack3
  refine nodup_flatMap_key (fun id => id / 16777216) n3 ?_ ?_
  · intro b3 _
    refine nodup_flatMap_key (fun id => id / 256 % 65536) n12 ?_ ?_
    · intro b12 m12
      refine nodup_map_key (fun id => id % 256) n0 ?_
      intro b0 m0
      have a := h12 _ m12
      have b := h0 _ m0
      simp only [or3 _ _ _ a b]; omega
    · intro b12 m12 y hy
      obtain ⟨b0, m0, rfl⟩ := List.mem_map.1 hy
      have a := h12 _ m12
      have b := h0 _ m0
      simp only [or3 _ _ _ a b]; omega
  · intro b3 _ y hy
    obtain ⟨b12, m12, hy⟩ := List.mem_flatMap.1 hy
    obtain ⟨b0, m0, rfl⟩ := List.mem_map.1 hy
    have a := h12 _ m12
    have b := h0 _ m0
    simp only [or3 _ _ _ a b]; omega

theorem length_pack3 (l3 l12 l0 : List Nat) :
    (pack3 l3 l12 l0).length = l3.length * l12.length * l0.length := by
  unfold pack3
  rw [length_flatMap_const _ _ (l12.length * l0.length), Nat.mul_assoc]
  intro b3 _
  rw [length_flatMap_const _ _ l0.length]
  intro b12 _
  simp


/-! ## the byte lists of a subspace -/

theorem mem_allBytes (u : Sub) (x : Nat) : x ∈ u.allBytes ↔ (u.b ≤ x ∧ x < u.e) := by
  simp only [Sub.allBytes, List.mem_range'_1]; omega

theorem mem_allNonzeroBytes (u : Sub) (x : Nat) :
    x ∈ u.allNonzeroBytes ↔ (1 ≤ x ∧ u.b ≤ x ∧ x < u.e) := by
  unfold Sub.allNonzeroBytes
  split <;> simp only [List.mem_range'_1] <;> omega

theorem nodup_allBytes (u : Sub) : u.allBytes.Nodup := List.nodup_range' 1
theorem nodup_allNonzeroBytes (u : Sub) : u.allNonzeroBytes.Nodup := by
  unfold Sub.allNonzeroBytes; split <;> exact List.nodup_range' 1

theorem length_allBytes (u : Sub) : u.allBytes.length = u.numByteValues := by
  simp [Sub.allBytes, Sub.numByteValues]
theorem length_allNonzeroBytes (u : Sub) : u.allNonzeroBytes.length = u.numNonzeroByteValues := by
  unfold Sub.allNonzeroBytes Sub.numNonzeroByteValues; split <;> simp

/-! ## the middle bytes of the 24-bit space: `(b2 << 8) | b1`, not both zero -/

def mid24f (u : Sub) : List Nat :=
  u.allBytes.flatMap fun b2 =>
    (List.range' (if b2 = 0 then 1 else 0) (if b2 = 0 then 255 else 256)).map fun b1 => (b2 <<< 8) ||| b1

theorem mem_mid24f (u : Sub) (x : Nat) :
    x ∈ mid24f u ↔ (u.b ≤ x / 256 ∧ x / 256 < u.e ∧ x ≠ 0) := by
  simp only [mid24f, List.mem_flatMap, List.mem_map, mem_allBytes, List.mem_range'_1]
  constructor
  · rintro ⟨b2, hb2, b1, hb1, rfl⟩
    have h1 : b1 < 256 := by split at hb1 <;> omega
    rw [or2 _ _ h1]
    have e2 : (b2 * 256 + b1) / 256 = b2 := by omega
    rw [e2]
    refine ⟨hb2.1, hb2.2, ?_⟩
    split at hb1 <;> omega
  · rintro ⟨h1, h2, h3⟩
    refine ⟨x / 256, ⟨h1, h2⟩, x % 256, ?_, ?_⟩
    · split <;> omega
    · rw [or2 _ _ (by omega)]; omega

theorem nodup_mid24f (u : Sub) : (mid24f u).Nodup := by
  unfold mid24f
  refine nodup_flatMap_key (fun x => x / 256) (nodup_allBytes u) ?_ ?_
  · intro b2 _
    refine nodup_map_key (fun x => x % 256) (List.nodup_range' 1) ?_
    intro b1 hb1
    have h1 : b1 < 256 := by rw [List.mem_range'_1] at hb1; split at hb1 <;> omega
    simp only [or2 _ _ h1]; omega
  · intro b2 _ y hy
    obtain ⟨b1, hb1, rfl⟩ := List.mem_map.1 hy
    have h1 : b1 < 256 := by rw [List.mem_range'_1] at hb1; split at hb1 <;> omega
    simp only [or2 _ _ h1]; omega

theorem length_mid24f (u : Sub) (hu : u.b < u.e) :
    (mid24f u).length = (if u.b ≤ 0 then u.numByteValues * 256 - 1 else u.numByteValues * 256) := by
  unfold mid24f
  have hconst : ∀ (l : List Nat), (∀ a ∈ l, a ≠ 0) →
      (l.flatMap fun b2 => (List.range' (if b2 = 0 then 1 else 0) (if b2 = 0 then 255 else 256)).map
        fun b1 => (b2 <<< 8) ||| b1).length = l.length * 256 := by
    intro l hl
    apply length_flatMap_const
    intro a ha
    simp [hl a ha]
  split
  · rename_i hb
    have hb0 : u.b = 0 := by omega
    have : u.allBytes = 0 :: List.range' 1 (u.e - 1) := by
      unfold Sub.allBytes
      obtain ⟨e', he⟩ : ∃ e', u.e = e' + 1 := ⟨u.e - 1, by omega⟩
      rw [hb0, he]; simp [List.range'_succ]
    rw [this, List.flatMap_cons, List.length_append, hconst]
    · simp [Sub.numByteValues, hb0]; omega
    · intro a ha; rw [List.mem_range'_1] at ha; omega
  · rename_i hb
    rw [hconst, length_allBytes]
    intro a ha; rw [mem_allBytes] at ha; omega

/-! ## `all_ids` as `pack3` -/

def byte3 (s : Space) (u : Sub) : List Nat := if s.use3rd then u.allNonzeroBytes else [0]
def byte0 (s : Space) (u : Sub) : List Nat :=
  if s.use3rd then (if s.colorBits = 8 then List.range' 1 255 else if s.colorBits = 24 then List.range' 0 256 else [0])
  else (if s.colorBits = 8 then u.allNonzeroBytes else if s.colorBits = 24 then List.range' 0 256 else [0])
def byte12 (s : Space) (u : Sub) : List Nat :=
  if s.use3rd then (if s.colorBits = 24 then List.range' 1 (256 * 256 - 1) else [0])
  else (if s.colorBits = 24 then mid24f u else [0])

theorem allIds_eq (s : Space) (u : Sub) : s.allIds u = pack3 (byte3 s u) (byte12 s u) (byte0 s u) := rfl


theorem byte12_lt (s : Space) (u : Sub) (hu : u.e ≤ 256) : ∀ x ∈ byte12 s u, x < 65536 := by
  intro x hx
  unfold byte12 at hx
  split at hx <;> split at hx
  · rw [List.mem_range'_1] at hx; omega
  · simp at hx; omega
  · rw [mem_mid24f] at hx; omega
  · simp at hx; omega

theorem byte0_lt (s : Space) (u : Sub) (hu : u.e ≤ 256) : ∀ x ∈ byte0 s u, x < 256 := by
  intro x hx
  unfold byte0 at hx
  split at hx <;> split at hx <;> (try split at hx) <;>
    first
      | (rw [List.mem_range'_1] at hx; omega)
      | (rw [mem_allNonzeroBytes] at hx; omega)
      | (simp at hx; omega)

/-- (L3) `all_ids` enumerates exactly the members the specification names. -/
theorem mem_allIds_iff_member {s : Space} (hs : s ∈ Space.all) {u : Sub} (hu : u.valid = true)
    (id : Nat) : id ∈ s.allIds u ↔ Spec.member s u id = true := by
  have hv := (Sub.valid_iff u).1 hu
  rw [allIds_eq, mem_pack3 _ _ _ (byte12_lt s u hv.2.1) (byte0_lt s u hv.2.1), member_iff]
  have hc := chain id
  rcases mem_all_cases hs with rfl | rfl | rfl | rfl | rfl
  · rw [inSpace_0t]
    simp [byte3, byte12, byte0, mem_allNonzeroBytes]; omega
  · rw [inSpace_8t]
    simp [byte3, byte12, byte0, mem_allNonzeroBytes, List.mem_range'_1]; omega
  · rw [inSpace_24t]
    simp [byte3, byte12, byte0, mem_allNonzeroBytes, List.mem_range'_1]; omega
  · rw [inSpace_8f]
    simp [byte3, byte12, byte0, mem_allNonzeroBytes]; omega
  · rw [inSpace_24f]
    simp [byte3, byte12, byte0, mem_mid24f, List.mem_range'_1]; omega

/-- (L6) `all_ids` never yields an id twice (no validity assumption on the subspace is needed
    beyond `end ≤ 256`). -/
theorem allIds_nodup (s : Space) {u : Sub} (hu : u.e ≤ 256) : (s.allIds u).Nodup := by
  rw [allIds_eq]
  refine nodup_pack3 _ _ _ (byte12_lt s u hu) (byte0_lt s u hu) ?_ ?_ ?_
  · unfold byte3; split
    · exact nodup_allNonzeroBytes u
    · simp
  · unfold byte12; split <;> split
    · exact List.nodup_range' 1
    · simp
    · exact nodup_mid24f u
    · simp
  · unfold byte0; split <;> split <;> (try split) <;>
      first
        | exact List.nodup_range' 1
        | exact nodup_allNonzeroBytes u
        | simp

/-- (L6) `subspace_size` is the length of `all_ids`. -/
theorem allIds_length {s : Space} (hs : s ∈ Space.all) {u : Sub} (hu : u.valid = true) :
    (s.allIds u).length = s.subspaceSize u := by
  have hv := (Sub.valid_iff u).1 hu
  rw [allIds_eq, length_pack3]
  rcases mem_all_cases hs with rfl | rfl | rfl | rfl | rfl
  · simp [byte3, byte12, byte0, Space.subspaceSize, length_allNonzeroBytes]
  · simp [byte3, byte12, byte0, Space.subspaceSize, length_allNonzeroBytes]
  · simp [byte3, byte12, byte0, Space.subspaceSize, length_allNonzeroBytes]
  · simp [byte3, byte12, byte0, Space.subspaceSize, length_allNonzeroBytes]
  · simp [byte3, byte12, byte0, Space.subspaceSize, length_mid24f u hv.1]

/-- every subspace with a non-zero byte value is non-empty in every space -/
theorem subspaceSize_pos_of_nnz {s : Space} (hs : s ∈ Space.all) {u : Sub}
    (hn : 1 ≤ u.numNonzeroByteValues) : 1 ≤ s.subspaceSize u := by
  have h2 : u.numNonzeroByteValues ≤ u.numByteValues := by
    unfold Sub.numNonzeroByteValues Sub.numByteValues; split <;> omega
  rcases mem_all_cases hs with rfl | rfl | rfl | rfl | rfl <;>
    simp [Space.subspaceSize] <;> (try split) <;> omega

theorem subspaceSize_pos {s : Space} (hs : s ∈ Space.all) {u : Sub} (hu : u.valid = true) :
    1 ≤ s.subspaceSize u := subspaceSize_pos_of_nnz hs (valid_nnz_pos u hu)

end Tup.IdLemmas
