import Tup.Model.UploadInfo
import Tup.Spec.AllocStep
import Tup.Lemmas.Db
import Tup.Lemmas.IdSpace
import Tup.Lemmas.IdSpaceEnum
/-!
  Helper lemmas for C01 / C02: preservation of `DbInv`, and a case characterisation of every block
  of `getId` (`lookupBlock_spec`, `sampleBlock_spec`, `sampleRounds_spec`). Core Lean only.
-/
namespace Tup.AllocLemmas
open Tup Tup.DbLemmas Tup.IdLemmas Tup.Spec.AllocStep

/-! ## `DbInv` -/

theorem inv_empty : DbInv Db.empty where
  keys := fun s _ => by rw [ids_empty]; exact keysNodup_nil
  space := fun s _ r hr => by rw [ids_empty] at hr; cases hr
  ukeys := List.nodup_nil

theorem inv_setIds {db : Db} (hinv : DbInv db) {s : Space} (hs : s ∈ Space.all) {t : Table}
    (hk : t.KeysNodup) (hsp : ∀ r ∈ t, Spec.inSpace s r.id = true) : DbInv (db.setIds s t) where
  keys := fun s' hs' => by
    rw [ids_setIds db t hs hs']; split
    · exact hk
    · exact hinv.keys s' hs'
  space := fun s' hs' r hr => by
    rw [ids_setIds db t hs hs'] at hr; split at hr
    · next h => subst h; exact hsp r hr
    · exact hinv.space s' hs' r hr
  ukeys := by rw [uploads_setIds]; exact hinv.ukeys

theorem setId_ok {db db' : Db} {id now : Nat} {d : String} (h : setId db id d now = .ok db') :
    ∃ s, fromId id = some s ∧ db' = db.setIds s ((db.ids s).upsert ⟨id, d, now⟩) := by
  unfold setId at h
  split at h
  · cases h
  · next s hs => injection h with h; exact ⟨s, hs, h.symm⟩

theorem inv_setId {db db' : Db} (hinv : DbInv db) {id now : Nat} {d : String}
    (h : setId db id d now = .ok db') : DbInv db' := by
  obtain ⟨s, hs, rfl⟩ := setId_ok h
  have hsa := fromId_mem_all hs
  refine inv_setIds hinv hsa (keysNodup_upsert _ (hinv.keys s hsa)) ?_
  intro r hr
  rcases mem_upsert hr with rfl | hr
  · exact ((fromId_spec id s).1 hs).2
  · exact hinv.space s hsa r hr

theorem inv_setAtime {db : Db} (hinv : DbInv db) {s : Space} (hs : s ∈ Space.all) (id now : Nat) :
    DbInv (db.setIds s ((db.ids s).setAtime id now)) := by
  refine inv_setIds hinv hs (keysNodup_setAtime _ _ (hinv.keys s hs)) ?_
  intro r hr
  obtain ⟨y, hy, hid, _⟩ := mem_setAtime hr
  rw [← hid]; exact hinv.space s hs y hy

theorem inv_filter {db : Db} (hinv : DbInv db) {s : Space} (hs : s ∈ Space.all) (p : Row → Bool) :
    DbInv (db.setIds s ((db.ids s).filter p)) :=
  inv_setIds hinv hs (keysNodup_filter p (hinv.keys s hs))
    (fun r hr => hinv.space s hs r (List.mem_filter.1 hr).1)

/-! ## the blocks of `getId` -/

/-- What the first block of `get_id` can do. -/
inductive LookupCase (cfg : Cfg) (req : Req) (now pick : Nat) (db db' : Db) : BlockA → Prop
  | hit (r : Row) (hr : r ∈ db.ids req.space) (hd : r.desc = req.desc)
      (hf : req.space.sqlFilter req.sub r.id = true) (hid : r.id = pick)
      (hdb : db' = db.setIds req.space ((db.ids req.space).setAtime pick now)) :
      LookupCase cfg req now pick db db' (.done pick .hit)
  | recycled (v : Row) (hmiss : (db.ids req.space).byDesc req.space req.sub req.desc = [])
      (henum : isEnumerable cfg req.space req.sub = true)
      (hv : v ∈ (db.ids req.space).inSub req.space req.sub) (hid : v.id = pick)
      (hold : (oldestIds ((db.ids req.space).inSub req.space req.sub)).contains pick = true)
      (hwhy : req.space.subspaceSize req.sub ≤ ((db.ids req.space).inSub req.space req.sub).length ∨
        (req.space.allIds req.sub).filter
          (fun i => !((db.ids req.space).inSub req.space req.sub).any (fun r => r.id == i)) = [])
      (hset : setId db pick req.desc now = .ok db') :
      LookupCase cfg req now pick db db' (.done pick (.recycled v))
  | fresh (hmiss : (db.ids req.space).byDesc req.space req.sub req.desc = [])
      (henum : isEnumerable cfg req.space req.sub = true)
      (hcount : ((db.ids req.space).inSub req.space req.sub).length < req.space.subspaceSize req.sub)
      (hall : pick ∈ req.space.allIds req.sub)
      (hfree : ∀ r ∈ (db.ids req.space).inSub req.space req.sub, r.id ≠ pick)
      (hset : setId db pick req.desc now = .ok db') :
      LookupCase cfg req now pick db db' (.done pick .fresh)
  | miss (hmiss : (db.ids req.space).byDesc req.space req.sub req.desc = [])
      (henum : isEnumerable cfg req.space req.sub = false) (hdb : db' = db) :
      LookupCase cfg req now pick db db' .miss

theorem find?_id_some {l : List Row} {pick : Nat} {v : Row} (h : l.find? (fun r => r.id == pick) = some v) :
    v ∈ l ∧ v.id = pick :=
  ⟨List.mem_of_find?_eq_some h, by simpa using List.find?_some h⟩

theorem lookupBlock_spec {cfg : Cfg} {req : Req} {now pick : Nat} {db db' : Db} {b : BlockA}
    (h : lookupBlock cfg req now pick db = .ok (db', b)) : LookupCase cfg req now pick db db' b := by
  unfold lookupBlock at h
  simp only [] at h
  split at h
  · -- hit
    split at h
    · next hne hany =>
      injection h with h; injection h with h1 h2; subst h1 h2
      obtain ⟨r, hr, hid⟩ := List.any_eq_true.1 hany
      unfold Table.byDesc at hr
      obtain ⟨hr, hp⟩ := List.mem_filter.1 hr
      simp only [Bool.and_eq_true, beq_iff_eq] at hp hid
      exact .hit r hr hp.1 hp.2 hid rfl
    · cases h
  · next hne =>
    have hmiss : (db.ids req.space).byDesc req.space req.sub req.desc = [] := by
      simpa using hne
    split at h
    · next henum =>
      split at h
      · -- full
        next hge =>
        split at h
        · next v hv =>
          obtain ⟨hvm, hvid⟩ := find?_id_some hv
          split at h
          · next hold =>
            split at h
            · next db'' hset =>
              injection h with h; injection h with h1 h2; subst h1 h2
              exact .recycled v hmiss henum hvm hvid hold (Or.inl hge) hset
            · cases h
          · cases h
        · cases h
      · next hcount =>
        split at h
        · cases h
        · split at h
          · -- free id
            split at h
            · next hfree hpick =>
              split at h
              · next db'' hset =>
                injection h with h; injection h with h1 h2; subst h1 h2
                have hp := List.mem_filter.1 (List.contains_iff_mem.1 hpick)
                refine .fresh hmiss henum (by omega) hp.1 ?_ hset
                intro r hr hid
                have := hp.2
                simp only [Bool.not_eq_true', List.any_eq_false, beq_iff_eq] at this
                exact this r hr hid
              · cases h
            · cases h
          · -- loop-oldest
            next hnf =>
            split at h
            · next v hv =>
              obtain ⟨hvm, hvid⟩ := find?_id_some hv
              split at h
              · next hold =>
                split at h
                · next db'' hset =>
                  injection h with h; injection h with h1 h2; subst h1 h2
                  exact .recycled v hmiss henum hvm hvid hold (Or.inr (by simpa using hnf)) hset
                · cases h
              · cases h
            · cases h
    · next henum =>
      injection h with h; injection h with h1 h2; subst h1 h2
      exact .miss hmiss (by simpa using henum) rfl

theorem sampleScan_some {s : Space} {u : Sub} {t : Table} {k : Nat} {cs : List Nat} {c : Nat}
    (h : sampleScan s u t k cs = .ok (some c)) : s.containsInSub c u = some true ∧ t.hasId c = false := by
  induction k generalizing cs with
  | zero => cases cs <;> simp [sampleScan] at h
  | succ k ih =>
    cases cs with
    | nil => simp [sampleScan] at h
    | cons x xs =>
      simp only [sampleScan] at h
      split at h
      · cases h
      · next hm =>
        split at h
        · exact ih h
        · next hfree =>
          split at h
          · injection h with h; injection h with h; subst h
            exact ⟨by simpa using hm, by simpa using hfree⟩
          · cases h

theorem byDesc_eraseAll_nil {t : Table} {s : Space} {u : Sub} {d : String} (ids : List Nat)
    (h : t.byDesc s u d = []) : (t.eraseAll ids).byDesc s u d = [] := by
  unfold Table.byDesc Table.eraseAll at *
  rw [List.filter_eq_nil_iff] at h ⊢
  intro r hr
  exact h r (List.mem_filter.1 hr).1

/-- run after a lookup that missed, a sampling block never finds the description: it either gives
    up (nothing changed) or binds a free member id -/
theorem sampleBlock_spec {req : Req} {now pick : Nat} {smp : List Nat} {db db' : Db} {r : SampleRes}
    (hmiss : (db.ids req.space).byDesc req.space req.sub req.desc = [])
    (h : sampleBlock req now pick smp db = .ok (db', r)) :
    (r = .none ∧ db' = db) ∨
    (∃ id, r = .inserted id ∧ req.space.containsInSub id req.sub = some true ∧
      (db.ids req.space).hasId id = false ∧ setId db id req.desc now = .ok db') := by
  unfold sampleBlock at h
  simp only [hmiss, List.isEmpty_nil, Bool.not_true, Bool.false_eq_true, ↓reduceIte] at h
  split at h
  · cases h
  · injection h with h; injection h with h1 h2; exact Or.inl ⟨h2.symm, h1.symm⟩
  · next id hscan =>
    split at h
    · next db'' hset =>
      injection h with h; injection h with h1 h2; subst h1 h2
      obtain ⟨hm, hf⟩ := sampleScan_some hscan
      exact Or.inr ⟨id, rfl, hm, hf, hset⟩
    · cases h

theorem cleanup_ok {db db' : Db} {s : Space} {u : Sub} {m : Nat} {removed : List Nat}
    (h : cleanup db s u m removed = .ok db') :
    admissibleRemoved ((db.ids s).inSub s u) (((db.ids s).inSub s u).length - m) removed = true ∧
    db' = db.setIds s ((db.ids s).eraseAll removed) := by
  unfold cleanup at h
  simp only [] at h
  split at h
  · next hadm => injection h with h; exact ⟨hadm, h.symm⟩
  · cases h

/-- `db'` arises from `db` by a sequence of (admissible) clean-ups of `(s, u)` -/
inductive Cleanups (s : Space) (u : Sub) : Db → Db → Prop
  | refl (db : Db) : Cleanups s u db db
  | step {db db1 db2 : Db} (m : Nat) (removed : List Nat) (h : cleanup db s u m removed = .ok db1)
      (rest : Cleanups s u db1 db2) : Cleanups s u db db2

theorem sampleRounds_spec {cfg : Cfg} {req : Req} {now pick : Nat} {fs : List (Option (Nat × Nat))}
    {ss rs : List (List Nat)} {db db' : Db} {acc acc' : List Nat} {r : SampleRes}
    (hmiss : (db.ids req.space).byDesc req.space req.sub req.desc = [])
    (h : sampleRounds cfg req now pick fs ss rs db acc = .ok (db', r, acc')) :
    ∃ db1, Cleanups req.space req.sub db db1 ∧
      ((r = .none ∧ db' = db1) ∨
       (∃ id, r = .inserted id ∧ req.space.containsInSub id req.sub = some true ∧
         (db1.ids req.space).hasId id = false ∧ setId db1 id req.desc now = .ok db')) := by
  induction fs generalizing ss rs db acc with
  | nil =>
    simp only [sampleRounds] at h
    injection h with h; injection h with h1 h2; injection h2 with h2 h3
    exact ⟨db, .refl db, Or.inl ⟨h2.symm, h1.symm⟩⟩
  | cons f fs ih =>
    simp only [sampleRounds] at h
    split at h
    · cases h
    · next dbb id hsb =>
      split at h
      · injection h with h; injection h with h1 h2; injection h2 with h2 h3; subst h1 h2
        rcases sampleBlock_spec hmiss hsb with ⟨hn, _⟩ | ⟨id', hid', hm, hf, hset⟩
        · cases hn
        · injection hid' with hid'; subst hid'
          exact ⟨db, .refl db, Or.inr ⟨id, rfl, hm, hf, hset⟩⟩
      · cases h
    · next dbb id hsb =>
      rcases sampleBlock_spec hmiss hsb with ⟨hn, _⟩ | ⟨id', hid', _⟩
      · cases hn
      · cases hid'
    · next dbb hsb =>
      rcases sampleBlock_spec hmiss hsb with ⟨_, hdb⟩ | ⟨id', hid', _⟩
      · subst hdb
        split at h
        · injection h with h; injection h with h1 h2; injection h2 with h2 h3
          exact ⟨dbb, .refl dbb, Or.inl ⟨h2.symm, h1.symm⟩⟩
        · next pq =>
          split at h
          · cases h
          · next db2 hcl =>
            have hmiss2 : (db2.ids req.space).byDesc req.space req.sub req.desc = [] := by
              obtain ⟨_, rfl⟩ := cleanup_ok hcl
              rw [ids_setIds_same]; exact byDesc_eraseAll_nil _ hmiss
            obtain ⟨db1, hcs, hres⟩ := ih hmiss2 h
            exact ⟨db1, .step _ _ hcl hcs, hres⟩
      · cases hid'

/-- What a whole `get_id` can do. -/
inductive GetCase (cfg : Cfg) (req : Req) (now : Nat) (ch : GetChoice) (db db' : Db) : GetRes → Outcome → Prop
  | block {id : Nat} {out : Outcome} (h : LookupCase cfg req now ch.pick db db' (.done id out)) :
      GetCase cfg req now ch db db' (.id id) out
  | sampled {id : Nat} {removed : List Nat} {db1 : Db}
      (hmiss : (db.ids req.space).byDesc req.space req.sub req.desc = [])
      (henum : isEnumerable cfg req.space req.sub = false)
      (hcl : Cleanups req.space req.sub db db1)
      (hmem : req.space.containsInSub id req.sub = some true)
      (hfree : (db1.ids req.space).hasId id = false)
      (hset : setId db1 id req.desc now = .ok db') :
      GetCase cfg req now ch db db' (.id id) (.sampled removed)
  | exhausted {removed : List Nat}
      (hmiss : (db.ids req.space).byDesc req.space req.sub req.desc = [])
      (henum : isEnumerable cfg req.space req.sub = false)
      (hcl : Cleanups req.space req.sub db db') :
      GetCase cfg req now ch db db' .noUnusedId (.exhausted removed)

theorem getId_spec {cfg : Cfg} {req : Req} {now : Nat} {ch : GetChoice} {db db' : Db} {res : GetRes}
    {out : Outcome} (h : getId cfg db req now ch = .ok (db', res, out)) :
    GetCase cfg req now ch db db' res out := by
  unfold getId at h
  split at h
  · cases h
  · next dbb id o hl =>
    injection h with h; injection h with h1 h2; injection h2 with h2 h3; subst h1 h2 h3
    exact .block (lookupBlock_spec hl)
  · next dbb hl =>
    cases lookupBlock_spec hl with
    | miss hmiss henum hdb =>
      subst hdb
      split at h
      · cases h
      · next db2 id removed hsr =>
        injection h with h; injection h with h1 h2; injection h2 with h2 h3; subst h1 h2 h3
        obtain ⟨db1, hcs, hres⟩ := sampleRounds_spec hmiss hsr
        rcases hres with ⟨hn, _⟩ | ⟨id', hid', hm, hf, hset⟩
        · cases hn
        · injection hid' with hid'; subst hid'
          exact .sampled hmiss henum hcs hm hf hset
      · next db2 id removed hsr =>
        obtain ⟨db1, hcs, hres⟩ := sampleRounds_spec hmiss hsr
        rcases hres with ⟨hn, _⟩ | ⟨id', hid', _⟩
        · cases hn
        · cases hid'
      · next db2 removed hsr =>
        injection h with h; injection h with h1 h2; injection h2 with h2 h3; subst h1 h2 h3
        obtain ⟨db1, hcs, hres⟩ := sampleRounds_spec hmiss hsr
        rcases hres with ⟨_, hdb⟩ | ⟨id', hid', _⟩
        · subst hdb; exact .exhausted hmiss henum hcs
        · cases hid'

/-- run alone, `get_id` never takes the `foundLate` exit of the repaired sampling block -/
theorem getId_not_foundLate {cfg : Cfg} {req : Req} {now : Nat} {ch : GetChoice} {db db' : Db} {res : GetRes}
    {removed : List Nat} : getId cfg db req now ch ≠ .ok (db', res, .foundLate removed) := by
  intro h
  cases getId_spec h with
  | block hb => cases hb

end Tup.AllocLemmas
