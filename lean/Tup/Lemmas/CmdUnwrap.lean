import Tup.Lemmas.CmdWrap
import Tup.Lemmas.CmdBasic
/-!
  `n` template layers around a command = `n` times one wrapper around the finished 0-layer
  escape code; hence `unwrapN n` recovers it.  Core Lean only.
-/
namespace Tup.Command
open Tup Tup.Spec.TmuxUnwrap

/-- the (n+1)-layer emission is one wrapper around the n-layer emission -/
theorem toBytes_template_succ (n : Nat) (c : GCmd) :
    toBytes (template (n + 1)) c = wrapLayer (toBytes (template n) c) := by
  have h := escDouble_of_no_esc _ (contentBytes_no_esc c)
  simp only [toBytes, template, wrapLayer, escDouble_append, h, List.append_assoc]

theorem unwrapN_succ_wrapLayer (n : Nat) (xs : Bytes) : unwrapN (n + 1) (wrapLayer xs) = unwrapN n xs := by
  simp [unwrapN, unwrap1_wrapLayer]

/-- C11 `unwrap_wrap` -/
theorem unwrapN_toBytes (n : Nat) (c : GCmd) : unwrapN n (toBytes (template n) c) = some (toBytes (template 0) c) := by
  induction n with
  | zero => rfl
  | succ k ih => rw [toBytes_template_succ, unwrapN_succ_wrapLayer, ih]

end Tup.Command
