import Tup.Model.Placeholder
import Tup.Spec.Decode
/-!
  The code's diacritic table (regenerated from /repo) is the pinned protocol table, and the
  table is invertible: decoding the i-th diacritic gives i.
-/
namespace Tup.Ph
open Tup Tup.Spec

theorem gen_table_eq_spec : Tup.Gen.diacritics = Tup.Spec.diacritics := by decide +kernel

theorem gen_placeholderChar_eq_spec : Tup.Gen.placeholderChar = Tup.Spec.placeholderChar := by decide

theorem spec_table_length : Spec.diacritics.length = 297 := by decide +kernel

theorem tableLen_eq : tableLen = 297 := by
  unfold tableLen; rw [gen_table_eq_spec]; exact spec_table_length

theorem spec_table_nodup : Spec.diacritics.Nodup := by decide +kernel

theorem diacCp_eq (i : Nat) (h : i < 297) : diacCp i = Spec.diacritics[i]'(by rw [spec_table_length]; exact h) := by
  unfold diacCp
  rw [gen_table_eq_spec]
  simp [List.getD, spec_table_length, h]

/-- table inverse -/
theorem diacIndex_diacCp (i : Nat) (h : i < 297) : Spec.diacIndex (diacCp i) = some i := by
  rw [diacCp_eq i h]
  unfold Spec.diacIndex
  have := spec_table_nodup.idxOf_getElem i (by rw [spec_table_length]; exact h)
  simp [this, spec_table_length, h]

theorem isCombining_diacCp (i : Nat) (h : i < 297) : Spec.isCombining (diacCp i) = true := by
  rw [diacCp_eq i h]
  unfold Spec.isCombining
  simp

theorem placeholder_not_combining : Spec.isCombining Spec.placeholderChar = false := by decide +kernel

theorem space_not_combining : Spec.isCombining 32 = false := by decide +kernel

theorem space_ne_placeholder : (32 : Nat) ≠ Spec.placeholderChar := by decide

end Tup.Ph
