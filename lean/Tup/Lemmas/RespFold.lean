import Tup.Lemmas.RespParse
/-!
  Lemmas for C19, part 3: folding the keys; splitting what the encoder joined.
-/
open Tup Tup.Response
open Tup.Spec.Response (Key Wf encodeKey joinComma keyOk sepFree selI selN selP selX valueOf keyName nodupB)

namespace Tup.RespLemmas

theorem dictSet_append (d : List (Bytes × Option Bytes)) (k : Bytes) (v : Option Bytes)
    (h : k ∉ d.map Prod.fst) : dictSet d k v = d ++ [(k, v)] := by
  induction d with
  | nil => rfl
  | cons a t ih =>
    obtain ⟨k', v'⟩ := a
    simp only [List.map_cons, List.mem_cons, not_or] at h
    have : k' ≠ k := fun e => h.1 e.symm
    simp [dictSet, this, ih h.2]

def pick (o : Option Nat) (d : Option Int) : Option Int :=
  match o with
  | some n => some (Int.ofNat n)
  | none => d

theorem foldl_applyKey (keys : List Key) (r : Resp)
    (hnd : nodupB (keys.filterMap keyName) = true)
    (hdis : ∀ nm ∈ keys.filterMap keyName, nm ∉ r.additional.map Prod.fst) :
    keys.foldl applyKey r =
      { r with imageId := pick (valueOf selI keys) r.imageId
               imageNumber := pick (valueOf selN keys) r.imageNumber
               placementId := pick (valueOf selP keys) r.placementId
               additional := r.additional ++ keys.filterMap selX } := by
  induction keys generalizing r with
  | nil => simp [valueOf, pick]
  | cons k ks ih =>
    simp only [List.foldl_cons]
    cases k with
    | imageId n =>
      have hnd' : nodupB (ks.filterMap keyName) = true := by
        simpa [List.filterMap_cons, keyName] using hnd
      have hdis' : ∀ nm ∈ ks.filterMap keyName, nm ∉ (applyKey r (.imageId n)).additional.map Prod.fst := by
        simpa [List.filterMap_cons, keyName, applyKey] using hdis
      rw [ih _ hnd' hdis']
      cases h1 : valueOf selI ks <;> cases h2 : valueOf selN ks <;> cases h3 : valueOf selP ks <;>
        simp [applyKey, valueOf, selI, selN, selP, selX, pick, h1, h2, h3, List.filterMap_cons]
    | imageNumber n =>
      have hnd' : nodupB (ks.filterMap keyName) = true := by
        simpa [List.filterMap_cons, keyName] using hnd
      have hdis' : ∀ nm ∈ ks.filterMap keyName, nm ∉ (applyKey r (.imageNumber n)).additional.map Prod.fst := by
        simpa [List.filterMap_cons, keyName, applyKey] using hdis
      rw [ih _ hnd' hdis']
      cases h1 : valueOf selI ks <;> cases h2 : valueOf selN ks <;> cases h3 : valueOf selP ks <;>
        simp [applyKey, valueOf, selI, selN, selP, selX, pick, h1, h2, h3, List.filterMap_cons]
    | placementId n =>
      have hnd' : nodupB (ks.filterMap keyName) = true := by
        simpa [List.filterMap_cons, keyName] using hnd
      have hdis' : ∀ nm ∈ ks.filterMap keyName, nm ∉ (applyKey r (.placementId n)).additional.map Prod.fst := by
        simpa [List.filterMap_cons, keyName, applyKey] using hdis
      rw [ih _ hnd' hdis']
      cases h1 : valueOf selI ks <;> cases h2 : valueOf selN ks <;> cases h3 : valueOf selP ks <;>
        simp [applyKey, valueOf, selI, selN, selP, selX, pick, h1, h2, h3, List.filterMap_cons]
    | extra k v =>
      simp only [List.filterMap_cons, keyName, nodupB, Bool.and_eq_true, Bool.not_eq_true',
        List.contains_eq_mem, decide_eq_false_iff_not] at hnd
      have hk : k ∉ r.additional.map Prod.fst := hdis k (by simp [keyName])
      have hset : dictSet r.additional k v = r.additional ++ [(k, v)] := dictSet_append _ _ _ hk
      have hdis' : ∀ nm ∈ ks.filterMap keyName, nm ∉ (applyKey r (.extra k v)).additional.map Prod.fst := by
        intro nm hnm
        simp only [applyKey, hset, List.map_append, List.map_cons, List.map_nil, List.mem_append,
          List.mem_cons, List.not_mem_nil, or_false, not_or]
        refine ⟨hdis nm (by simp [keyName, hnm]), ?_⟩
        intro e; subst e; exact hnd.1 hnm
      rw [ih _ hnd.2 hdis']
      cases h1 : valueOf selI ks <;> cases h2 : valueOf selN ks <;> cases h3 : valueOf selP ks <;>
        simp [applyKey, valueOf, selI, selN, selP, selX, pick, h1, h2, h3, hset, List.filterMap_cons]

/-! ### splitting what `joinComma` joined -/

theorem splitOn_no_sep (sep : UInt8) (a : Bytes) (h : sep ∉ a) : splitOn sep a = [a] := by
  induction a with
  | nil => rfl
  | cons c t ih =>
    simp only [List.mem_cons, not_or] at h
    have hc : c ≠ sep := fun e => h.1 e.symm
    simp [splitOn, hc, ih h.2]

theorem splitOn_append' (sep : UInt8) (a b : Bytes) (h : sep ∉ a) :
    splitOn sep (a ++ sep :: b) = a :: splitOn sep b := by
  induction a with
  | nil => simp [splitOn]
  | cons c t ih =>
    simp only [List.mem_cons, not_or] at h
    have hc : c ≠ sep := fun e => h.1 e.symm
    simp [splitOn, hc, ih h.2]

theorem splitOn_joinComma (p : Bytes) (ps : List Bytes) (h : ∀ q ∈ p :: ps, (44 : UInt8) ∉ q) :
    splitOn 44 (joinComma (p :: ps)) = p :: ps := by
  induction ps generalizing p with
  | nil => simpa [joinComma] using splitOn_no_sep 44 p (h p (by simp))
  | cons q qs ih =>
    have hp := h p (by simp)
    have := ih q (fun x hx => h x (by simp [hx]))
    simp only [joinComma, List.append_assoc, List.singleton_append]
    rw [splitOn_append' 44 p _ hp, this]

/-- the `for part in ….split(b",")` loop over the encoder's key list -/
theorem foldl_parts (parts : List Bytes) (r : Resp) (h : ∀ q ∈ parts, (44 : UInt8) ∉ q) :
    (splitOn 44 (joinComma parts)).foldl applyPart r = parts.foldl applyPart r := by
  cases parts with
  | nil => simp [joinComma, splitOn, applyPart]
  | cons p ps => rw [splitOn_joinComma p ps h]

theorem mem_joinComma {x : UInt8} (parts : List Bytes) (hx : x ≠ 44) (h : ∀ q ∈ parts, x ∉ q) :
    x ∉ joinComma parts := by
  match parts with
  | [] => simp [joinComma]
  | [a] => simpa [joinComma] using h a (by simp)
  | a :: b :: rest =>
    have ih := mem_joinComma (b :: rest) hx (fun q hq => h q (by simp [hq]))
    simp only [joinComma, List.append_assoc, List.singleton_append, List.mem_append, List.mem_cons, not_or]
    exact ⟨h a (by simp), hx, ih⟩

end Tup.RespLemmas
