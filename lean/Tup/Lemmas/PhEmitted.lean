import Tup.Lemmas.EscParse
import Tup.Lemmas.PhLine
/-!
  Everything the placeholder model emits (with background-only caller formatting) lies in the token class for which
  `parse (serialize ts) = ts` is proved, so the token-level theorems transfer to the bytes.
-/
namespace Tup.Ph
open Tup Tup.Spec Tup.EscL

theorem spec_table_range : ∀ cp ∈ Spec.diacritics, 0x20 ≤ cp ∧ cp < 0x110000 := by decide +kernel

theorem diacCp_range (i : Nat) (h : i < 297) : 0x20 ≤ diacCp i ∧ diacCp i < 0x110000 := by
  rw [diacCp_eq i h]
  exact spec_table_range _ (List.getElem_mem _)

theorem IsSgr.emitted {t : Tok} (h : IsSgr t) : Emitted t := by
  obtain ⟨ps, rfl⟩ := h
  simp [Emitted]

theorem groupsToks_emitted (base : Nat) (hb : 0x20 ≤ base ∧ base < 0x110000) (gs : List Group)
    (h : ∀ g ∈ gs, (∀ tok ∈ g.1, IsBgSgr tok) ∧ ∀ i ∈ g.2, i < 297) :
    ∀ t ∈ groupsToks base gs, Emitted t := by
  intro t ht
  simp only [groupsToks, List.mem_flatMap] at ht
  obtain ⟨g, hg, ht⟩ := ht
  simp only [groupToks, List.mem_append, List.mem_cons, List.mem_map, List.not_mem_nil, or_false] at ht
  rcases ht with (ht | rfl) | ⟨i, hi, rfl⟩
  · exact ((h g hg).1 t ht).isSgr.emitted
  · exact hb
  · exact diacCp_range i ((h g hg).2 i hi)

theorem sgrReset_emitted : Emitted sgrReset := by simp [sgrReset, Emitted]

/-- every token of an emitted line is in the class -/
theorem lineToks_emitted (p : Placeholder) (m : Mode) (fmt : FmtT) (row : Nat) (hsc : p.startCol < 297) (hfmt : BgOnly fmt) :
    ∀ t ∈ lineToks p m fmt row, Emitted t := by
  intro t ht
  by_cases hr : row < 297
  · rw [lineToks_printable p m fmt row hr] at ht
    simp only [List.mem_append, List.mem_cons, List.not_mem_nil, or_false] at ht
    rcases ht with (((rfl | ht) | ht) | ht) | rfl
    · exact sgrReset_emitted
    · exact (hfmt.1 row t ht).isSgr.emitted
    · exact (idColorToks_isSgr m p t ht).emitted
    · exact groupsToks_emitted _ (by rw [gen_placeholderChar_eq_spec]; decide) _ (lineGroups_ok p m fmt row hr hsc hfmt) t ht
    · exact sgrReset_emitted
  · rw [lineToks_blank p m fmt row (by omega)] at ht
    simp only [List.mem_append, List.mem_cons, List.not_mem_nil, or_false] at ht
    rcases ht with ((rfl | ht) | ht) | rfl
    · exact sgrReset_emitted
    · exact (hfmt.1 row t ht).isSgr.emitted
    · exact groupsToks_emitted 32 (by decide) _ (blankGroups_ok p fmt row hfmt) t ht
    · exact sgrReset_emitted

theorem mem_enumFrom {α} (l : List α) : ∀ (n : Nat) (x : Nat × α), x ∈ enumFrom n l → x.2 ∈ l := by
  induction l with
  | nil => intro n x hx; simp [enumFrom] at hx
  | cons a r ih =>
    intro n x hx
    simp only [enumFrom, List.mem_cons] at hx
    rcases hx with rfl | hx
    · simp
    · exact List.mem_cons_of_mem _ (ih _ _ hx)

/-- every token of a complete output (any style) is in the class -/
theorem streamToks_emitted (st : Style) (p : Placeholder) (m : Mode) (fmt : FmtT) (hsc : p.startCol < 297) (hfmt : BgOnly fmt) :
    ∀ t ∈ streamToks st (p.endCol - p.startCol) (p.lineToksAll m fmt), Emitted t := by
  intro t ht
  have hline : ∀ l ∈ p.lineToksAll m fmt, ∀ t ∈ l, Emitted t := by
    intro l hl
    simp only [Placeholder.lineToksAll, List.mem_map] at hl
    obtain ⟨row, _, rfl⟩ := hl
    exact lineToks_emitted p m fmt row hsc hfmt
  cases st with
  | atCursor save lf =>
    simp only [streamToks, List.mem_flatMap, List.mem_append] at ht
    obtain ⟨x, hx, (ht | ht) | ht⟩ := ht
    · unfold curBefore at ht
      split at ht <;> simp at ht
      subst ht; simp [Emitted]
    · exact hline x.2 (mem_enumFrom _ _ _ hx) t ht
    · unfold curAfter at ht
      split at ht
      · split at ht
        · simp at ht; subst ht; simp [Emitted]
        · cases save <;> simp at ht <;> rcases ht with rfl | rfl <;> simp [Emitted]
      · simp at ht
  | abs px py =>
    simp only [streamToks, List.mem_flatMap, List.mem_append, List.mem_cons, List.not_mem_nil, or_false] at ht
    obtain ⟨x, hx, rfl | ht⟩ := ht
    · simp [Emitted]
    · exact hline x.2 (mem_enumFrom _ _ _ hx) t ht

end Tup.Ph
