import Tup.Model.Command
import Tup.Spec.TmuxUnwrap
/-!
  tmux wrapping lemmas (C11): one wrapper around *any* byte string is removed exactly by
  `Spec.TmuxUnwrap.unwrap1`, and its body has only paired ESCs.  Core Lean only.
-/
namespace Tup.Command
open Tup Tup.Spec.TmuxUnwrap

theorem escDouble_append (xs ys : Bytes) : escDouble (xs ++ ys) = escDouble xs ++ escDouble ys := by
  induction xs with
  | nil => rfl
  | cons b rest ih => by_cases h : b = ESC <;> simp [escDouble, h, ih]

theorem escDouble_of_no_esc (xs : Bytes) (h : ESC ∉ xs) : escDouble xs = xs := by
  induction xs with
  | nil => rfl
  | cons b rest ih =>
    have hb : b ≠ ESC := fun e => h (by simp [e])
    have hr : ESC ∉ rest := fun e => h (by simp [e])
    simp [escDouble, hb, ih hr]

theorem unwrapBody_cons_ne (b : UInt8) (tl : Bytes) (h : b ≠ ESC) :
    unwrapBody (b :: tl) = (unwrapBody tl).map (b :: ·) := by
  cases tl with
  | nil => simp [unwrapBody]
  | cons c rest => simp [unwrapBody, h]

/-- what tmux forwards for a wrapper built by doubling every ESC -/
theorem unwrapBody_escDouble (xs : Bytes) : unwrapBody (escDouble xs ++ stTerm) = some xs := by
  induction xs with
  | nil => simp [escDouble, stTerm, unwrapBody, ESC]
  | cons b rest ih =>
    by_cases h : b = ESC
    · subst h
      simp only [escDouble, if_true, List.cons_append, unwrapBody, ih]
      simp
    · simp only [escDouble, h, if_false, List.cons_append]
      rw [unwrapBody_cons_ne _ _ h, ih]; rfl

/-- one layer as the library builds it around a finished byte string -/
def wrapLayer (xs : Bytes) : Bytes := tmuxPre ++ escDouble xs ++ stTerm

theorem unwrap1_wrapLayer (xs : Bytes) : unwrap1 (wrapLayer xs) = some xs := by
  simp only [wrapLayer, tmuxPre, List.cons_append, List.nil_append, unwrap1]
  exact unwrapBody_escDouble xs

theorem escPaired_cons_ne (b : UInt8) (tl : Bytes) (h : b ≠ ESC) : escPaired (b :: tl) = escPaired tl := by
  cases tl with
  | nil => simp [escPaired, h]
  | cons c rest => simp [escPaired, h]

theorem escPaired_escDouble (xs : Bytes) : escPaired (escDouble xs) = true := by
  induction xs with
  | nil => rfl
  | cons b rest ih =>
    by_cases h : b = ESC
    · subst h; simp [escDouble, escPaired, ih]
    · simp only [escDouble, h, if_false]; rw [escPaired_cons_ne _ _ h, ih]

theorem wellWrapped_wrapLayer (xs : Bytes) : wellWrapped (wrapLayer xs) = true := by
  simp only [wrapLayer, tmuxPre, stTerm, List.cons_append, List.nil_append, wellWrapped]
  have hl : (escDouble xs ++ [27, 92]).length - 2 = (escDouble xs).length := by simp
  rw [hl]
  simp [escPaired_escDouble]

end Tup.Command
