import Tup.Lemmas.TxnRun
/-!
  Helper lemmas for C03 / C12, part 4: one process alone (`lone`) — its blocks compose to the
  sequential operation (`lone_sample`, `lone_getLookup`), and every prefix of its run leaves the
  pre-state, the post-state, or the pre-state after a prefix of its own clean-ups (`crash_sample`,
  `crash_getLookup`).
-/
namespace Tup.TxnLemmas
open Tup Tup.Txn Tup.DbLemmas Tup.IdLemmas Tup.AllocLemmas Tup.Spec.AllocStep

/-- the result a `get_id` reports for the outcome of its last sampling block -/
def sampleFin (r : SampleRes) (acc : List Nat) : Result :=
  match r with
  | .inserted id => .got (.id id) (.sampled acc)
  | .found id => .got (.id id) (.foundLate acc)
  | .none => .got .noUnusedId (.exhausted acc)

theorem wf_getSample_mk {cfg : Cfg} {req : Req} (hs : req.space.valid = true) (hu : req.sub.valid = true)
    (henum : isEnumerable cfg req.space req.sub = false) (now pick : Nat) (fs : List (Option (Nat × Nat)))
    (ss rs : List (List Nat)) (acc : List Nat) : (PState.getSample req now pick fs ss rs acc).wf cfg = true := by
  simp [PState.wf, hs, hu, henum]

theorem wf_getCleanup_mk {cfg : Cfg} {req : Req} (hs : req.space.valid = true) (hu : req.sub.valid = true)
    (henum : isEnumerable cfg req.space req.sub = false) (now pick : Nat) (pq : Nat × Nat)
    (fs : List (Option (Nat × Nat))) (ss rs : List (List Nat)) (acc : List Nat) :
    (PState.getCleanup req now pick pq fs ss rs acc).wf cfg = true := by
  simp [PState.wf, hs, hu, henum]

theorem pstep_getSample_nil {cfg : Cfg} {req : Req} {now pick : Nat} {ss rs : List (List Nat)} {acc : List Nat}
    (hwf : (PState.getSample req now pick [] ss rs acc).wf cfg = true) (db : Db) :
    pstep cfg (.getSample req now pick [] ss rs acc) db =
      .ok (.finished (.got .noUnusedId (.exhausted acc)), db) := by
  simp only [pstep, pstepG, hwf, Bool.not_true, Bool.false_eq_true, ↓reduceIte]

/-- what the process does with the answer of a sampling block -/
def afterSample (req : Req) (now pick : Nat) (f : Option (Nat × Nat)) (fs : List (Option (Nat × Nat)))
    (ss rs : List (List Nat)) (acc : List Nat) : Except Err (Db × SampleRes) → Except Err (PState × Db)
  | .error e => .error e
  | .ok (db', .inserted id) =>
    if ss.tail.isEmpty && rs.isEmpty then .ok (.finished (.got (.id id) (.sampled acc)), db')
    else .error (.badChoice "rounds: choices left over after success")
  | .ok (db', .found id) => .ok (.finished (.got (.id id) (.foundLate acc)), db')
  | .ok (db', .none) =>
    match f with
    | none => .ok (.finished (.got .noUnusedId (.exhausted acc)), db')
    | some pq => .ok (.getCleanup req now pick pq fs ss rs acc, db')

theorem pstep_getSample_cons {cfg : Cfg} {req : Req} (hs : req.space.valid = true) (hu : req.sub.valid = true)
    (henum : isEnumerable cfg req.space req.sub = false) (now pick : Nat) (f : Option (Nat × Nat))
    (fs : List (Option (Nat × Nat))) (ss rs : List (List Nat)) (acc : List Nat) (db : Db) :
    pstep cfg (.getSample req now pick (f :: fs) ss rs acc) db =
      afterSample req now pick f fs ss rs acc (sampleBlock req now pick (ss.headD []) db) := by
  simp only [pstep, pstepG, PState.wf, hs, hu, henum, Bool.not_true, Bool.not_false, Bool.and_self,
    Bool.false_eq_true, ↓reduceIte]
  unfold afterSample
  rfl

def afterCleanup (req : Req) (now pick : Nat) (fs : List (Option (Nat × Nat)))
    (ss rs : List (List Nat)) (acc : List Nat) : Except Err Db → Except Err (PState × Db)
  | .error e => .error e
  | .ok db' => .ok (.getSample req now pick fs ss.tail rs.tail (acc ++ rs.headD []), db')

theorem pstep_getCleanup {cfg : Cfg} {req : Req} (hs : req.space.valid = true) (hu : req.sub.valid = true)
    (henum : isEnumerable cfg req.space req.sub = false) (now pick : Nat) (pq : Nat × Nat)
    (fs : List (Option (Nat × Nat))) (ss rs : List (List Nat)) (acc : List Nat) (db : Db) :
    pstep cfg (.getCleanup req now pick pq fs ss rs acc) db =
      afterCleanup req now pick fs ss rs acc
        (Tup.cleanup db req.space req.sub (fracLimit cfg (req.space.subspaceSize req.sub) pq) (rs.headD [])) := by
  simp only [pstep, pstepG, PState.wf, hs, hu, henum, Bool.not_true, Bool.not_false, Bool.and_self,
    Bool.false_eq_true, ↓reduceIte]
  unfold afterCleanup
  rfl

def afterLookup (req : Req) (now : Nat) (ch : GetChoice) : Except Err (Db × BlockA) → Except Err (PState × Db)
  | .error e => .error e
  | .ok (db', .done id out) => .ok (.finished (.got (.id id) out), db')
  | .ok (db', .miss) => .ok (.getSample req now ch.pick fracs ch.samples ch.removed [], db')

theorem pstep_getLookup {cfg : Cfg} {req : Req} (hs : req.space.valid = true) (hu : req.sub.valid = true)
    (now : Nat) (ch : GetChoice) (db : Db) :
    pstep cfg (.getLookup req now ch) db = afterLookup req now ch (lookupBlock cfg req now ch.pick db) := by
  simp only [pstep, pstepG, PState.wf, hs, hu, Bool.not_true, Bool.and_self, Bool.false_eq_true, ↓reduceIte]
  unfold afterLookup
  rfl

/-! ## alone, the sampling loop of the process is `sampleRounds` -/

theorem lone_sample {cfg : Cfg} {req : Req} (hs : req.space.valid = true) (hu : req.sub.valid = true)
    (henum : isEnumerable cfg req.space req.sub = false) (now pick : Nat) (fs : List (Option (Nat × Nat)))
    (ss rs : List (List Nat)) (db : Db) (acc : List Nat) :
    match sampleRounds cfg req now pick fs ss rs db acc with
    | .ok (db', r, acc') =>
      lone cfg (2 * fs.length + 1) (.getSample req now pick fs ss rs acc) db = (.finished (sampleFin r acc'), db')
    | .error e => (lone cfg (2 * fs.length + 1) (.getSample req now pick fs ss rs acc) db).1 = .finished (.raised e) := by
  induction fs generalizing ss rs db acc with
  | nil =>
    simp only [sampleRounds, List.length_nil, Nat.mul_zero, lone, pstepT,
      pstep_getSample_nil (wf_getSample_mk hs hu henum now pick [] ss rs acc), totalOf, sampleFin]
  | cons f fs ih =>
    rw [show 2 * (f :: fs).length + 1 = (2 * fs.length + 2) + 1 by simp; omega, lone_succ]
    simp only [pstepT, pstep_getSample_cons hs hu henum, sampleRounds]
    cases hsb : sampleBlock req now pick (ss.headD []) db with
    | error e => simp only [afterSample, totalOf, lone_finished]
    | ok x =>
      obtain ⟨db1, r⟩ := x
      cases r with
      | inserted id =>
        simp only [afterSample]
        cases hleft : (ss.tail.isEmpty && rs.isEmpty) with
        | true => simp only [↓reduceIte, totalOf, lone_finished, sampleFin]
        | false => simp only [Bool.false_eq_true, ↓reduceIte, totalOf, lone_finished]
      | found id => simp only [afterSample, totalOf, lone_finished, sampleFin]
      | none =>
        cases f with
        | none => simp only [afterSample, totalOf, lone_finished, sampleFin]
        | some pq =>
          simp only [afterSample, totalOf]
          rw [lone_succ]
          simp only [pstepT, pstep_getCleanup hs hu henum]
          cases hcl : Tup.cleanup db1 req.space req.sub (fracLimit cfg (req.space.subspaceSize req.sub) pq) (rs.headD []) with
          | error e => simp only [afterCleanup, totalOf, lone_finished]
          | ok db2 =>
            simp only [afterCleanup, totalOf]
            exact ih ss.tail rs.tail db2 (acc ++ rs.headD [])

/-- alone, the blocks of a `get_id` process compose to `getId` -/
theorem lone_getLookup {cfg : Cfg} {req : Req} (hs : req.space.valid = true) (hu : req.sub.valid = true)
    (now : Nat) (ch : GetChoice) (db : Db) :
    match getId cfg db req now ch with
    | .ok (db', res, out) => lone cfg 10 (.getLookup req now ch) db = (.finished (.got res out), db')
    | .error e => (lone cfg 10 (.getLookup req now ch) db).1 = .finished (.raised e) := by
  rw [show (10 : Nat) = 9 + 1 from rfl, lone_succ]
  simp only [getId, pstepT, pstep_getLookup hs hu]
  cases hl : lookupBlock cfg req now ch.pick db with
  | error e => simp only [afterLookup, totalOf, lone_finished]
  | ok x =>
    obtain ⟨db1, b⟩ := x
    cases b with
    | done id out => simp only [afterLookup, totalOf, lone_finished]
    | miss =>
      simp only [afterLookup, totalOf]
      cases lookupBlock_spec hl with
      | miss hmiss henum hdb =>
        have := lone_sample hs hu henum now ch.pick fracs ch.samples ch.removed db1 []
        rw [show 2 * fracs.length + 1 = 9 from rfl] at this
        cases hsr : sampleRounds cfg req now ch.pick fracs ch.samples ch.removed db1 [] with
        | error e => rw [hsr] at this; exact this
        | ok y =>
          obtain ⟨db2, r, acc⟩ := y
          rw [hsr] at this
          simp only [] at this
          cases r <;> simp only [] <;> rw [this] <;> rfl

/-! ## crash points: every prefix of a lone `get_id` -/

theorem run_cleanup_cons {cfg : Cfg} {db db' : Db} {s : Space} {u : Sub} {m : Nat} {removed : List Nat}
    (hs : s.valid = true) (hu : u.valid = true) (h : Tup.cleanup db s u m removed = .ok db') (ops : List Op) :
    run cfg (.cleanup s u m removed :: ops) db = run cfg ops db' := by
  simp [run, applyOp_cleanup hs hu h]

/-- database of `sampleRounds` when it succeeds -/
def RoundsDb (cfg : Cfg) (req : Req) (now pick : Nat) (fs : List (Option (Nat × Nat))) (ss rs : List (List Nat))
    (db : Db) (acc : List Nat) (x : Db) : Prop :=
  ∃ r acc', sampleRounds cfg req now pick fs ss rs db acc = .ok (x, r, acc')

theorem crash_sample {cfg : Cfg} {req : Req} (hs : req.space.valid = true) (hu : req.sub.valid = true)
    (henum : isEnumerable cfg req.space req.sub = false) (now pick : Nat) (fs : List (Option (Nat × Nat)))
    (ss rs : List (List Nat)) (db : Db) (acc : List Nat) (k : Nat) :
    RoundsDb cfg req now pick fs ss rs db acc (lone cfg k (.getSample req now pick fs ss rs acc) db).2 ∨
    (∃ n, (lone cfg k (.getSample req now pick fs ss rs acc) db).2 = run cfg ((cleanupsFrom cfg req fs rs).take n) db ∧
      Cleanups req.space req.sub db (lone cfg k (.getSample req now pick fs ss rs acc) db).2) := by
  induction fs generalizing ss rs db acc k with
  | nil =>
    right
    refine ⟨0, ?_, ?_⟩
    all_goals
      cases k with
      | zero => first | rfl | exact .refl db
      | succ k =>
        rw [lone_succ, pstepT, pstep_getSample_nil (wf_getSample_mk hs hu henum now pick [] ss rs acc)]
        simp only [totalOf, lone_finished]
        first | rfl | exact .refl db
  | cons f fs ih =>
    cases k with
    | zero => exact Or.inr ⟨0, rfl, .refl db⟩
    | succ k =>
      rw [lone_succ]
      simp only [pstepT, pstep_getSample_cons hs hu henum, RoundsDb, sampleRounds]
      cases hsb : sampleBlock req now pick (ss.headD []) db with
      | error e => simp only [afterSample, totalOf, lone_finished]; exact Or.inr ⟨0, rfl, .refl db⟩
      | ok x =>
        obtain ⟨db1, r⟩ := x
        cases r with
        | inserted id =>
          simp only [afterSample]
          cases hleft : (ss.tail.isEmpty && rs.isEmpty) with
          | true => simp only [↓reduceIte, totalOf, lone_finished]; exact Or.inl ⟨_, _, rfl⟩
          | false =>
            simp only [Bool.false_eq_true, ↓reduceIte, totalOf, lone_finished]; exact Or.inr ⟨0, rfl, .refl db⟩
        | found id => simp only [afterSample, totalOf, lone_finished]; exact Or.inl ⟨_, _, rfl⟩
        | none =>
          rcases sampleBlock_cases hsb with ⟨_, _, hr, _⟩ | ⟨hmiss, ⟨_, hdb⟩ | ⟨id', hr, _⟩⟩
          · cases hr
          · subst hdb
            cases f with
            | none => simp only [afterSample, totalOf, lone_finished]; exact Or.inl ⟨_, _, rfl⟩
            | some pq =>
              simp only [afterSample, totalOf]
              cases k with
              | zero => exact Or.inr ⟨0, rfl, .refl db1⟩
              | succ k =>
                rw [lone_succ]
                simp only [pstepT, pstep_getCleanup hs hu henum]
                cases hcl : Tup.cleanup db1 req.space req.sub (fracLimit cfg (req.space.subspaceSize req.sub) pq) (rs.headD []) with
                | error e => simp only [afterCleanup, totalOf, lone_finished]; exact Or.inr ⟨0, rfl, .refl db1⟩
                | ok db2 =>
                  simp only [afterCleanup, totalOf]
                  rcases ih ss.tail rs.tail db2 (acc ++ rs.headD []) k with ⟨r, acc', h⟩ | ⟨n, h1, h2⟩
                  · exact Or.inl ⟨r, acc', h⟩
                  · refine Or.inr ⟨n + 1, ?_, .step _ _ hcl h2⟩
                    rw [h1]
                    simp only [cleanupsFrom, List.take_succ_cons]
                    exact (run_cleanup_cons hs hu hcl _).symm
          · cases hr

theorem crash_getLookup {cfg : Cfg} {req : Req} (hs : req.space.valid = true) (hu : req.sub.valid = true)
    (now : Nat) (ch : GetChoice) (db : Db) (k : Nat) :
    (lone cfg k (.getLookup req now ch) db).2 = applyOp cfg db (.get req now ch) ∨
    (isEnumerable cfg req.space req.sub = false ∧
      ∃ n, (lone cfg k (.getLookup req now ch) db).2 = run cfg ((ownCleanups cfg req ch).take n) db ∧
        Cleanups req.space req.sub db (lone cfg k (.getLookup req now ch) db).2) ∨
    (lone cfg k (.getLookup req now ch) db).2 = db := by
  cases k with
  | zero => exact Or.inr (Or.inr rfl)
  | succ k =>
    rw [lone_succ]
    simp only [pstepT, pstep_getLookup hs hu]
    cases hl : lookupBlock cfg req now ch.pick db with
    | error e => exact Or.inr (Or.inr (by simp only [afterLookup, totalOf, lone_finished]))
    | ok x =>
      obtain ⟨db1, b⟩ := x
      cases b with
      | done id out =>
        simp only [afterLookup, totalOf, lone_finished]
        exact Or.inl (applyOp_get hs hu (getId_of_done ch.samples ch.removed hl)).symm
      | miss =>
        simp only [afterLookup, totalOf]
        cases lookupBlock_spec hl with
        | miss hmiss henum hdb =>
          subst hdb
          rcases crash_sample hs hu henum now ch.pick fracs ch.samples ch.removed db1 [] k with ⟨r, acc', h⟩ | h
          · left
            have hg : getId cfg db1 req now ch = .ok ((lone cfg k (.getSample req now ch.pick fracs ch.samples ch.removed []) db1).2,
                (match r with | .inserted id => GetRes.id id | .found id => .id id | .none => .noUnusedId),
                (match r with | .inserted _ => Outcome.sampled acc' | .found _ => .foundLate acc' | .none => .exhausted acc')) := by
              simp only [getId, hl, h]
              cases r <;> rfl
            exact (applyOp_get hs hu hg).symm
          · exact Or.inr (Or.inl ⟨henum, h⟩)

/-- in an enumerable subspace `get_id` is a single block -/
theorem crash_getLookup_enum {cfg : Cfg} {req : Req} (hs : req.space.valid = true) (hu : req.sub.valid = true)
    (henum : isEnumerable cfg req.space req.sub = true)
    (now : Nat) (ch : GetChoice) (db : Db) (k : Nat) :
    (lone cfg k (.getLookup req now ch) db).2 = applyOp cfg db (.get req now ch) ∨
    (lone cfg k (.getLookup req now ch) db).2 = db := by
  rcases crash_getLookup hs hu now ch db k with h | ⟨h, _⟩ | h
  · exact Or.inl h
  · rw [henum] at h; cases h
  · exact Or.inr h

end Tup.TxnLemmas
