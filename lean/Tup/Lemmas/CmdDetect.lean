import Tup.Model.Command
import Tup.Spec.TmuxUnwrap
/-!
  tmux auto-detection: Python's `in` on strings (`hasSub`) is the infix relation; the executable
  rule of the specification (`detectSpec`) is the same relation.  Core Lean only.
-/
namespace Tup.Command
open Tup Tup.Spec.TmuxUnwrap

theorem hasSub_iff (needle hay : Bytes) : hasSub needle hay = true ↔ needle <:+: hay := by
  induction hay with
  | nil => simp [hasSub, List.infix_nil]
  | cons b rest ih =>
    simp only [hasSub, Bool.or_eq_true, List.isPrefixOf_iff_prefix, ih, List.infix_cons_iff]

theorem occursIn_iff (needle hay : Bytes) : occursIn needle hay = true ↔ needle <:+: hay := by
  simp only [occursIn, List.any_eq_true, List.mem_range, beq_iff_eq]
  constructor
  · rintro ⟨i, _, h⟩
    refine ⟨hay.take i, (hay.drop i).drop needle.length, ?_⟩
    have h1 : hay.drop i = needle ++ (hay.drop i).drop needle.length := by
      conv => lhs; rw [← List.take_append_drop needle.length (hay.drop i), h]
    calc hay.take i ++ needle ++ (hay.drop i).drop needle.length
        = hay.take i ++ (needle ++ (hay.drop i).drop needle.length) := by simp
      _ = hay.take i ++ hay.drop i := by rw [← h1]
      _ = hay := List.take_append_drop i hay
  · rintro ⟨s, t, rfl⟩
    refine ⟨s.length, by simp; omega, ?_⟩
    simp

theorem detectTmux_iff (e : Env) :
    detectTmux e = true ↔
      (∃ v, e.tmux = some v ∧ v ≠ []) ∧ (sScreen <:+: e.term.getD [] ∨ sTmux <:+: e.term.getD []) := by
  unfold detectTmux
  simp only [Bool.and_eq_true, Bool.or_eq_true, hasSub_iff]
  constructor
  · rintro ⟨h1, h2⟩
    refine ⟨?_, h2⟩
    cases ht : e.tmux with
    | none => simp [ht] at h1
    | some v => simp [ht] at h1; exact ⟨v, rfl, by simpa using h1⟩
  · rintro ⟨⟨v, hv, hne⟩, h2⟩
    refine ⟨?_, h2⟩
    simp [hv, hne]

theorem detectSpec_iff (tmux term : Option Bytes) :
    detectSpec tmux term = true ↔
      (∃ v, tmux = some v ∧ v ≠ []) ∧ (sScreen <:+: term.getD [] ∨ sTmux <:+: term.getD []) := by
  unfold detectSpec
  simp only [Bool.and_eq_true]
  have hs : ¬ sScreen <:+: ([] : Bytes) := by simp [List.infix_nil, sScreen]
  have ht : ¬ sTmux <:+: ([] : Bytes) := by simp [List.infix_nil, sTmux]
  constructor
  · rintro ⟨h1, h2⟩
    constructor
    · cases tmux with
      | none => simp at h1
      | some v => exact ⟨v, rfl, by simpa using h1⟩
    · cases term with
      | none => simp at h2
      | some t =>
        simp only [Bool.or_eq_true, occursIn_iff] at h2
        simpa [sScreen, sTmux] using h2
  · rintro ⟨⟨v, hv, hne⟩, h2⟩
    subst hv
    constructor
    · simpa using hne
    · cases term with
      | none =>
        simp only [Option.getD_none] at h2
        rcases h2 with h | h
        · exact absurd h hs
        · exact absurd h ht
      | some t =>
        simp only [Bool.or_eq_true, occursIn_iff]
        simpa [sScreen, sTmux] using h2

end Tup.Command
