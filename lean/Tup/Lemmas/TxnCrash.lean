import Tup.Lemmas.TxnAlone
import Tup.Lemmas.TxnLin
/-!
  Helper lemmas for C12: single-block operations under a crash (`lone_single`), read-only calls
  (`lone_read`), and irrelevance of a dead process's state for everybody else
  (`dead_state_irrelevant`).
-/
namespace Tup.TxnLemmas
open Tup Tup.Txn Tup.DbLemmas Tup.IdLemmas Tup.AllocLemmas Tup.Spec.AllocStep

theorem crashDb_eq_lone {cfg : Cfg} {procs : List PState} {db : Db} {i : Nat} {p : PState}
    (h : procs[i]? = some p) (k : Nat) : crashDb cfg procs db i k = (lone cfg k p db).2 :=
  (runSched_replicate (st := ⟨procs, db⟩) h k).1

/-- an operation that is a single block: before the block nothing, after it everything -/
theorem lone_single {cfg : Cfg} {p : PState} {db db' : Db} {r : Result}
    (h : pstepT cfg p db = (.finished r, db')) (k : Nat) :
    (lone cfg k p db).2 = db ∨ (lone cfg k p db).2 = db' := by
  cases k with
  | zero => exact Or.inl rfl
  | succ k => right; rw [lone_succ, h]; simp

theorem pstepT_set (cfg : Cfg) (id : Nat) (d : String) (now : Nat) (db : Db) :
    ∃ r, pstepT cfg (.set id d now) db = (.finished r, applyOp cfg db (.set id d now)) := by
  simp only [pstepT, pstep, pstepG, PState.wf, Bool.not_true, Bool.false_eq_true, ↓reduceIte, applyOp]
  cases setId db id d now <;> exact ⟨_, rfl⟩

theorem pstepT_del (cfg : Cfg) (id : Nat) (db : Db) :
    ∃ r, pstepT cfg (.del id) db = (.finished r, applyOp cfg db (.del id)) := by
  simp only [pstepT, pstep, pstepG, PState.wf, Bool.not_true, Bool.false_eq_true, ↓reduceIte, applyOp]
  cases delId db id <;> exact ⟨_, rfl⟩

theorem pstepT_cleanup (cfg : Cfg) (s : Space) (u : Sub) (m : Nat) (removed : List Nat) (db : Db) :
    ∃ r, pstepT cfg (.cleanup s u m removed) db = (.finished r, applyOp cfg db (.cleanup s u m removed)) := by
  cases hv : (s.valid && u.valid) with
  | false =>
    have hwf : (PState.cleanup s u m removed).wf cfg = false := by simp [PState.wf, hv]
    rw [pstepT, pstep_not_wf db hwf]
    exact ⟨.invalidArgs, by simp [totalOf, applyOp, hv]⟩
  | true =>
    simp only [pstepT, pstep, pstepG, PState.wf, hv, Bool.not_true, Bool.false_eq_true, ↓reduceIte, applyOp]
    cases Tup.cleanup db s u m removed <;> exact ⟨_, rfl⟩

theorem pstepT_mark (cfg : Cfg) (id : Nat) (term : String) (size time : Nat) (db : Db) :
    ∃ r, pstepT cfg (.mark id term size time) db = (.finished r, applyOp cfg db (.mark id term size time)) := by
  simp only [pstepT, pstep, pstepG, PState.wf, Bool.not_true, Bool.false_eq_true, ↓reduceIte, applyOp]
  cases markUploaded db id term size time <;> exact ⟨_, rfl⟩

theorem pstepT_cleanupUploads (cfg : Cfg) (n : Nat) (kept : List (Nat × String)) (db : Db) :
    ∃ r, pstepT cfg (.cleanupUploads n kept) db = (.finished r, applyOp cfg db (.cleanupUploads n kept)) := by
  simp only [pstepT, pstep, pstepG, PState.wf, Bool.not_true, Bool.false_eq_true, ↓reduceIte, applyOp]
  cases Tup.cleanupUploads db n kept <;> exact ⟨_, rfl⟩

/-- read-only calls never change the database, wherever they are interrupted -/
theorem lone_read {cfg : Cfg} {p : PState} (hr : isRead p = true) (db : Db) (k : Nat) :
    (lone cfg k p db).2 = db := by
  induction k generalizing p with
  | zero => rfl
  | succ k ih =>
    rw [lone_succ]
    cases hp : pstep cfg p db with
    | error e => rw [pstepT_error hp]; simp
    | ok x =>
      obtain ⟨p', db'⟩ := x
      rw [pstepT_ok hp]
      have hc := pstep_cases hp
      generalize effOp cfg p db = o at hc
      cases hc with
      | read h1 h2 => exact ih h2
      | invalid hwf => simp
      | _ => simp [isRead] at hr

/-! ## the state a dead process was left in does not matter to anybody else -/

theorem dead_state_irrelevant (cfg : Cfg) (sched : List Nat) (procs : List PState) (db : Db) (i : Nat) (q : PState)
    (hdead : i ∉ sched) :
    (runSched cfg ⟨procs.set i q, db⟩ sched).db = (runSched cfg ⟨procs, db⟩ sched).db ∧
    (runSched cfg ⟨procs.set i q, db⟩ sched).procs = (runSched cfg ⟨procs, db⟩ sched).procs.set i q := by
  induction sched generalizing procs db with
  | nil => exact ⟨rfl, rfl⟩
  | cons h sched ih =>
    have hne : i ≠ h := fun e => hdead (by simp [e])
    have hdead' : i ∉ sched := fun e => hdead (by simp [e])
    rw [runSched_cons, runSched_cons]
    have hget : (procs.set i q)[h]? = procs[h]? := List.getElem?_set_ne hne
    cases hp : procs[h]? with
    | none =>
      rw [sysStep_none (st := ⟨procs.set i q, db⟩) (by rw [← hp]; exact hget),
        sysStep_none (st := ⟨procs, db⟩) hp]
      exact ih procs db hdead'
    | some p =>
      rw [sysStep_some (st := ⟨procs.set i q, db⟩) (by rw [← hp]; exact hget),
        sysStep_some (st := ⟨procs, db⟩) hp]
      simp only []
      rw [List.set_comm _ _ hne]
      exact ih _ _ hdead'

end Tup.TxnLemmas
