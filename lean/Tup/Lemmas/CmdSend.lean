import Tup.Lemmas.CmdFields
import Tup.Lemmas.CmdUnwrap
/-!
  Lemmas for C05: structure of `TransmitCommand.split`, header growth when the `m` key is added,
  sizes of the emitted escape codes.  Core Lean only.
-/
namespace Tup.Command
open Tup Tup.Spec.GfxParse Tup.Spec.TmuxUnwrap

/-- the command sends its data inline: medium `DIRECT` or none (the protocol default) -/
def Transmit.inline (t : Transmit) : Prop := t.medium = none ∨ t.medium = some .direct

/-! ### length of a comma-joined header -/

def sumLen (parts : List Bytes) : Nat := (parts.map (·.length + 1)).sum

theorem sumLen_append (a b : List Bytes) : sumLen (a ++ b) = sumLen a + sumLen b := by
  simp [sumLen, List.map_append, List.sum_append]

theorem joinComma_length (parts : List Bytes) : (joinComma parts).length = sumLen parts - 1 := by
  induction parts with
  | nil => rfl
  | cons a rest ih =>
    cases rest with
    | nil => simp [joinComma, sumLen]
    | cons b r =>
      simp only [joinComma, List.length_append, List.length_cons, ih]
      simp only [sumLen, List.map_cons, List.sum_cons]
      omega

/-- header weight of a list of items: Σ (|k=v| + 1) -/
def hsum (ps : List (UInt8 × HVal)) : Nat := sumLen (ps.map kvBytes)

theorem hsum_append (a b : List (UInt8 × HVal)) : hsum (a ++ b) = hsum a + hsum b := by
  simp [hsum, sumLen_append]

theorem headerBytes_length (c : GCmd) : (headerBytes c).length = hsum (headerPairs c) - 1 := by
  simp [headerBytes, joinComma_length, hsum]

theorem hsum_hp_m (b : Bool) : hsum (hp 109 (some (nBool b))) = 4 := by cases b <;> decide

theorem transmit_hsum_ge (t : Transmit) :
    hsum (hp 105 (t.imageId.map nInt)) + hsum (hp 73 (t.imageNumber.map nInt)) ≤ hsum t.pairs := by
  simp only [Transmit.pairs, hsum_append]; omega

/-- adding / overwriting the `m` key lengthens the header by at most 4 bytes -/
theorem first_header_le (t : Transmit) (d : Bytes) (b : Bool) :
    (headerBytes (.transmit { t with data := d, more := some b })).length ≤ (headerBytes (.transmit t)).length + 4 := by
  simp only [headerBytes_length, headerPairs]
  have h : hsum (Transmit.pairs { t with data := d, more := some b }) ≤ hsum t.pairs + 4 := by
    have ha : Transmit.action { t with data := d, more := some b } = t.action := rfl
    simp only [Transmit.pairs, hsum_append, ha, Option.map_some, hsum_hp_m]
    omega
  omega

/-- the continuation header (`i`, `I`, `m`) is no longer than the first header plus 4 -/
theorem cont_header_le (t : Transmit) (d : Bytes) (b : Bool) :
    (headerBytes (.moreData { imageId := t.imageId, imageNumber := t.imageNumber, data := d, more := some b })).length
      ≤ (headerBytes (.transmit t)).length + 4 := by
  simp only [headerBytes_length, headerPairs, MoreData.pairs, hsum_append, Option.map_some, hsum_hp_m]
  have := transmit_hsum_ge t
  omega

/-! ### the shape of `split` -/

/-- what `split` yields is either the first chunk (a clone with `more` set) or a continuation -/
inductive IsChunk (t : Transmit) (n : Nat) : GCmd → Prop
  | first (d : Bytes) (b : Bool) (hd : d.length ≤ n) : IsChunk t n (.transmit { t with data := d, more := some b })
  | cont (d : Bytes) (b : Bool) (hd : d.length ≤ n) :
      IsChunk t n (.moreData { imageId := t.imageId, imageNumber := t.imageNumber, data := d, more := some b })

theorem moreChunks_isChunk (t : Transmit) (n : Nat) :
    ∀ fuel rest, ∀ c ∈ moreChunks t.imageId t.imageNumber t.more n fuel rest, IsChunk t n c := by
  intro fuel
  induction fuel with
  | zero => intro rest c hc; simp [moreChunks] at hc
  | succ f ih =>
    intro rest c hc
    simp only [moreChunks] at hc
    split at hc
    · simp at hc
    · simp only [List.mem_cons] at hc
      rcases hc with rfl | hc
      · exact IsChunk.cont _ _ (by simp [List.length_take]; omega)
      · exact ih _ c hc

theorem moreChunks_flatten (id num : Option Nat) (orig : Option Bool) (n : Nat) (hn : 0 < n) :
    ∀ fuel rest, rest.length ≤ fuel → ((moreChunks id num orig n fuel rest).map payload).flatten = rest := by
  intro fuel
  induction fuel with
  | zero =>
    intro rest h
    have : rest = [] := List.length_eq_zero_iff.mp (by omega)
    simp [moreChunks, this]
  | succ f ih =>
    intro rest h
    simp only [moreChunks]
    split
    · rename_i he
      have : rest = [] := by
        cases rest with
        | nil => rfl
        | cons x xs =>
          have : n = (n - 1) + 1 := by omega
          rw [this] at he; simp at he
      simp [this]
    · rename_i he
      have hne : rest ≠ [] := by intro e; simp [e] at he
      have hl : (rest.drop n).length ≤ f := by
        have : 0 < rest.length := List.length_pos_iff.mpr hne
        simp [List.length_drop]; omega
      simp only [List.map_cons, List.flatten_cons, payload, ih _ hl, List.take_append_drop]

theorem split_inline (t : Transmit) (n : Nat) (h : t.inline) :
    t.split n =
      .transmit { t with data := t.data.take n, more := some (orMore t.more ((t.data.drop n).take n)) }
        :: moreChunks t.imageId t.imageNumber t.more n (t.data.drop n).length (t.data.drop n) := by
  unfold Transmit.split
  have : ¬ (t.medium ≠ none ∧ t.medium ≠ some .direct) := by
    rcases h with h | h <;> simp [h]
  simp [this]

theorem split_isChunk (t : Transmit) (n : Nat) (h : t.inline) : ∀ c ∈ t.split n, IsChunk t n c := by
  rw [split_inline t n h]
  intro c hc
  simp only [List.mem_cons] at hc
  rcases hc with rfl | hc
  · exact IsChunk.first _ _ (by simp [List.length_take]; omega)
  · exact moreChunks_isChunk t n _ _ c hc

/-- the chunks' payloads concatenate to the data -/
theorem split_flatten (t : Transmit) (n : Nat) (hn : 0 < n) (h : t.inline) :
    ((t.split n).map payload).flatten = t.data := by
  rw [split_inline t n h]
  simp only [List.map_cons, List.flatten_cons, payload]
  rw [moreChunks_flatten _ _ _ n hn _ _ (Nat.le_refl _), List.take_append_drop]

/-! ### sizes -/

theorem toBytes_length_payload (tm : Template) (c : GCmd) (d : Bytes) (h : rawPayload c = some d) :
    (toBytes tm c).length = tm.pre.length + (headerBytes c).length + 1 + 4 * ((d.length + 2) / 3) + tm.suf.length := by
  simp only [toBytes, contentBytes, encodedPayload, h, Option.map_some, List.length_append, List.length_cons, b64enc_length]
  omega

/-- every chunk fits: this is the arithmetic of `send` -/
theorem chunk_size_le (tm : Template) (maxSize : Nat) (t : Transmit) (c : GCmd)
    (hmp : 1 ≤ maxPayload tm maxSize t) (hc : IsChunk t (maxPayload tm maxSize t) c) :
    (toBytes tm c).length ≤ maxSize := by
  unfold maxPayload at hmp hc
  cases hc with
  | first d b hd =>
    rw [toBytes_length_payload tm _ d rfl]
    have hh := first_header_le t d b
    unfold budget Template.length at *
    omega
  | cont d b hd =>
    rw [toBytes_length_payload tm _ d rfl]
    have hh := cont_header_le t d b
    unfold budget Template.length at *
    omega

/-- a successful `send` of a transmit command wrote exactly the chunks of `split`, each through the template -/
theorem send_inv {tm : Template} {maxSize : Nat} {t : Transmit} {out : List Bytes}
    (h : send tm maxSize (.transmit t) = .ok out) :
    1 ≤ maxPayload tm maxSize t ∧ out = (t.split (maxPayload tm maxSize t)).map (toBytes tm) := by
  by_cases hm : maxPayload tm maxSize t < 1
  · simp [send, hm] at h
  · simp only [send, hm, if_false] at h
    cases h
    exact ⟨by omega, rfl⟩

theorem mapM_map_some {α β γ} (l : List α) (f : α → β) (g : β → Option γ) (k : α → γ)
    (H : ∀ a ∈ l, g (f a) = some (k a)) : (l.map f).mapM g = some (l.map k) := by
  induction l with
  | nil => rfl
  | cons a rest ih =>
    simp only [List.map_cons, List.mapM_cons, H a (by simp), ih (fun x hx => H x (by simp [hx]))]
    rfl

end Tup.Command
