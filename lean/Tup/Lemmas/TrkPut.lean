import Tup.Lemmas.TrkInv
/-!
  Placeholder lines and the save / print / restore / index choreography of
  `to_stream_at_cursor` on the specification terminal.  No Mathlib.
-/
namespace Tup.Trk
open Tup Tup.Spec

/-- tokens a placeholder line consists of: SGR and characters -/
def plainTok : Tok → Bool
  | .csi _ 109 => true
  | .char _ => true
  | _ => false

/-- number of cells a token sequence occupies: its non-combining characters -/
def cellCount : List Tok → Nat
  | [] => 0
  | .char cp :: r => (if isCombining cp then 0 else 1) + cellCount r
  | _ :: r => cellCount r

/-- a line of `c` cells: only SGR and characters, exactly `c` of them non-combining -/
def PlainLine (c : Nat) (l : Bytes) : Prop := (∀ k ∈ parse l, plainTok k = true) ∧ cellCount (parse l) = c

theorem plain_keeps (k : Tok) (h : plainTok k = true) : setsMargins k = false := by
  unfold plainTok at h
  split at h
  · rfl
  · rfl
  · cases h

/-- effect of one plain token that fits on the line -/
theorem plain_step (t : Term) (k : Tok) (hk : plainTok k = true) (hfit : t.cx + cellCount [k] ≤ t.w) :
    (t.feedP k).cx = t.cx + cellCount [k] ∧ (t.feedP k).cy = t.cy ∧ (t.feedP k).saved = t.saved ∧
    (t.feedP k).w = t.w := by
  unfold plainTok at hk
  split at hk
  · rename_i ps
    simp [Term.feedP, Term.feed, Term.csi, cellCount]
  · rename_i cp
    simp only [cellCount] at hfit ⊢
    by_cases hc : isCombining cp = true
    · simp only [hc, if_true] at hfit ⊢
      simp only [Term.feedP, Term.feed, Term.putChar, hc, if_true]
      by_cases h0 : t.cx = 0
      · rw [if_pos h0]; exact ⟨by omega, rfl, rfl, rfl⟩
      · rw [if_neg h0]; exact ⟨by simp, rfl, rfl, rfl⟩
    · simp only [hc] at hfit ⊢
      have hlt : ¬ t.cx ≥ t.w := by simp at hfit; omega
      simp only [Term.feedP, Term.feed, Term.putChar, hc, hlt, if_false]
      exact ⟨by simp, rfl, rfl, rfl⟩
  · cases hk

theorem cellCount_cons (k : Tok) (ks : List Tok) : cellCount (k :: ks) = cellCount [k] + cellCount ks := by
  cases k <;> simp [cellCount]

/-- effect of a plain line that fits between the cursor and the right edge -/
theorem plain_line (ts : List Tok) (t : Term) (hp : ∀ k ∈ ts, plainTok k = true) (hfit : t.cx + cellCount ts ≤ t.w) :
    (ts.foldl Term.feedP t).cx = t.cx + cellCount ts ∧ (ts.foldl Term.feedP t).cy = t.cy ∧
    (ts.foldl Term.feedP t).saved = t.saved ∧ (ts.foldl Term.feedP t).w = t.w := by
  induction ts generalizing t with
  | nil => simp [cellCount]
  | cons k ks ih =>
    rw [cellCount_cons] at hfit ⊢
    have s1 := plain_step t k (hp k (by simp)) (by omega)
    have s2 := ih (t.feedP k) (fun k' hk' => hp k' (by simp [hk'])) (by rw [s1.1, s1.2.2.2]; omega)
    simp only [List.foldl_cons]
    exact ⟨by rw [s2.1, s1.1]; omega, by rw [s2.2.1, s1.2.1], by rw [s2.2.2.1, s1.2.2.1], by rw [s2.2.2.2, s1.2.2.2]⟩

theorem index_effect (t : Term) (hcy : t.cy < t.h) (hbot : t.bot = t.h - 1) :
    t.index.cx = t.cx ∧ t.index.cy = min (t.cy + 1) (t.h - 1) := by
  unfold Term.index
  by_cases h : t.cy = t.bot
  · rw [if_pos h]; exact ⟨rfl, by show t.cy = _; omega⟩
  rw [if_neg h]
  by_cases h2 : t.cy + 1 < t.h
  · rw [if_pos h2]; exact ⟨rfl, by show t.cy + 1 = _; omega⟩
  · omega

theorem chorKeeps (c : Nat) (ls : List Bytes) (hp : ∀ l ∈ ls, ∀ k ∈ parse l, plainTok k = true) (useSave useLF : Bool) :
    ∀ ch ∈ toStreamAtCursor c useSave useLF ls, chunkKeepsMargins ch := by
  induction ls with
  | nil => intro ch h; simp [toStreamAtCursor] at h
  | cons l rest ih =>
    have hl : chunkKeepsMargins (.raw l) := fun k hk => plain_keeps k (hp l (by simp) k hk)
    have ih' := ih (fun l' hl' => hp l' (by simp [hl']))
    cases rest with
    | nil =>
      intro ch h
      simp [toStreamAtCursor] at h
      subst h; exact hl
    | cons l2 rest' =>
      intro ch h
      simp only [toStreamAtCursor, List.mem_append] at h
      rcases h with ((h | h) | h) | h
      · split at h
        · simp at h; subst h; rfl
        · simp at h
      · simp at h; subst h; exact hl
      · split at h
        · simp at h; subst h; rfl
        · simp only [List.mem_append] at h
          rcases h with h | h
          · split at h <;> (simp at h; subst h; rfl)
          · simp at h; subst h; rfl
      · exact ih' ch h

/-- The choreography of `to_stream_at_cursor` (save / restore style): printing `1 + rest.length`
    lines of `c` cells from a cursor with `c` free columns, default scroll margins. -/
theorem chor_effect (c : Nat) (hc : 1 ≤ c) (rest : List Bytes) :
    ∀ (l : Bytes) (t : Term), t.WF → t.top = 0 → t.bot = t.h - 1 → t.cx + c ≤ t.w →
      (∀ l' ∈ l :: rest, PlainLine c l') →
      (feedChunks t (toStreamAtCursor c true false (l :: rest))).cx = t.cx + c ∧
      (feedChunks t (toStreamAtCursor c true false (l :: rest))).cy = min (t.cy + rest.length) (t.h - 1) := by
  induction rest with
  | nil =>
    intro l t wf htop hbot hfit hp
    have pl := hp l (by simp)
    have := plain_line (parse l) t pl.1 (by rw [pl.2]; exact hfit)
    simp only [toStreamAtCursor, feedChunks_cons, feedChunks_nil, feedChunk, List.length_nil, Nat.add_zero]
    have hcy := wf.cy_lt
    exact ⟨by rw [this.1, pl.2], by rw [this.2.1]; omega⟩
  | cons l2 rest' ih =>
    intro l t wf htop hbot hfit hp
    have pl := hp l (by simp)
    -- save
    let t1 : Term := { t with saved := some (t.cx, t.cy, t.sgr) }
    have e1 : feedChunk t (csi [] 's') = t1 := by
      simp [feedChunk, csi, Term.feedP, Term.feed, Term.csi, t1]
    -- line
    have pl1 := plain_line (parse l) t1 pl.1 (by rw [pl.2]; exact hfit)
    generalize ht2 : (parse l).foldl Term.feedP t1 = t2 at pl1
    have g12 : Good t1 t2 := by rw [← ht2]; exact foldl_feedP_WF _ t1 ⟨wf.cy_lt, wf.bot_lt, wf.top_le, by
      intro x y s hs; simp only [t1, Option.some.injEq, Prod.mk.injEq] at hs; have := wf.cy_lt; show y < t.h; omega⟩
    have tb12 := foldl_feedP_topbot (parse l) t1 (fun k hk => plain_keeps k (pl.1 k hk))
    rw [ht2] at tb12
    -- restore
    have hsaved : t2.saved = some (t.cx, t.cy, t.sgr) := pl1.2.2.1
    generalize ht3 : t2.feedP (.csi [] 117) = t3
    have ht3' : t3 = { t2 with cx := min t.cx (t2.w - 1), cy := t.cy, sgr := if t2.cfg.restoreSgr then t.sgr else t2.sgr } := by
      rw [← ht3]; simp only [Term.feedP, hsaved]
    have e3 : t3.cx = t.cx ∧ t3.cy = t.cy ∧ t3.top = t2.top ∧ t3.bot = t2.bot ∧ t3.h = t2.h ∧ t3.w = t2.w := by
      have hw2 : t2.w = t.w := g12.2.2.1
      rw [ht3']
      refine ⟨?_, rfl, rfl, rfl, rfl, rfl⟩
      show min t.cx (t2.w - 1) = t.cx
      omega
    have g23 : Good t2 t3 := by rw [← ht3]; exact feedP_WF t2 g12.1 _
    -- index
    have hh2 : t2.h = t.h := g12.2.1
    have hw2 : t2.w = t.w := g12.2.2.1
    have hb3 : t3.bot = t3.h - 1 := by
      rw [e3.2.2.2.1, e3.2.2.2.2.1, tb12.2, hh2]; exact hbot
    have ht3top : t3.top = 0 := by
      rw [e3.2.2.1, tb12.1]; exact htop
    have e4 := index_effect t3 g23.1.cy_lt hb3
    have g34 : Good t3 t3.index := index_WF t3 g23.1
    have tb34 := index_topbot t3
    have ih' := ih l2 t3.index g34.1 (by rw [tb34.1]; exact ht3top)
      (by rw [tb34.2, g34.2.1]; exact hb3)
      (by rw [e4.1, e3.1, g34.2.2.1, e3.2.2.2.2.2, hw2]; exact hfit)
      (fun l' hl' => hp l' (by simp [hl']))
    have unfold_eq : feedChunks t (toStreamAtCursor c true false (l :: l2 :: rest')) =
        feedChunks t3.index (toStreamAtCursor c true false (l2 :: rest')) := by
      simp only [toStreamAtCursor, Bool.not_false, Bool.and_self, if_true, Bool.false_eq_true, if_false,
        List.cons_append, List.nil_append, feedChunks_cons, e1]
      simp only [feedChunk, ht2, escF, csi]
      rw [show ('u'.toNat) = 117 from rfl, ht3]
      rfl
    rw [unfold_eq, ih'.1, ih'.2, e4.1, e4.2, e3.1, e3.2.1, g34.2.1, e3.2.2.2.2.1, hh2]
    simp only [List.length_cons]
    have := wf.cy_lt
    constructor
    · trivial
    · omega

end Tup.Trk
