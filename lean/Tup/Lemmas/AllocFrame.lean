import Tup.Lemmas.Alloc
/-!
  Helper lemmas for C01 / C02, second part: rows and membership under `DbInv`, effect of `setId` on
  a member id, frames of the individual writes, clean-up sequences. Core Lean only.
-/
namespace Tup.AllocLemmas
open Tup Tup.DbLemmas Tup.IdLemmas Tup.Spec.AllocStep

theorem mem_inSub {t : Table} {s : Space} {u : Sub} {r : Row} :
    r ∈ t.inSub s u ↔ r ∈ t ∧ s.sqlFilter u r.id = true := by
  unfold Table.inSub; exact List.mem_filter

/-- a row of table `s` that passes the SQL range filter is a member of `(s, u)` -/
theorem member_of_row {db : Db} (hinv : DbInv db) {s : Space} (hs : s ∈ Space.all) {u : Sub}
    (hu : u.valid = true) {r : Row} (hr : r ∈ db.ids s) (hf : s.sqlFilter u r.id = true) :
    Spec.member s u r.id = true :=
  (sqlFilter_iff_member hu (hinv.space s hs r hr)).1 hf

theorem live_iff_inSub {db : Db} (hinv : DbInv db) {s : Space} (hs : s ∈ Space.all) {u : Sub}
    (hu : u.valid = true) (r : Row) : Live db s u r ↔ r ∈ (db.ids s).inSub s u := by
  rw [mem_inSub]; unfold Live
  constructor
  · rintro ⟨hr, hm⟩; exact ⟨hr, (sqlFilter_iff_member hu (hinv.space s hs r hr)).2 hm⟩
  · rintro ⟨hr, hf⟩; exact ⟨hr, member_of_row hinv hs hu hr hf⟩

theorem inSpace_of_member {s : Space} {u : Sub} {id : Nat} (h : Spec.member s u id = true) :
    Spec.inSpace s id = true := ((member_iff s u id).1 h).1

theorem member_of_containsInSub {s : Space} (hs : s ∈ Space.all) {u : Sub} {id : Nat}
    (h : s.containsInSub id u = some true) : Spec.member s u id = true := by
  cases hf : fromId id with
  | none => simp [Space.containsInSub, Space.contains, hf] at h
  | some s' =>
    have hne : ¬ (id = 0 ∨ id ≥ 2 ^ 32) := fun e => by rw [(fromId_none_iff id).2 e] at hf; cases hf
    have h0 : 0 < id := by omega
    have h1 : id < 2 ^ 32 := by omega
    rw [containsInSub_iff_member hs u id h0 h1] at h
    injection h

/-- `set_id` of an id of space `s` writes table `s` -/
theorem setId_of_inSpace {db db' : Db} {s : Space} (hs : s ∈ Space.all) {id now : Nat} {d : String}
    (hin : Spec.inSpace s id = true) (h : setId db id d now = .ok db') :
    db' = db.setIds s ((db.ids s).upsert ⟨id, d, now⟩) := by
  obtain ⟨s', hs', rfl⟩ := setId_ok h
  have := (fromId_iff_inSpace hs id).2 hin
  rw [this] at hs'; injection hs' with hs'; subst hs'; rfl

/-! ## frames -/

theorem frame_refl (db : Db) (s : Space) (u : Sub) : Frame db db s u :=
  ⟨fun _ _ _ => rfl, fun _ _ => rfl, rfl⟩

theorem frame_trans {db db1 db2 : Db} {s : Space} {u : Sub} (h1 : Frame db db1 s u) (h2 : Frame db1 db2 s u) :
    Frame db db2 s u :=
  ⟨fun s' hs' hne => (h2.1 s' hs' hne).trans (h1.1 s' hs' hne),
   fun id hid => (h2.2.1 id hid).trans (h1.2.1 id hid),
   h2.2.2.trans h1.2.2⟩

/-- replacing table `s` by one that agrees with it on all non-members of `(s, u)` is within the frame -/
theorem frame_setIds (db : Db) {s : Space} (hs : s ∈ Space.all) (u : Sub) {t : Table}
    (h : ∀ id, Spec.member s u id = false → t.lookup id = (db.ids s).lookup id) :
    Frame db (db.setIds s t) s u :=
  ⟨fun s' hs' hne => ids_setIds_of_ne db t hs hs' hne,
   fun id hid => by rw [ids_setIds_same]; exact h id hid,
   uploads_setIds db s t⟩

theorem frame_upsert (db : Db) {s : Space} (hs : s ∈ Space.all) {u : Sub} {r : Row}
    (hm : Spec.member s u r.id = true) : Frame db (db.setIds s ((db.ids s).upsert r)) s u :=
  frame_setIds db hs u fun id hid => by
    rw [lookup_upsert]; split
    · next e => subst e; rw [hm] at hid; cases hid
    · rfl

theorem frame_setAtime (db : Db) {s : Space} (hs : s ∈ Space.all) {u : Sub} {pick now : Nat}
    (hm : Spec.member s u pick = true) : Frame db (db.setIds s ((db.ids s).setAtime pick now)) s u :=
  frame_setIds db hs u fun id hid => by
    rw [lookup_setAtime]
    cases hl : (db.ids s).lookup id with
    | none => rfl
    | some r =>
      have hrid := (lookup_eq_some hl).2
      have : r.id ≠ pick := fun e => by rw [← e, hrid, hid] at hm; cases hm
      simp [this]

/-! ## clean-ups -/

theorem nodupB_iff (l : List Nat) : nodupB l = true ↔ l.Nodup := by
  induction l with
  | nil => simp [nodupB]
  | cons x xs ih => simp [nodupB, ih]

/-- the ids an admissible clean-up removes are ids of rows of the filtered subspace -/
theorem admissible_subset {rows : List Row} {n : Nat} {removed : List Nat}
    (h : admissibleRemoved rows n removed = true) : ∀ i ∈ removed, ∃ r ∈ rows, r.id = i := by
  unfold admissibleRemoved at h
  simp only [Std.HashSet.contains_ofList, Bool.and_eq_true, List.all_eq_true, List.contains_eq_mem,
    decide_eq_true_eq, List.mem_map] at h
  intro i hi
  exact h.1.1.2 i hi

/-- what an admissible answer to `ORDER BY atime ASC LIMIT n` means -/
theorem admissible_spec {rows : List Row} {n : Nat} {removed : List Nat}
    (h : admissibleRemoved rows n removed = true) :
    removed.Nodup ∧ removed.length = min n rows.length ∧
    (∀ r ∈ rows, r.id ∈ removed → ∀ k ∈ rows, k.id ∉ removed → r.atime ≤ k.atime) := by
  unfold admissibleRemoved at h
  simp only [Std.HashSet.contains_ofList, Bool.and_eq_true, beq_iff_eq] at h
  obtain ⟨⟨⟨hnd, _⟩, hlen⟩, hord⟩ := h
  refine ⟨(nodupB_iff _).1 hnd, hlen, ?_⟩
  intro r hr hrin k hk hkout
  have hr' : r ∈ rows.filter (fun r => removed.contains r.id) :=
    List.mem_filter.2 ⟨hr, by simpa using hrin⟩
  have hk' : k ∈ rows.filter (fun r => !removed.contains r.id) :=
    List.mem_filter.2 ⟨hk, by simpa using hkout⟩
  split at hord
  · next a b ha hb =>
    have h1 := maxAtime_ge ha r hr'
    have h2 := minAtime_le hb k hk'
    have : a ≤ b := by simpa using hord
    omega
  · next hnone =>
    cases ha : maxAtime (rows.filter (fun r => removed.contains r.id)) with
    | none => rw [maxAtime_eq_none ha] at hr'; cases hr'
    | some a =>
      cases hb : minAtime (rows.filter (fun r => !removed.contains r.id)) with
      | none => rw [minAtime_eq_none hb] at hk'; cases hk'
      | some b => exact absurd hb (hnone a b ha)

theorem cleanup_frame {db db' : Db} (hinv : DbInv db) {s : Space} (hs : s ∈ Space.all) {u : Sub}
    (hu : u.valid = true) {m : Nat} {removed : List Nat} (h : cleanup db s u m removed = .ok db') :
    Frame db db' s u ∧ DbInv db' := by
  obtain ⟨hadm, rfl⟩ := cleanup_ok h
  refine ⟨frame_setIds db hs u fun id hid => ?_, ?_⟩
  · rw [lookup_eraseAll]; split
    · next hin =>
      obtain ⟨r, hr, rfl⟩ := admissible_subset hadm id hin
      obtain ⟨hrt, hf⟩ := mem_inSub.1 hr
      rw [member_of_row hinv hs hu hrt hf] at hid; cases hid
    · rfl
  · unfold Table.eraseAll; exact inv_filter hinv hs _

theorem cleanups_frame {s : Space} (hs : s ∈ Space.all) {u : Sub} (hu : u.valid = true) {db db' : Db}
    (hc : Cleanups s u db db') (hinv : DbInv db) : Frame db db' s u ∧ DbInv db' := by
  induction hc with
  | refl db => exact ⟨frame_refl db s u, hinv⟩
  | step m removed h _ ih =>
    obtain ⟨hf, hi⟩ := cleanup_frame hinv hs hu h
    obtain ⟨hf', hi'⟩ := ih hi
    exact ⟨frame_trans hf hf', hi'⟩

/-- clean-ups preserve the invariant even without validity assumptions -/
theorem cleanups_inv {s : Space} {u : Sub} {db db' : Db} (hc : Cleanups s u db db') (hs : s ∈ Space.all)
    (hinv : DbInv db) : DbInv db' := by
  induction hc with
  | refl db => exact hinv
  | step m removed h _ ih =>
    obtain ⟨_, rfl⟩ := cleanup_ok h
    exact ih (by unfold Table.eraseAll; exact inv_filter hinv hs _)

/-! ## the upload table does not interfere -/

theorem ids_with_uploads (db : Db) (x : List URow) (s : Space) : ({ db with uploads := x } : Db).ids s = db.ids s := by
  unfold Db.ids; split <;> rfl

theorem inv_with_uploads {db : Db} (hinv : DbInv db) {x : List URow} (hx : UKeysNodup x) :
    DbInv { db with uploads := x } where
  keys := fun s hs => by rw [ids_with_uploads]; exact hinv.keys s hs
  space := fun s hs r hr => by rw [ids_with_uploads] at hr; exact hinv.space s hs r hr
  ukeys := hx

theorem ukeys_filter {us : List URow} (p : URow → Bool) (h : UKeysNodup us) : UKeysNodup (us.filter p) := by
  unfold UKeysNodup at *
  exact (List.filter_sublist.map _).nodup h

theorem ukeys_uupsert {us : List URow} (r : URow) (h : UKeysNodup us) : UKeysNodup (uupsert us r) := by
  unfold uupsert UKeysNodup
  simp only [List.map_cons, List.nodup_cons]
  refine ⟨?_, ukeys_filter _ h⟩
  unfold uerase
  simp only [List.mem_map, List.mem_filter, Prod.mk.injEq, not_exists, not_and, and_imp]
  intro x _ hx h1 h2
  simp [h1, h2] at hx

end Tup.AllocLemmas
