import Tup.Lemmas.PhScrollToks
/-!
  The scrolling choreography assembled: complete outputs of the cursor-relative styles (save/restore, relative, line
  feeds through the tty's ONLCR) and of `to_stream_with_linefeeds`, on a terminal with the default scroll margins, for
  any start row — every line that was written moves up with the content when the bottom line is passed.
-/
namespace Tup.Ph
open Tup Tup.Spec

/-! ### what the written rows decode to -/

theorem decodeRow_rowCells (p : Placeholder) (m : Mode) (fmt : FmtT) (row : Nat)
    (hp : p.valid = true) (hm : m.valid = true) (hr : row < 297) (hsc : p.startCol < 297) (hfmt : BgOnly fmt) :
    decodeRow none (rowCells p m fmt row) =
      (List.range (p.endCol - p.startCol)).map fun j => some ⟨p.imageId, p.placementId, row, p.startCol + j⟩ := by
  simp only [Placeholder.valid, Bool.and_eq_true, decide_eq_true_eq] at hp
  simp only [Mode.valid, Bool.and_eq_true, decide_eq_true_eq] at hm
  obtain ⟨⟨⟨⟨_, hid⟩, hpid⟩, hlt⟩, _⟩ := hp
  simp only [rowCells, hr, if_true]
  rw [decodeRow_lineScreenCells p m fmt _ (by omega) hpid ⟨hm.1.1, hm.1.2⟩ hr hsc hlt hfmt, List.range'_eq_map_range]
  simp [List.map_map, Function.comp_def]

theorem rowCells_blank_ch (p : Placeholder) (m : Mode) (fmt : FmtT) (row : Nat) (hr : 297 ≤ row) :
    ∀ c ∈ rowCells p m fmt row, c.ch = 32 := by
  have : ¬ row < 297 := by omega
  simp only [rowCells, this, if_false]
  exact blankScreenCells_ch p fmt row

/-! ### reading the virtual screen -/

theorem vcellR_read (lf : Bool) (p : Placeholder) (m : Mode) (fmt : FmtT) (cx cy h : Nat) (cells : Nat → Nat → Cell)
    (row N i : Nat) (hlt : p.startCol < p.endCol) (hi : i < N) :
    ((List.range (p.endCol - p.startCol)).map fun j => vcellR lf p m fmt cx cy h cells row N (cy + i) (lcol lf cx i + j)) =
      rowCells p m fmt (row + i) := by
  apply List.ext_getElem
  · simp [rowCells_length p m fmt _ hlt]
  · intro j h1 h2
    have hj : j < p.endCol - p.startCol := by simpa using h1
    have e1 : cy + i - cy = i := by omega
    have e2 : lcol lf cx i + j - lcol lf cx i = j := by omega
    have hc : cy ≤ cy + i ∧ cy + i < cy + N ∧ lcol lf cx i ≤ lcol lf cx i + j ∧
        lcol lf cx i + j < lcol lf cx i + (p.endCol - p.startCol) := by omega
    simp only [List.getElem_map, List.getElem_range, vcellR, e1, hc, and_self, if_true, e2]
    simp [h2]

theorem vcellR_frame (lf : Bool) (p : Placeholder) (m : Mode) (fmt : FmtT) (cx cy h : Nat) (cells : Nat → Nat → Cell)
    (row N v x : Nat)
    (hn : ¬ (cy ≤ v ∧ v < cy + N ∧ lcol lf cx (v - cy) ≤ x ∧ x < lcol lf cx (v - cy) + (p.endCol - p.startCol))) :
    vcellR lf p m fmt cx cy h cells row N v x = if v < h then cells v x else Cell.blank := by
  simp only [vcellR, hn, if_false]

theorem vcellR_last (lf : Bool) (p : Placeholder) (m : Mode) (fmt : FmtT) (cx cy h : Nat) (cells : Nat → Nat → Cell)
    (row n v x : Nat) :
    vcellR lf p m fmt cx cy h cells row (n + 1) v x =
      if v = cy + n ∧ lcol lf cx n ≤ x ∧ x < lcol lf cx n + (p.endCol - p.startCol)
      then (rowCells p m fmt (row + n))[x - lcol lf cx n]?.getD Cell.blank
      else vcellR lf p m fmt cx cy h cells row n v x := by
  unfold vcellR
  by_cases hv : v = cy + n
  · subst hv
    have e1 : cy + n - cy = n := by omega
    have a1 : cy ≤ cy + n := by omega
    have a2 : cy + n < cy + (n + 1) := by omega
    have a3 : ¬ (cy + n < cy + n) := by omega
    simp only [e1, a1, a2, a3, true_and, false_and, if_false]
  · have a : (v < cy + (n + 1)) = (v < cy + n) := by simp; omega
    simp only [hv, false_and, if_false, a]

/-- **from the closed form of the screen to the statements of the choreography**: if the screen `cells'` is the window at
    offset `s` onto the virtual screen with `N` lines written from the cursor of `t`, then line `i` decodes / is blank at
    screen row `cy + i - s`, and everything else is the old content moved up by `s` (blank where lines scrolled in). -/
theorem choreo_of_vcell (lf : Bool) (p : Placeholder) (m : Mode) (fmt : FmtT) (t : Term) (N s : Nat)
    (cells' : Nat → Nat → Cell)
    (hp : p.valid = true) (hm : m.valid = true) (hsc : p.startCol < 297) (hfmt : BgOnly fmt)
    (hcells : ∀ y x, y < t.h → cells' y x = vcell lf p m fmt t p.startRow N (y + s) x)
    (hs : ∀ i < N, s ≤ t.cy + i → t.cy + i - s < t.h) :
    (∀ i < N, s ≤ t.cy + i → p.startRow + i < 297 →
      decodeRow none ((List.range (p.endCol - p.startCol)).map fun j => cells' (t.cy + i - s) (lcol lf t.cx i + j)) =
        (List.range (p.endCol - p.startCol)).map fun j => some ⟨p.imageId, p.placementId, p.startRow + i, p.startCol + j⟩) ∧
    (∀ i < N, s ≤ t.cy + i → 297 ≤ p.startRow + i → ∀ j < p.endCol - p.startCol,
      (cells' (t.cy + i - s) (lcol lf t.cx i + j)).ch = 32) ∧
    (∀ y x, y < t.h →
      ¬ (t.cy ≤ y + s ∧ y + s < t.cy + N ∧ lcol lf t.cx (y + s - t.cy) ≤ x ∧
          x < lcol lf t.cx (y + s - t.cy) + (p.endCol - p.startCol)) →
      cells' y x = if y + s < t.h then t.cells (y + s) x else Cell.blank) := by
  have hp' := hp
  simp only [Placeholder.valid, Bool.and_eq_true, decide_eq_true_eq] at hp'
  obtain ⟨⟨_, hlt⟩, _⟩ := hp'
  have hread : ∀ i < N, s ≤ t.cy + i →
      ((List.range (p.endCol - p.startCol)).map fun j => cells' (t.cy + i - s) (lcol lf t.cx i + j)) =
        rowCells p m fmt (p.startRow + i) := by
    intro i hi hsi
    rw [← vcellR_read lf p m fmt t.cx t.cy t.h t.cells p.startRow N i hlt hi]
    apply List.map_congr_left
    intro j _
    rw [hcells _ _ (hs i hi hsi)]
    have : t.cy + i - s + s = t.cy + i := by omega
    rw [this]
    rfl
  refine ⟨?_, ?_, ?_⟩
  · intro i hi hsi hrow
    rw [hread i hi hsi]
    exact decodeRow_rowCells p m fmt _ hp hm hrow hsc hfmt
  · intro i hi hsi hrow j hj
    have h := hread i hi hsi
    have hj' : j < ((List.range (p.endCol - p.startCol)).map fun j =>
        cells' (t.cy + i - s) (lcol lf t.cx i + j)).length := by simp [hj]
    have := List.getElem_of_eq h hj'
    simp only [List.getElem_map, List.getElem_range] at this
    rw [this]
    exact rowCells_blank_ch p m fmt _ hrow _ (List.getElem_mem _)
  · intro y x hy hn
    rw [hcells y x hy]
    exact vcellR_frame lf p m fmt t.cx t.cy t.h t.cells p.startRow N (y + s) x hn

/-! ### complete outputs -/

/-- the last line of `to_stream_at_cursor`: written at the cursor, nothing after it -/
def lastLine (p : Placeholder) (m : Mode) (fmt : FmtT) (row : Nat) (u : Term) : Term :=
  { writeRow u u.cy u.cx (rowCells p m fmt row) with cx := u.cx + (p.endCol - p.startCol), sgr := {} }

/-- `to_stream_at_cursor`, any of the three styles, as received by the terminal (`tty` applies ONLCR when line feeds are
    used) -/
theorem feed_atCursor (save lf : Bool) (t : Term) (p : Placeholder) (m : Mode) (fmt : FmtT)
    (hp : p.valid = true) (hsc : p.startCol < 297) (hfmt : BgOnly fmt) (hs : Scr t)
    (hw : t.cx + (p.endCol - p.startCol) ≤ t.w)
    (hcub : lf = false → save = false → (t.cfg.cubFromW = true ∨ t.cx + (p.endCol - p.startCol) < t.w)) :
    t.feedAll ((if lf then onlcr else id) (streamToks (.atCursor save lf) (p.endCol - p.startCol) (p.lineToksAll m fmt))) =
      lastLine p m fmt (p.startRow + (p.endRow - p.startRow - 1))
        (scrRes save lf p m fmt (p.endRow - p.startRow - 1) p.startRow t) := by
  simp only [Placeholder.valid, Bool.and_eq_true, decide_eq_true_eq] at hp
  obtain ⟨⟨_, hlt⟩, hrows⟩ := hp
  have hlast : p.endRow - 1 = p.startRow + (p.endRow - p.startRow - 1) := by omega
  rw [lineToksAll_ne_nil p m fmt hrows, streamToks_atCursor_snoc, hlast]
  have hfeed : ∀ toks, toks = ((List.range' p.startRow (p.endRow - p.startRow - 1)).map (lineToks p m fmt)).flatMap
        (stepToksT save lf (p.endCol - p.startCol)) ++ lineToks p m fmt (p.startRow + (p.endRow - p.startRow - 1)) →
      t.feedAll toks = lastLine p m fmt (p.startRow + (p.endRow - p.startRow - 1))
        (scrRes save lf p m fmt (p.endRow - p.startRow - 1) p.startRow t) := by
    intro toks e
    rw [e, feedAll_append, feed_scr save lf p m fmt hsc hlt hfmt _ _ t hs hw hcub]
    obtain ⟨h1, _, _, _, _, h6, _, _⟩ := scrRes_spec save lf p m fmt (p.endRow - p.startRow - 1) p.startRow t hs
    rw [feed_anyline _ p m fmt _ hsc hlt hfmt (by rw [h6, h1]; have := lcol_le lf t.cx (p.endRow - p.startRow - 1); omega)]
    rfl
  apply hfeed
  cases lf with
  | true =>
    simp only [if_true]
    rw [onlcr_steps save _ _ _ (by
      intro l hl
      simp only [List.mem_map] at hl
      obtain ⟨row, _, rfl⟩ := hl
      exact lineToks_noLF p m fmt row hsc hfmt)]
    rw [onlcr_noLF _ (lineToks_noLF p m fmt _ hsc hfmt)]
  | false =>
    simp only [Bool.false_eq_true, if_false, id]
    congr 1

/-- `to_stream_with_linefeeds` as received by the terminal -/
theorem feed_linefeeds (t : Term) (p : Placeholder) (m : Mode) (fmt : FmtT)
    (hp : p.valid = true) (hsc : p.startCol < 297) (hfmt : BgOnly fmt) (hs : Scr t)
    (hw : t.cx + (p.endCol - p.startCol) ≤ t.w) :
    t.feedAll (onlcr (linefeedToks (p.lineToksAll m fmt))) =
      scrRes false true p m fmt (p.endRow - p.startRow) p.startRow t := by
  simp only [Placeholder.valid, Bool.and_eq_true, decide_eq_true_eq] at hp
  obtain ⟨⟨_, hlt⟩, _⟩ := hp
  rw [linefeedToks_eq false (p.endCol - p.startCol)]
  have := onlcr_steps false (p.endCol - p.startCol) (p.lineToksAll m fmt) [] (by
    intro l hl
    simp only [Placeholder.lineToksAll, List.mem_map] at hl
    obtain ⟨row, _, rfl⟩ := hl
    exact lineToks_noLF p m fmt row hsc hfmt)
  simp only [List.append_nil, onlcr] at this
  rw [this]
  exact feed_scr false true p m fmt hsc hlt hfmt _ _ t hs hw (by intro h; cases h)

/-- the screen after the last line, in closed form -/
theorem lastLine_cells (save lf : Bool) (p : Placeholder) (m : Mode) (fmt : FmtT) (hlt : p.startCol < p.endCol)
    (n row : Nat) (t : Term) (hs : Scr t) (y' x' : Nat) :
    (lastLine p m fmt (row + n) (scrRes save lf p m fmt n row t)).cells y' x' =
      if y' < t.h then vcell lf p m fmt t row (n + 1) (y' + (t.cy + (n + 1) - t.h)) x' else t.cells y' x' := by
  obtain ⟨_, _, _, _, _, h6, h7, _⟩ := scrRes_spec save lf p m fmt n row t hs
  have hcy := hs.cy
  have es : t.cy + (n + 1) - t.h = t.cy + n - (t.h - 1) := by omega
  show (writeRow _ _ _ _).cells y' x' = _
  rw [writeRow_cells, rowCells_length p m fmt _ hlt, scrRes_cells save lf p m fmt hlt n row t hs, h6, h7, es]
  by_cases hy : y' < t.h
  · simp only [hy, if_true, vcell]
    rw [vcellR_last]
    have e : (y' = min (t.cy + n) (t.h - 1)) = (y' + (t.cy + n - (t.h - 1)) = t.cy + n) := by simp; omega
    simp only [e]
  · have : ¬ (y' = min (t.cy + n) (t.h - 1)) := by omega
    simp only [hy, this, false_and, if_false]

theorem scrRes_sgr_lf (save : Bool) (p : Placeholder) (m : Mode) (fmt : FmtT) : ∀ (n row : Nat) (t : Term),
    (scrRes save true p m fmt (n + 1) row t).sgr = {} := by
  intro n
  induction n with
  | zero =>
    intro row t
    simp only [scrRes, scrStep]
    rw [index_sgr]
    rfl
  | succ n ih =>
    intro row t
    rw [scrRes]
    exact ih (row + 1) _

/-- **choreography of `to_stream_at_cursor`, all three cursor-relative styles, scrolling included** (general form: line `i`
    starts at column `lcol lf cx i`) -/
theorem choreo_atCursor_gen (save lf : Bool) (t : Term) (p : Placeholder) (m : Mode) (fmt : FmtT)
    (hp : p.valid = true) (hm : m.valid = true) (hsc : p.startCol < 297) (hfmt : BgOnly fmt) (hs : Scr t)
    (hw : t.cx + (p.endCol - p.startCol) ≤ t.w)
    (hcub : lf = false → save = false → (t.cfg.cubFromW = true ∨ t.cx + (p.endCol - p.startCol) < t.w)) :
    let t' := t.feedAll ((if lf then onlcr else id)
      (streamToks (.atCursor save lf) (p.endCol - p.startCol) (p.lineToksAll m fmt)))
    let s := t.cy + (p.endRow - p.startRow) - t.h
    (∀ i < p.endRow - p.startRow, s ≤ t.cy + i → p.startRow + i < 297 →
      decodeRow none ((List.range (p.endCol - p.startCol)).map fun j => t'.cells (t.cy + i - s) (lcol lf t.cx i + j)) =
        (List.range (p.endCol - p.startCol)).map fun j => some ⟨p.imageId, p.placementId, p.startRow + i, p.startCol + j⟩) ∧
    (∀ i < p.endRow - p.startRow, s ≤ t.cy + i → 297 ≤ p.startRow + i → ∀ j < p.endCol - p.startCol,
      (t'.cells (t.cy + i - s) (lcol lf t.cx i + j)).ch = 32) ∧
    (∀ y x, y < t.h →
      ¬ (t.cy ≤ y + s ∧ y + s < t.cy + (p.endRow - p.startRow) ∧ lcol lf t.cx (y + s - t.cy) ≤ x ∧
          x < lcol lf t.cx (y + s - t.cy) + (p.endCol - p.startCol)) →
      t'.cells y x = if y + s < t.h then t.cells (y + s) x else Cell.blank) ∧
    t'.cx = lcol lf t.cx (p.endRow - p.startRow - 1) + (p.endCol - p.startCol) ∧
    t'.cy = min (t.cy + (p.endRow - p.startRow) - 1) (t.h - 1) ∧ t'.sgr = {} ∧
    t'.scrolled = t.scrolled + (s : Int) := by
  have hp' := hp
  simp only [Placeholder.valid, Bool.and_eq_true, decide_eq_true_eq] at hp'
  obtain ⟨⟨_, hlt⟩, hrw⟩ := hp'
  obtain ⟨n, hn⟩ : ∃ n, p.endRow - p.startRow = n + 1 := ⟨p.endRow - p.startRow - 1, by omega⟩
  intro t' s
  have ht' : t' = lastLine p m fmt (p.startRow + n) (scrRes save lf p m fmt n p.startRow t) := by
    have := feed_atCursor save lf t p m fmt hp hsc hfmt hs hw hcub
    rw [hn] at this
    exact this
  have hcy := hs.cy
  obtain ⟨_, _, _, _, _, h6, h7, h8⟩ := scrRes_spec save lf p m fmt n p.startRow t hs
  have hch := choreo_of_vcell lf p m fmt t (n + 1) s t'.cells hp hm hsc hfmt
    (by
      intro y x hy
      rw [ht', lastLine_cells save lf p m fmt hlt n p.startRow t hs y x]
      simp only [hy, if_true, s, hn])
    (by intro i hi hsi; simp only [s, hn] at hsi ⊢; omega)
  rw [hn]
  refine ⟨hch.1, hch.2.1, hch.2.2, ?_, ?_, ?_, ?_⟩
  · rw [ht']
    show (scrRes save lf p m fmt n p.startRow t).cx + _ = _
    rw [h6]
    simp
  · rw [ht']
    show (writeRow _ _ _ _).cy = _
    rw [writeRow_cy, h7]
    omega
  · rw [ht']; rfl
  · rw [ht']
    show (writeRow _ _ _ _).scrolled = _
    rw [writeRow_eq]
    show (scrRes save lf p m fmt n p.startRow t).scrolled = _
    rw [h8]
    have : t.cy + n - (t.h - 1) = s := by simp only [s, hn]; omega
    rw [this]

/-- **choreography of `to_stream_with_linefeeds`** through the tty's ONLCR: every line, the last one included, is followed
    by CR LF -/
theorem choreo_linefeeds_gen (t : Term) (p : Placeholder) (m : Mode) (fmt : FmtT)
    (hp : p.valid = true) (hm : m.valid = true) (hsc : p.startCol < 297) (hfmt : BgOnly fmt) (hs : Scr t)
    (hw : t.cx + (p.endCol - p.startCol) ≤ t.w) :
    let t' := t.feedAll (onlcr (linefeedToks (p.lineToksAll m fmt)))
    let s := t.cy + (p.endRow - p.startRow) + 1 - t.h
    (∀ i < p.endRow - p.startRow, s ≤ t.cy + i → p.startRow + i < 297 →
      decodeRow none ((List.range (p.endCol - p.startCol)).map fun j => t'.cells (t.cy + i - s) (lcol true t.cx i + j)) =
        (List.range (p.endCol - p.startCol)).map fun j => some ⟨p.imageId, p.placementId, p.startRow + i, p.startCol + j⟩) ∧
    (∀ i < p.endRow - p.startRow, s ≤ t.cy + i → 297 ≤ p.startRow + i → ∀ j < p.endCol - p.startCol,
      (t'.cells (t.cy + i - s) (lcol true t.cx i + j)).ch = 32) ∧
    (∀ y x, y < t.h →
      ¬ (t.cy ≤ y + s ∧ y + s < t.cy + (p.endRow - p.startRow) ∧ lcol true t.cx (y + s - t.cy) ≤ x ∧
          x < lcol true t.cx (y + s - t.cy) + (p.endCol - p.startCol)) →
      t'.cells y x = if y + s < t.h then t.cells (y + s) x else Cell.blank) ∧
    t'.cx = 0 ∧ t'.cy = min (t.cy + (p.endRow - p.startRow)) (t.h - 1) ∧ t'.sgr = {} ∧
    t'.scrolled = t.scrolled + (s : Int) := by
  have hp' := hp
  simp only [Placeholder.valid, Bool.and_eq_true, decide_eq_true_eq] at hp'
  obtain ⟨⟨_, hlt⟩, hrw⟩ := hp'
  obtain ⟨n, hn⟩ : ∃ n, p.endRow - p.startRow = n + 1 := ⟨p.endRow - p.startRow - 1, by omega⟩
  intro t' s
  have ht' : t' = scrRes false true p m fmt (n + 1) p.startRow t := by
    have := feed_linefeeds t p m fmt hp hsc hfmt hs hw
    rw [hn] at this
    exact this
  have hcy := hs.cy
  obtain ⟨_, _, _, _, _, h6, h7, h8⟩ := scrRes_spec false true p m fmt (n + 1) p.startRow t hs
  have es : t.cy + (n + 1) - (t.h - 1) = s := by simp only [s, hn]; omega
  have hch := choreo_of_vcell true p m fmt t (n + 1) s t'.cells hp hm hsc hfmt
    (by
      intro y x hy
      rw [ht', scrRes_cells false true p m fmt hlt (n + 1) p.startRow t hs y x]
      simp only [hy, if_true, es])
    (by intro i hi hsi; simp only [s, hn] at hsi ⊢; omega)
  rw [hn]
  refine ⟨hch.1, hch.2.1, hch.2.2, ?_, ?_, ?_, ?_⟩
  · rw [ht', h6, lcol_succ]; rfl
  · rw [ht', h7]
  · rw [ht']; exact scrRes_sgr_lf false p m fmt n p.startRow t
  · rw [ht', h8, es]

end Tup.Ph
