import Tup.Model.Command
import Tup.Spec.GfxParse
import Tup.Lemmas.Base64
/-!
  Basic facts about serialised commands: every header item has a letter key and a non-empty
  value of letters/digits, hence the content (header + `;` + base64) contains no ESC and the
  header no `;`.  Core Lean only.
-/
namespace Tup.Command
open Tup Tup.Spec.GfxParse

/-- value bytes acceptable to the protocol parser: non-empty, letters / digits / '-' -/
def GoodVal (v : Bytes) : Prop := v ≠ [] ∧ ∀ c ∈ v, isValueChar c = true

def GoodPair (p : UInt8 × HVal) : Prop := isLetter p.1 = true ∧ GoodVal p.2.render

theorem valueChar_ne {c : UInt8} (h : isValueChar c = true) : c ≠ 27 ∧ c ≠ 44 ∧ c ≠ 59 ∧ c ≠ 61 := by
  refine ⟨?_, ?_, ?_, ?_⟩ <;> (intro e; subst e; revert h; decide)

theorem letter_ne {c : UInt8} (h : isLetter c = true) : c ≠ 27 ∧ c ≠ 44 ∧ c ≠ 59 ∧ c ≠ 61 := by
  refine ⟨?_, ?_, ?_, ?_⟩ <;> (intro e; subst e; revert h; decide)

theorem digit_valueChar (c : Char) (h : c.isDigit = true) : isValueChar (UInt8.ofNat c.toNat) = true := by
  have h1 : 48 ≤ c.toNat ∧ c.toNat ≤ 57 := by
    simp only [Char.isDigit, Bool.and_eq_true, decide_eq_true_eq] at h
    exact ⟨h.1, h.2⟩
  have h2 : (UInt8.ofNat c.toNat).toNat = c.toNat := by
    simp only [UInt8.toNat_ofNat']; omega
  simp only [isValueChar, isLetter, h2, Bool.or_eq_true, Bool.and_eq_true, decide_eq_true_eq]
  omega

theorem natToDec_good (n : Nat) : GoodVal (natToDec n) := by
  constructor
  · simp [natToDec, Nat.toDigits_ne_nil]
  · intro c hc
    simp only [natToDec, List.mem_map] at hc
    obtain ⟨ch, hch, rfl⟩ := hc
    exact digit_valueChar ch (Nat.isDigit_of_mem_toDigits (by decide) (by decide) hch)

theorem char_good (c : UInt8) (h : isValueChar c = true) : GoodVal [c] := by
  constructor
  · simp
  · intro x hx; simp at hx; subst hx; exact h

theorem nInt_good (n : Nat) : GoodVal (nInt n).render := natToDec_good n
theorem nBool_good (b : Bool) : GoodVal (nBool b).render := natToDec_good _
theorem nChar_good (c : UInt8) (h : isValueChar c = true) : GoodVal (nChar c).render := char_good c h

theorem medium_valueChar (m : Medium) : isValueChar m.value = true := by cases m <;> decide
theorem compression_valueChar (m : Compression) : isValueChar m.value = true := by cases m <;> decide
theorem what_valueChar (w : WhatToDelete) : isValueChar w.value = true := by cases w <;> decide
theorem what_upper_valueChar (w : WhatToDelete) : isValueChar (upper w.value) = true := by cases w <;> decide

/-- membership in one optional header entry -/
theorem mem_hp {k : UInt8} {v : Option HVal} {p : UInt8 × HVal} (h : p ∈ hp k v) : p.1 = k ∧ v = some p.2 := by
  cases v with
  | none => simp [hp] at h
  | some x => simp [hp] at h; subst h; simp

theorem hp_good {k : UInt8} {v : Option HVal} (hk : isLetter k = true) (hv : ∀ x, v = some x → GoodVal x.render) :
    ∀ p ∈ hp k v, GoodPair p := by
  intro p hp'
  obtain ⟨h1, h2⟩ := mem_hp hp'
  exact ⟨by rw [h1]; exact hk, hv _ h2⟩

theorem map_good {α} {f : α → HVal} (o : Option α) (hf : ∀ a, GoodVal (f a).render) :
    ∀ x, o.map f = some x → GoodVal x.render := by
  intro x hx
  cases o with
  | none => simp at hx
  | some a => simp at hx; subst hx; exact hf a

theorem forall_mem_append {α} {P : α → Prop} {l1 l2 : List α} (h1 : ∀ p ∈ l1, P p) (h2 : ∀ p ∈ l2, P p) :
    ∀ p ∈ l1 ++ l2, P p := by
  intro p hp; rcases List.mem_append.mp hp with h | h
  · exact h1 p h
  · exact h2 p h

theorem placement_pairs_good (p : Placement) : ∀ q ∈ p.pairs, GoodPair q := by
  unfold Placement.pairs
  repeat' apply forall_mem_append
  all_goals
    first
    | exact hp_good (by decide) (map_good _ nInt_good)
    | exact hp_good (by decide) (map_good _ nBool_good)

theorem transmit_action_good (t : Transmit) : ∀ x, t.action = some x → GoodVal x.render := by
  intro x hx
  unfold Transmit.action at hx
  split at hx
  · simp at hx
  · simp at hx; subst hx
    apply nChar_good
    split
    · decide
    · split <;> decide

theorem transmit_pairs_good (t : Transmit) : ∀ q ∈ t.pairs, GoodPair q := by
  unfold Transmit.pairs
  repeat' apply forall_mem_append
  all_goals
    first
    | exact hp_good (by decide) (map_good _ nInt_good)
    | exact hp_good (by decide) (map_good _ nBool_good)
    | exact hp_good (by decide) (map_good _ (fun m => nChar_good _ (medium_valueChar m)))
    | exact hp_good (by decide) (map_good _ (fun m => nChar_good _ (compression_valueChar m)))
    | exact hp_good (by decide) (map_good _ (fun q => nInt_good _))
    | exact hp_good (by decide) (transmit_action_good t)
    | (cases t.placement with
       | none => intro q hq; simp at hq
       | some p => exact placement_pairs_good p)

theorem moreData_pairs_good (m : MoreData) : ∀ q ∈ m.pairs, GoodPair q := by
  unfold MoreData.pairs
  repeat' apply forall_mem_append
  all_goals
    first
    | exact hp_good (by decide) (map_good _ nInt_good)
    | exact hp_good (by decide) (map_good _ nBool_good)

theorem raw_letter_good (c : UInt8) (h : isValueChar c = true) : ∀ x, some (HVal.raw [c]) = some x → GoodVal x.render := by
  intro x hx; simp at hx; subst hx; exact char_good c h

theorem put_pairs_good (p : Put) : ∀ q ∈ p.pairs, GoodPair q := by
  unfold Put.pairs
  repeat' apply forall_mem_append
  all_goals
    first
    | exact hp_good (by decide) (map_good _ nInt_good)
    | exact hp_good (by decide) (map_good _ (fun q => nInt_good _))
    | exact hp_good (by decide) (raw_letter_good _ (by decide))
    | exact placement_pairs_good _

theorem delete_whatStr_good (d : Delete) : ∀ x, d.whatStr = some x → GoodVal x.render := by
  unfold Delete.whatStr
  apply map_good
  intro w
  apply nChar_good
  split
  · exact what_upper_valueChar w
  · exact what_valueChar w

theorem delete_pairs_good (d : Delete) : ∀ q ∈ d.pairs, GoodPair q := by
  unfold Delete.pairs
  repeat' apply forall_mem_append
  all_goals
    first
    | exact hp_good (by decide) (map_good _ nInt_good)
    | exact hp_good (by decide) (map_good _ (fun q => nInt_good _))
    | exact hp_good (by decide) (raw_letter_good _ (by decide))
    | exact hp_good (by decide) (delete_whatStr_good d)

/-- Every header item of every command has a letter key and a well-formed value. -/
theorem headerPairs_good (c : GCmd) : ∀ q ∈ headerPairs c, GoodPair q := by
  cases c with
  | transmit t => exact transmit_pairs_good t
  | moreData m => exact moreData_pairs_good m
  | put p => exact put_pairs_good p
  | delete d => exact delete_pairs_good d

/-! ### consequences for the byte form -/

theorem kvBytes_no (p : UInt8 × HVal) (h : GoodPair p) (x : UInt8) (hx : x = 27 ∨ x = 44 ∨ x = 59) : x ∉ kvBytes p := by
  intro hm
  simp only [kvBytes, List.mem_cons] at hm
  have hl := letter_ne h.1
  rcases hm with e | e | e
  · rcases hx with r | r | r <;> simp_all
  · rcases hx with r | r | r <;> (subst r; revert e; decide)
  · have hv := valueChar_ne (h.2.2 x e)
    rcases hx with r | r | r <;> simp_all

theorem joinComma_no (parts : List Bytes) (x : UInt8) (hx : x ≠ 44) (h : ∀ p ∈ parts, x ∉ p) : x ∉ joinComma parts := by
  induction parts with
  | nil => simp [joinComma]
  | cons a rest ih =>
    cases rest with
    | nil => simpa [joinComma] using h a (by simp)
    | cons b r =>
      simp only [joinComma, List.mem_append, List.mem_cons, not_or]
      refine ⟨h a (by simp), hx, ?_⟩
      exact ih (fun p hp => h p (by simp [hp]))

theorem headerBytes_no (c : GCmd) (x : UInt8) (hx : x = 27 ∨ x = 59) : x ∉ headerBytes c := by
  unfold headerBytes
  apply joinComma_no
  · rcases hx with r | r <;> (subst r; decide)
  · intro p hp
    simp only [List.mem_map] at hp
    obtain ⟨q, hq, rfl⟩ := hp
    exact kvBytes_no q (headerPairs_good c q hq) x (by rcases hx with r | r <;> simp [r])

/-- C11 `content_no_esc`: header and base64 bytes never contain ESC. -/
theorem contentBytes_no_esc (c : GCmd) : ESC ∉ contentBytes c := by
  unfold contentBytes encodedPayload
  cases rawPayload c with
  | none => exact headerBytes_no c 27 (Or.inl rfl)
  | some d =>
    simp only [Option.map_some, List.mem_append, List.mem_cons, not_or]
    exact ⟨headerBytes_no c 27 (Or.inl rfl), by decide, esc_not_mem_b64enc d⟩

end Tup.Command
