import Tup.Lemmas.Txn
import Tup.Props.C01
/-!
  Helper lemmas for C03 / C12, part 2: the global system — one scheduled step, whole schedules,
  the linearisation `linOf`, the shape of each request's contribution, results, the invariant,
  termination measure. Core Lean only.
-/
namespace Tup.TxnLemmas
open Tup Tup.Txn Tup.DbLemmas Tup.IdLemmas Tup.AllocLemmas Tup.Spec.AllocStep

/-! ## one scheduled step -/

theorem sysStep_none {cfg : Cfg} {st : Sys} {i : Nat} (h : st.procs[i]? = none) : sysStep cfg st i = st := by
  simp [sysStep, sysStepG, h]

theorem sysStep_some {cfg : Cfg} {st : Sys} {i : Nat} {p : PState} (h : st.procs[i]? = some p) :
    sysStep cfg st i = ⟨st.procs.set i (pstepT cfg p st.db).1, (pstepT cfg p st.db).2⟩ := by
  simp [sysStep, sysStepG, h, pstepT]

theorem sysStep_procs_ne {cfg : Cfg} {st : Sys} {i j : Nat} (hij : i ≠ j) :
    (sysStep cfg st i).procs[j]? = st.procs[j]? := by
  cases h : st.procs[i]? with
  | none => rw [sysStep_none h]
  | some p => rw [sysStep_some h]; simp [List.getElem?_set_ne hij]

theorem sysStep_procs_self {cfg : Cfg} {st : Sys} {i : Nat} {p : PState} (h : st.procs[i]? = some p) :
    (sysStep cfg st i).procs[i]? = some (pstepT cfg p st.db).1 := by
  rw [sysStep_some h]
  have hlt : i < st.procs.length := by
    rcases Nat.lt_or_ge i st.procs.length with hl | hl
    · exact hl
    · rw [List.getElem?_eq_none hl] at h; cases h
  simp [List.getElem?_set_self hlt]

theorem sysStep_db {cfg : Cfg} {st : Sys} {i : Nat} {p : PState} (h : st.procs[i]? = some p) :
    (sysStep cfg st i).db = (pstepT cfg p st.db).2 := by
  rw [sysStep_some h]

theorem sysStep_length (cfg : Cfg) (st : Sys) (i : Nat) : (sysStep cfg st i).procs.length = st.procs.length := by
  cases h : st.procs[i]? with
  | none => rw [sysStep_none h]
  | some p => rw [sysStep_some h]; simp

@[simp] theorem runSched_nil (cfg : Cfg) (st : Sys) : runSched cfg st [] = st := rfl

@[simp] theorem runSched_cons (cfg : Cfg) (st : Sys) (i : Nat) (sched : List Nat) :
    runSched cfg st (i :: sched) = runSched cfg (sysStep cfg st i) sched := rfl

theorem runSched_append (cfg : Cfg) (st : Sys) (a b : List Nat) :
    runSched cfg st (a ++ b) = runSched cfg (runSched cfg st a) b := by
  simp [runSched, List.foldl_append]

theorem run_append (cfg : Cfg) (a b : List Op) (db : Db) : run cfg (a ++ b) db = run cfg b (run cfg a db) := by
  simp [run, List.foldl_append]

/-! ## the operations of one step -/

/-- the `(operation, own?)` entries contributed by one block of `p` on `db` -/
def stepOps (cfg : Cfg) (p : PState) (db : Db) : List (Op × Bool) :=
  match pstep cfg p db with
  | .error _ => []
  | .ok _ => match effOp cfg p db with
    | none => []
    | some op => [(op, p.ownStep)]

theorem stepLin_none {cfg : Cfg} {st : Sys} {i : Nat} (h : st.procs[i]? = none) : stepLin cfg st i = [] := by
  simp [stepLin, h]

theorem stepLin_some {cfg : Cfg} {st : Sys} {i : Nat} {p : PState} (h : st.procs[i]? = some p) :
    stepLin cfg st i = (stepOps cfg p st.db).map (fun x => ⟨i, x.1, x.2⟩) := by
  unfold stepLin stepOps
  simp only [h]
  cases pstep cfg p st.db with
  | error e => rfl
  | ok x => cases effOp cfg p st.db <;> rfl

theorem stepLin_pid {cfg : Cfg} {st : Sys} {i : Nat} : ∀ e ∈ stepLin cfg st i, e.pid = i := by
  intro e he
  cases h : st.procs[i]? with
  | none => rw [stepLin_none h] at he; cases he
  | some p =>
    rw [stepLin_some h] at he
    obtain ⟨x, _, rfl⟩ := List.mem_map.1 he
    rfl

/-- the database after a scheduled step = the step's operations applied sequentially -/
theorem sysStep_db_eq_run (cfg : Cfg) (st : Sys) (i : Nat) :
    (sysStep cfg st i).db = run cfg ((stepLin cfg st i).map (·.op)) st.db := by
  cases h : st.procs[i]? with
  | none => rw [sysStep_none h, stepLin_none h]; rfl
  | some p =>
    rw [sysStep_db h, stepLin_some h]
    unfold stepOps
    cases hp : pstep cfg p st.db with
    | error e => simp [pstepT_error hp, run]
    | ok x =>
      obtain ⟨p', db'⟩ := x
      rw [pstepT_ok hp]
      rcases step_full hp with ⟨hn, hdb⟩ | ⟨op, ho, hdb, _⟩
      · simp [hn, hdb, run]
      · simp [ho, hdb, run]

theorem linOf_cons (cfg : Cfg) (st : Sys) (i : Nat) (sched : List Nat) :
    linOf cfg st (i :: sched) = stepLin cfg st i ++ linOf cfg (sysStep cfg st i) sched := rfl

/-- **final database = sequential run of the effective operations in schedule order** -/
theorem runSched_db_eq_run (cfg : Cfg) (st : Sys) (sched : List Nat) :
    (runSched cfg st sched).db = run cfg ((linOf cfg st sched).map (·.op)) st.db := by
  induction sched generalizing st with
  | nil => rfl
  | cons i sched ih =>
    rw [runSched_cons, ih, linOf_cons, List.map_append, run_append, sysStep_db_eq_run]

theorem linOf_append (cfg : Cfg) (st : Sys) (a b : List Nat) :
    linOf cfg st (a ++ b) = linOf cfg st a ++ linOf cfg (runSched cfg st a) b := by
  induction a generalizing st with
  | nil => rfl
  | cons i a ih => simp [linOf_cons, ih, List.append_assoc]

/-! ## the invariant -/

theorem pstep_inv {cfg : Cfg} {p p' : PState} {db db' : Db} (hinv : DbInv db)
    (h : pstep cfg p db = .ok (p', db')) : DbInv db' := by
  rcases step_full h with ⟨_, hdb⟩ | ⟨op, _, hdb, _⟩
  · rw [hdb]; exact hinv
  · rw [hdb]; exact C01.applyOp_inv cfg hinv op

theorem pstepT_inv {cfg : Cfg} {p : PState} {db : Db} (hinv : DbInv db) : DbInv (pstepT cfg p db).2 := by
  cases hp : pstep cfg p db with
  | error e => rw [pstepT_error hp]; exact hinv
  | ok x => obtain ⟨p', db'⟩ := x; rw [pstepT_ok hp]; exact pstep_inv hinv hp

theorem sysStep_inv {cfg : Cfg} {st : Sys} (hinv : DbInv st.db) (i : Nat) : DbInv (sysStep cfg st i).db := by
  cases h : st.procs[i]? with
  | none => rw [sysStep_none h]; exact hinv
  | some p => rw [sysStep_db h]; exact pstepT_inv hinv

theorem runSched_inv {cfg : Cfg} {st : Sys} (hinv : DbInv st.db) (sched : List Nat) :
    DbInv (runSched cfg st sched).db := by
  induction sched generalizing st with
  | nil => exact hinv
  | cons i sched ih => exact ih (sysStep_inv hinv i)

theorem lone_inv {cfg : Cfg} {p : PState} {db : Db} (hinv : DbInv db) (k : Nat) : DbInv (lone cfg k p db).2 := by
  induction k generalizing p db with
  | zero => exact hinv
  | succ k ih => exact ih (pstepT_inv hinv)

/-! ## a process alone = a schedule that names only it -/

theorem runSched_replicate {cfg : Cfg} {st : Sys} {i : Nat} {p : PState} (h : st.procs[i]? = some p) (k : Nat) :
    (runSched cfg st (List.replicate k i)).db = (lone cfg k p st.db).2 ∧
    (runSched cfg st (List.replicate k i)).procs[i]? = some (lone cfg k p st.db).1 ∧
    ∀ j, j ≠ i → (runSched cfg st (List.replicate k i)).procs[j]? = st.procs[j]? := by
  induction k generalizing st p with
  | zero => exact ⟨rfl, h, fun _ _ => rfl⟩
  | succ k ih =>
    rw [List.replicate_succ, runSched_cons]
    obtain ⟨h1, h2, h3⟩ := ih (sysStep_procs_self (cfg := cfg) h)
    rw [sysStep_db h] at h1 h2
    refine ⟨h1, h2, fun j hj => ?_⟩
    rw [h3 j hj, sysStep_procs_ne (Ne.symm hj)]

/-! ## finished processes stay finished -/

theorem sysStep_finished {cfg : Cfg} {st : Sys} {j : Nat} {r : Result} (h : st.procs[j]? = some (.finished r))
    (i : Nat) : (sysStep cfg st i).procs[j]? = some (.finished r) := by
  by_cases hij : i = j
  · subst hij; rw [sysStep_procs_self h]; simp
  · rw [sysStep_procs_ne hij]; exact h

theorem runSched_finished {cfg : Cfg} {st : Sys} {j : Nat} {r : Result} (h : st.procs[j]? = some (.finished r))
    (sched : List Nat) : (runSched cfg st sched).procs[j]? = some (.finished r) := by
  induction sched generalizing st with
  | nil => exact h
  | cons i sched ih => exact ih (sysStep_finished h i)

/-! ## termination measure -/

theorem remaining_read (cfg : Cfg) {p : PState} (db : Db) (hr : isRead p = true) :
    (pstepT cfg p db).1.remaining ≤ p.remaining - 1 := by
  cases p <;> simp [isRead] at hr
  case needsInfo id term thr now =>
    simp only [pstepT, pstep, pstepG, PState.wf, Bool.not_true, Bool.false_eq_true, ↓reduceIte]
    split <;> simp [totalOf, PState.remaining]
  case needsRow id term thr now desc =>
    simp only [pstepT, pstep, pstepG, PState.wf, Bool.not_true, Bool.false_eq_true, ↓reduceIte]
    split <;> simp [totalOf, PState.remaining]
  case needsAgo id term thr now desc r =>
    simp [pstepT, pstep, pstepG, PState.wf, totalOf, PState.remaining]
  case needs id term thr now =>
    simp only [pstepT, pstep, pstepG, PState.wf, Bool.not_true, Bool.false_eq_true, ↓reduceIte]
    split <;> simp [totalOf, PState.remaining]
  case uinfo id term =>
    simp [pstepT, pstep, pstepG, PState.wf, totalOf, PState.remaining]
  case info id =>
    simp only [pstepT, pstep, pstepG, PState.wf, Bool.not_true, Bool.false_eq_true, ↓reduceIte]
    split <;> simp [totalOf, PState.remaining]
  case count todo u acc =>
    match todo with
    | [] => simp [pstepT, pstep, pstepG, PState.wf, totalOf, PState.remaining]
    | [s] => simp [pstepT, pstep, pstepG, PState.wf, totalOf, PState.remaining]
    | s :: s' :: todo => simp [pstepT, pstep, pstepG, PState.wf, totalOf, PState.remaining]
  case finished r => simp [PState.remaining]

theorem remaining_step (cfg : Cfg) (p : PState) (db : Db) :
    (pstepT cfg p db).1.remaining ≤ p.remaining - 1 := by
  cases hp : pstep cfg p db with
  | error e => rw [pstepT_error hp]; simp [PState.remaining]
  | ok x =>
    obtain ⟨p', db'⟩ := x
    have hc := pstep_cases hp
    generalize effOp cfg p db = o at hc
    cases hc with
    | read hp1 hp2 => exact remaining_read cfg db hp1
    | _ => rw [pstepT_ok hp]; simp [PState.remaining, fracs]; try omega

theorem remaining_zero {p : PState} (h : p.remaining = 0) : ∃ r, p = .finished r := by
  cases p <;> simp [PState.remaining] at h
  exact ⟨_, rfl⟩

end Tup.TxnLemmas
