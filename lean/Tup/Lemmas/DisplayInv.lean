import Tup.Lemmas.DisplayList
import Tup.Props.C02
import Tup.Props.C04
/-!
  The simulation invariant of C08 between the upload table and the ghost arrival logs (`Rel`), its
  preservation by every step of `Model.Display`, and what one `upload` establishes (`upload_spec`).

  `Rel` is an inequality "in the safe direction": every record of the table is the *latest* arrival of its
  id at its terminal, and every image that arrived *later* at that terminal still has its record. Records
  may be missing for *older* arrivals (an upload-table clean-up drops oldest first), never for newer ones —
  so the table counts at least what the terminal counts (`later_le_table`).
-/
namespace Tup.Display
open Tup Tup.Spec Tup.DbLemmas Tup.IdLemmas Tup.AllocLemmas Tup.Spec.AllocStep

/-- relation between the upload table and the per-terminal arrival logs -/
structure Rel (us : List URow) (logs : String → List Arrival) : Prop where
  latest : ∀ r ∈ us, ∃ a, latestFor (logs r.term) r.id = some a ∧ a.size = r.size ∧ a.time = r.time ∧
    r.desc = Desc.str ⟨a.token, a.rows, a.cols⟩
  newer : ∀ r ∈ us, ∀ y b, latestFor (logs r.term) y = some b → r.time < b.time →
    ∃ r' ∈ us, r'.id = y ∧ r'.term = r.term ∧ r'.time = b.time ∧ r'.size = b.size

structure Good (cfg : Cfg) (s : State) : Prop where
  reach : Reachable cfg s.db
  rel : Rel s.db.uploads s.logs

theorem rel_empty : Rel [] (fun _ => []) where
  latest := fun r hr => by cases hr
  newer := fun r hr => by cases hr

theorem good_init (cfg : Cfg) : Good cfg State.init where
  reach := ⟨[], rfl⟩
  rel := rel_empty

/-! ### upload-table clean-up: rows newer than a surviving row survive -/

theorem minTime_eq_none {l : List URow} (h : minTime l = none) : l = [] := by
  cases l with
  | nil => rfl
  | cons y ys => simp only [minTime] at h; split at h <;> cases h

theorem maxTime_eq_none {l : List URow} (h : maxTime l = none) : l = [] := by
  cases l with
  | nil => rfl
  | cons y ys => simp only [maxTime] at h; split at h <;> cases h

theorem minTime_le {l : List URow} {m : Nat} (h : minTime l = some m) : ∀ r ∈ l, m ≤ r.time := by
  induction l generalizing m with
  | nil => intro r hr; cases hr
  | cons x xs ih =>
    intro r hr
    simp only [minTime] at h
    cases hm : minTime xs with
    | none =>
      rw [hm] at h
      have := minTime_eq_none hm
      subst this
      simp only [List.mem_cons, List.not_mem_nil, or_false] at hr
      subst hr; injection h with h; omega
    | some m' =>
      rw [hm] at h
      injection h with h
      rcases List.mem_cons.1 hr with rfl | hr'
      · omega
      · have := ih hm r hr'; omega

theorem maxTime_ge {l : List URow} {m : Nat} (h : maxTime l = some m) : ∀ r ∈ l, r.time ≤ m := by
  induction l generalizing m with
  | nil => intro r hr; cases hr
  | cons x xs ih =>
    intro r hr
    simp only [maxTime] at h
    cases hm : maxTime xs with
    | none =>
      rw [hm] at h
      have := maxTime_eq_none hm
      subst this
      simp only [List.mem_cons, List.not_mem_nil, or_false] at hr
      subst hr; injection h with h; omega
    | some m' =>
      rw [hm] at h
      injection h with h
      rcases List.mem_cons.1 hr with rfl | hr'
      · omega
      · have := ih hm r hr'; omega

/-- `admissibleKept`: no dropped row is newer than a kept one -/
theorem kept_newer {us : List URow} {n : Nat} {kept : List (Nat × String)} (h : admissibleKept us n kept = true)
    {k d : URow} (hk : k ∈ us) (hkk : ukeyIn kept k = true) (hd : d ∈ us) (hdd : ukeyIn kept d = false) :
    d.time ≤ k.time := by
  simp only [admissibleKept, Bool.and_eq_true] at h
  obtain ⟨_, h4⟩ := h
  have hk' : k ∈ us.filter (ukeyIn kept) := List.mem_filter.2 ⟨hk, hkk⟩
  have hd' : d ∈ us.filter (fun r => !ukeyIn kept r) := List.mem_filter.2 ⟨hd, by simp [hdd]⟩
  cases hm : minTime (us.filter (ukeyIn kept)) with
  | none => rw [minTime_eq_none hm] at hk'; cases hk'
  | some a =>
    cases hM : maxTime (us.filter (fun r => !ukeyIn kept r)) with
    | none => rw [maxTime_eq_none hM] at hd'; cases hd'
    | some b =>
      rw [hm, hM] at h4
      simp only [decide_eq_true_eq] at h4
      have := minTime_le hm k hk'
      have := maxTime_ge hM d hd'
      omega

theorem rel_filter_kept {us : List URow} {logs : String → List Arrival} {n : Nat} {kept : List (Nat × String)}
    (hrel : Rel us logs) (h : admissibleKept us n kept = true) : Rel (us.filter (ukeyIn kept)) logs where
  latest := fun r hr => hrel.latest r (List.mem_filter.1 hr).1
  newer := fun r hr y b hl ht => by
    obtain ⟨hr1, hr2⟩ := List.mem_filter.1 hr
    obtain ⟨r', hr', hid, hterm, htime, hsize⟩ := hrel.newer r hr1 y b hl ht
    refine ⟨r', List.mem_filter.2 ⟨hr', ?_⟩, hid, hterm, htime, hsize⟩
    cases hk : ukeyIn kept r' with
    | true => rfl
    | false => have := kept_newer h hr1 hr2 hr' hk; omega

/-! ### transmit + mark -/

def arriveLogs (logs : String → List Arrival) (T : String) (a : Arrival) : String → List Arrival :=
  fun t => if t = T then a :: logs t else logs t

theorem arriveLogs_same (logs : String → List Arrival) (T : String) (a : Arrival) :
    arriveLogs logs T a T = a :: logs T := by simp [arriveLogs]

theorem arriveLogs_other (logs : String → List Arrival) {T t : String} (a : Arrival) (h : t ≠ T) :
    arriveLogs logs T a t = logs t := by simp [arriveLogs, h]

theorem mem_uupsert {us : List URow} {r x : URow} :
    x ∈ uupsert us r ↔ x = r ∨ (x ∈ us ∧ ¬ (x.id = r.id ∧ x.term = r.term)) := by
  simp only [uupsert, uerase, List.mem_cons, List.mem_filter, Bool.not_eq_eq_eq_not, Bool.not_true,
    Bool.and_eq_false_imp, beq_iff_eq, beq_eq_false_iff_ne, ne_eq]
  grind

theorem rel_mark {us : List URow} {logs : String → List Arrival} (hrel : Rel us logs)
    (x : Nat) (T : String) (d : Desc) (size now : Nat) (hnew : ∀ a ∈ logs T, a.time < now) :
    Rel (uupsert us ⟨x, T, d.str, size, now⟩) (arriveLogs logs T ⟨x, d.token, d.rows, d.cols, size, now⟩) where
  latest := fun r hr => by
    rcases mem_uupsert.1 hr with rfl | ⟨hr, hne⟩
    · refine ⟨⟨x, d.token, d.rows, d.cols, size, now⟩, ?_, rfl, rfl, rfl⟩
      simp only [arriveLogs_same, latestFor_cons, if_true]
    · simp only [] at hne
      obtain ⟨a, hl, h1, h2, h3⟩ := hrel.latest r hr
      refine ⟨a, ?_, h1, h2, h3⟩
      by_cases ht : r.term = T
      · have hid : ¬ x = r.id := fun e => hne ⟨e.symm, ht⟩
        rw [ht, arriveLogs_same, latestFor_cons, if_neg hid, ← ht]; exact hl
      · rw [arriveLogs_other _ _ ht]; exact hl
  newer := fun r hr y b hl hb => by
    rcases mem_uupsert.1 hr with rfl | ⟨hr, hne⟩
    · exfalso
      simp only [arriveLogs_same, latestFor_cons] at hl hb
      split at hl
      · injection hl with hl; subst hl; simp at hb
      · have := hnew b (latestFor_mem hl).1; omega
    · simp only [] at hne
      by_cases ht : r.term = T
      · have hid : ¬ r.id = x := fun e => hne ⟨e, ht⟩
        rw [ht, arriveLogs_same, latestFor_cons] at hl
        split at hl
        · next hxy =>
          injection hl with hl; subst hl
          simp only [] at hxy
          exact ⟨⟨x, T, d.str, size, now⟩, mem_uupsert.2 (Or.inl rfl), hxy, ht.symm, rfl, rfl⟩
        · next hxy =>
          simp only [] at hxy
          rw [← ht] at hl
          obtain ⟨r', hr', h1, h2, h3, h4⟩ := hrel.newer r hr y b hl hb
          refine ⟨r', mem_uupsert.2 (Or.inr ⟨hr', ?_⟩), h1, h2, h3, h4⟩
          intro e; exact hxy (by rw [← h1]; exact e.1.symm)
      · rw [arriveLogs_other _ _ ht] at hl
        obtain ⟨r', hr', h1, h2, h3, h4⟩ := hrel.newer r hr y b hl hb
        refine ⟨r', mem_uupsert.2 (Or.inr ⟨hr', ?_⟩), h1, h2, h3, h4⟩
        intro e; exact ht (by rw [← h2]; exact e.2)

/-! ### allocator operations do not touch the upload table -/

/-- the operations of `Env` and of the binding phase: everything but `mark` and `cleanupUploads` -/
def allocOp : Op → Prop
  | .mark .. => False
  | .cleanupUploads .. => False
  | _ => True

theorem reach_applyOp {cfg : Cfg} {db : Db} (h : Reachable cfg db) (op : Op) : Reachable cfg (applyOp cfg db op) := by
  obtain ⟨ops, rfl⟩ := h
  exact ⟨ops ++ [op], by simp [Tup.run, List.foldl_append]⟩

theorem applyOp_uploads {cfg : Cfg} {db : Db} (hr : Reachable cfg db) {op : Op} (hop : allocOp op) :
    (applyOp cfg db op).uploads = db.uploads := by
  cases op with
  | get req now ch =>
    simp only [applyOp]
    split
    · next hv =>
      simp only [Bool.and_eq_true] at hv
      split
      · next db' res out hg =>
        exact (C02.nothing_outside_subspace_changes hr ((valid_iff_mem_all _).1 hv.1) hv.2 hg).2.2
      · rfl
    · rfl
  | set id d now =>
    simp only [applyOp]
    cases h : setId db id d now with
    | error e => rfl
    | ok db' => obtain ⟨s, _, rfl⟩ := setId_ok h; simp [dbOf]
  | del id =>
    simp only [applyOp, delId]
    split <;> simp [dbOf]
  | cleanup s u m removed =>
    simp only [applyOp]
    split
    · cases h : cleanup db s u m removed with
      | error e => rfl
      | ok db' => obtain ⟨_, rfl⟩ := cleanup_ok h; simp [dbOf]
    · rfl
  | mark id term size time => exact absurd hop (by simp [allocOp])
  | cleanupUploads n kept => exact absurd hop (by simp [allocOp])

/-! ### the binding phase -/

theorem getInfo_setId {db db' : Db} {id now : Nat} {d : String} (h : setId db id d now = .ok db') :
    getInfo db' id = .ok (some ⟨id, d, now⟩) := by
  obtain ⟨s, hs, rfl⟩ := setId_ok h
  simp [getInfo, hs, lookup_upsert]

theorem setBound_db (cfg : Cfg) (db : Db) (id now : Nat) (d : Desc) :
    (setBound db id d now).1 = db ∨ ∃ op, allocOp op ∧ (setBound db id d now).1 = applyOp cfg db op := by
  unfold setBound
  cases hs : setId db id d.str now with
  | error e => left; rfl
  | ok db' => right; exact ⟨.set id d.str now, trivial, by simp [applyOp, dbOf, hs]⟩

theorem setBound_bound {db db1 : Db} {id now x : Nat} {d : Desc} (h : setBound db id d now = (db1, some x)) :
    ∃ info, getInfo db1 x = .ok (some info) ∧ info.desc = d.str := by
  unfold setBound at h
  cases hs : setId db id d.str now with
  | error e => rw [hs] at h; simp at h
  | ok db2 =>
    rw [hs] at h
    simp only [Prod.mk.injEq, Option.some.injEq] at h
    obtain ⟨rfl, rfl⟩ := h
    exact ⟨_, getInfo_setId hs, rfl⟩

theorem bind_db (cfg : Cfg) (db : Db) (now : Nat) (tg : Target) (d : Desc) :
    (bind cfg true db now tg d).1 = db ∨ ∃ op, allocOp op ∧ (bind cfg true db now tg d).1 = applyOp cfg db op := by
  cases tg with
  | alloc space sub ch =>
    right
    refine ⟨.get ⟨space, sub, d.str⟩ now ch, trivial, ?_⟩
    cases hv : (space.valid && sub.valid) with
    | false => simp [bind, applyOp, hv]
    | true =>
      cases hg : getId cfg db ⟨space, sub, d.str⟩ now ch with
      | error e => simp [bind, applyOp, hv, hg]
      | ok p =>
        obtain ⟨db', res, out⟩ := p
        cases res <;> simp [bind, applyOp, hv, hg]
  | forced id => exact setBound_db cfg db id now d
  | inst id =>
    cases hi : getInfo db id with
    | error e => left; simp [bind, hi]
    | ok info =>
      cases info with
      | none => simpa [bind, hi] using setBound_db cfg db id now d
      | some r =>
        by_cases hc : (r.desc == d.str) = true
        · left; simp [bind, hi, hc]
        · simpa [bind, hi, hc] using setBound_db cfg db id now d

theorem bind_reach {cfg : Cfg} {db : Db} (hr : Reachable cfg db) (now : Nat) (tg : Target) (d : Desc) :
    Reachable cfg (bind cfg true db now tg d).1 := by
  rcases bind_db cfg db now tg d with h | ⟨op, _, h⟩
  · rw [h]; exact hr
  · rw [h]; exact reach_applyOp hr op

theorem bind_uploads {cfg : Cfg} {db : Db} (hr : Reachable cfg db) (now : Nat) (tg : Target) (d : Desc) :
    (bind cfg true db now tg d).1.uploads = db.uploads := by
  rcases bind_db cfg db now tg d with h | ⟨op, hop, h⟩
  · rw [h]
  · rw [h]; exact applyOp_uploads hr hop

/-- after the binding phase the id the instance carries is bound to the instance's description -/
theorem bind_bound {cfg : Cfg} {db db' : Db} {now x : Nat} {tg : Target} {d : Desc} (hr : Reachable cfg db)
    (h : bind cfg true db now tg d = (db', some x)) :
    ∃ info, getInfo db' x = .ok (some info) ∧ info.desc = d.str := by
  cases tg with
  | alloc space sub ch =>
    simp only [bind] at h
    split at h
    · next hv =>
      simp only [Bool.and_eq_true] at hv
      have hs := (valid_iff_mem_all _).1 hv.1
      split at h
      · next db1 y out hg =>
        simp only [Prod.mk.injEq, Option.some.injEq] at h
        obtain ⟨rfl, rfl⟩ := h
        have hb : (db1.ids space).lookup y = some ⟨y, d.str, now⟩ := C02.getId_binds hr hs hv.2 hg
        have hm := C01.getId_member hr hs hv.2 hg
        have hf : fromId y = some space := (fromId_iff_inSpace hs y).2 (inSpace_of_member hm)
        exact ⟨⟨y, d.str, now⟩, by simp [getInfo, hf, hb], rfl⟩
      · simp at h
      · simp at h
    · simp at h
  | forced id => exact setBound_bound h
  | inst id =>
    cases hi : getInfo db id with
    | error e => simp [bind, hi] at h
    | ok info =>
      cases info with
      | none =>
        simp only [bind, hi, if_true] at h
        exact setBound_bound (by simpa using h)
      | some r =>
        by_cases hc : (r.desc == d.str) = true
        · simp only [bind, hi, hc, if_true, Prod.mk.injEq, Option.some.injEq] at h
          obtain ⟨rfl, rfl⟩ := h
          exact ⟨r, hi, by simpa using hc⟩
        · simp only [bind, hi, if_true, hc] at h
          exact setBound_bound (by simpa using h)

/-! ### one `upload` -/

theorem arrive_logs (s : State) (T : String) (a : Arrival) : (s.arrive T a).logs = arriveLogs s.logs T a := rfl

theorem ulookup_mem {us : List URow} {x : Nat} {T : String} {r : URow} (h : ulookup us x T = some r) :
    r ∈ us ∧ r.id = x ∧ r.term = T := by
  unfold ulookup at h
  refine ⟨List.mem_of_find?_eq_some h, ?_⟩
  simpa using List.find?_some h

/-- **Soundness of `needs_uploading` against the adversarial terminal** (the simulation C04 left open):
    whenever the table and the logs are related by `Rel` and arrival times at `T` strictly increase,
    the answer "no upload needed" for an id bound to description `d` implies that `T` still holds — by
    the standard of `Spec.Store` — a complete transmission of `d`'s content with `d`'s geometry. -/
theorem held_of_not_needs {db : Db} {logs : String → List Arrival} {x now : Nat} {T : String}
    {thr : Tup.Thresholds} {info : Row} {d : Desc}
    (hrel : Rel db.uploads logs) (hs : (logs T).Pairwise (fun a b => a.time > b.time))
    (hinfo : getInfo db x = .ok (some info)) (hdesc : info.desc = d.str)
    (hneeds : needsUploading db x T thr now = .ok false) :
    printOk (specThr thr) (logs T) x d.token d.rows d.cols now = true := by
  obtain ⟨row, hrow, hrd, hcnt, hbytes, htime⟩ := C04.needsUploading_sound_partial hinfo hneeds
  unfold uploadRow at hrow
  obtain ⟨hmem, hid, hterm⟩ := ulookup_mem hrow
  obtain ⟨a, hl, hsize, hat, hstr⟩ := hrel.latest row hmem
  rw [hterm, hid] at hl
  have hle := later_le_table (us := db.uploads) (L := logs T) (T := T) hs hl hat (by
    intro y b hyb hlt
    have := hrel.newer row hmem y b (by rw [hterm]; exact hyb) hlt
    rw [hterm] at this; exact this)
  have hret : retained (specThr thr) (logs T) x now = true :=
    retained_of_bounds hl (by omega) (by omega) (by omega)
  have hde : (⟨a.token, a.rows, a.cols⟩ : Desc) = d :=
    Desc.str_injective (by rw [← hstr, hrd, hdesc])
  exact printOk_of_retained hl hret (by rw [← hde]) (by rw [← hde]) (by rw [← hde])

/-- What one `upload` (of the repaired library) does: it keeps the invariant; the clock stands still; and
    if it returns an instance with id `x`, the terminal it ran on holds — by the standard of the
    adversarial conforming terminal — a complete transmission of the requested content under `x` with
    the requested geometry. -/
theorem upload_spec {cfg : Cfg} {thr : String → Tup.Thresholds} {s : State} {r : Request}
    (hg : Good cfg s)
    (res : State × List Event × Option Nat) (hres : upload cfg thr true s r = res) (hst : StrictTimes res.1) :
    Good cfg res.1 ∧ res.1.now = s.now ∧
    ∀ x, res.2.2 = some x → 0 < (thr r.term).maxUploads →
      printOk (specThr (thr r.term)) (res.1.logs r.term) x r.desc.token r.desc.rows r.desc.cols s.now = true := by
  unfold upload at hres
  cases hb : bind cfg true s.db s.now r.target r.desc with
  | mk db1 ox =>
  have hr1 : Reachable cfg db1 := by have := bind_reach hg.reach s.now r.target r.desc; rwa [hb] at this
  have hu1 : db1.uploads = s.db.uploads := by have := bind_uploads hg.reach s.now r.target r.desc; rwa [hb] at this
  rw [hb] at hres
  cases ox with
  | none =>
    simp only [] at hres
    subst hres
    exact ⟨⟨hr1, by simp only [hu1]; exact hg.rel⟩, rfl, fun x hx _ => by cases hx⟩
  | some x =>
    obtain ⟨info, hinfo, hdesc⟩ := bind_bound hg.reach hb
    simp only [] at hres
    cases hn : (if r.force = true then (Except.ok true : Except Err Bool)
        else needsUploading db1 x r.term (thr r.term) s.now) with
    | error e =>
      rw [hn] at hres; simp only [] at hres; subst hres
      exact ⟨⟨hr1, by simp only [hu1]; exact hg.rel⟩, rfl, fun x hx _ => by cases hx⟩
    | ok b =>
      rw [hn] at hres
      cases b with
      | false =>
        simp only [] at hres; subst hres
        dsimp only at hst
        refine ⟨⟨hr1, by simp only [hu1]; exact hg.rel⟩, rfl, ?_⟩
        intro x' hx' _
        dsimp only at hx' ⊢
        simp only [Option.some.injEq] at hx'; subst hx'
        have hneeds : needsUploading db1 x r.term (thr r.term) s.now = .ok false := by
          cases hf : r.force with
          | true => simp [hf] at hn
          | false => simpa [hf] using hn
        exact held_of_not_needs (by rw [hu1]; exact hg.rel) (hst r.term) hinfo hdesc hneeds
      | true =>
        simp only [] at hres
        cases hv : uploadVia r.via with
        | none =>
          rw [hv] at hres; simp only [] at hres; subst hres
          exact ⟨⟨hr1, by simp only [hu1]; exact hg.rel⟩, rfl, fun x hx _ => by cases hx⟩
        | some sent =>
          rw [hv] at hres; simp only [] at hres
          have hm : markUploaded db1 x r.term r.size s.now = .ok (markWrite db1 x r.term info.desc r.size s.now) := by
            simp [markUploaded, hinfo]
          rw [hm] at hres; simp only [] at hres; subst hres
          dsimp only at hst ⊢
          have hnew : ∀ a ∈ s.logs r.term, a.time < s.now := by
            have := hst r.term
            simp only [arrive_logs, arriveLogs_same, List.pairwise_cons] at this
            intro a ha; exact this.1 a ha
          refine ⟨⟨?_, ?_⟩, rfl, ?_⟩
          · have := reach_applyOp hr1 (.mark x r.term r.size s.now)
            simpa [applyOp, hm, dbOf] using this
          · simp only [markWrite, arrive_logs, hdesc, hu1]
            exact rel_mark hg.rel x r.term r.desc r.size s.now hnew
          · intro x' hx' hpos
            simp only [Option.some.injEq] at hx'; subst hx'
            simp only [arrive_logs, arriveLogs_same]
            have hret := retained_fresh hpos ⟨x, r.desc.token, r.desc.rows, r.desc.cols, r.size, s.now⟩ (s.logs r.term)
            exact printOk_of_retained (a := ⟨x, r.desc.token, r.desc.rows, r.desc.cols, r.size, s.now⟩)
              (by simp [latestFor_cons]) hret rfl rfl rfl

end Tup.Display
