import Tup.Model.Response
import Tup.Spec.Response
/-!
  Lemmas for C19, part 1: the byte-at-a-time scanner finds exactly the framed response.
  Core Lean only.
-/
open Tup Tup.Response

namespace Tup.RespLemmas

/-- the Bool infix test of the specification is `List.IsInfix` -/
theorem isInfix_iff (pat s : Bytes) : Spec.Response.isInfix pat s = true ↔ pat <:+: s := by
  induction s with
  | nil =>
    simp only [Spec.Response.isInfix, List.isEmpty_iff]
    constructor
    · intro h; subst h; exact List.infix_refl _
    · intro h; exact List.eq_nil_of_infix_nil h
  | cons b r ih =>
    simp only [Spec.Response.isInfix, Bool.or_eq_true, List.isPrefixOf_iff_prefix, ih, List.infix_cons_iff]

theorem isPrefixOf_rev_false {pat pre : Bytes} {b : UInt8} {t : Bytes} (h : ¬ pat <:+: pre ++ b :: t) :
    pat.reverse.isPrefixOf (b :: pre.reverse) = false := by
  cases hp : pat.reverse.isPrefixOf (b :: pre.reverse) with
  | false => rfl
  | true =>
    exfalso
    apply h
    have h1 : pat.reverse <+: (pre ++ [b]).reverse := by
      have := List.isPrefixOf_iff_prefix.mp hp
      simpa using this
    have h2 : pat <:+ pre ++ [b] := List.reverse_prefix.mp h1
    obtain ⟨u, hu⟩ := h2
    exact ⟨u, t, by rw [hu]; simp⟩

/-- phase 1: noise without the introducer is skipped, then the introducer switches the flag -/
theorem scan_phase1 (noise pre tail : Bytes) (h : ¬ intro <:+: pre ++ noise) :
    scanLoop (noise ++ intro ++ tail) pre.reverse false
      = scanLoop tail (intro.reverse ++ noise.reverse ++ pre.reverse) true := by
  induction noise generalizing pre with
  | nil =>
    simp [intro, scanLoop, List.isPrefixOf]
  | cons b t ih =>
    have hf := isPrefixOf_rev_false (pat := intro) (pre := pre) (b := b) (t := t) h
    have h' : ¬ intro <:+: (pre ++ [b]) ++ t := by simpa using h
    have := ih (pre ++ [b]) h'
    simp only [List.cons_append, scanLoop, Bool.false_eq_true, ↓reduceIte, hf]
    simp only [List.reverse_append, List.reverse_cons, List.reverse_nil, List.nil_append,
      List.singleton_append] at this
    rw [this]
    simp

/-- phase 2: a body without the terminator is read, then the terminator ends the loop -/
theorem scan_phase2 (body rb rest : Bytes) (x : UInt8) (h : ¬ term <:+: x :: body) :
    scanLoop (body ++ term ++ rest) (x :: rb) true
      = .complete ((x :: rb).reverse ++ body ++ term) rest := by
  induction body generalizing rb x with
  | nil =>
    simp [term, scanLoop, List.isPrefixOf]
  | cons b t ih =>
    have hb : ¬ (x = 27 ∧ b = 92) := by
      intro ⟨h1, h2⟩
      apply h
      subst h1 h2
      exact ⟨[], t, by simp [term]⟩
    have ht : ¬ term <:+: b :: t := by
      intro hi
      apply h
      exact List.infix_cons hi
    have hf : term.reverse.isPrefixOf (b :: x :: rb) = false := by
      simp only [term, List.reverse_cons, List.reverse_nil, List.nil_append, List.singleton_append,
        List.isPrefixOf, Bool.and_true]
      cases h1 : (92 : UInt8) == b <;> cases h2 : (27 : UInt8) == x <;> simp_all
    simp only [List.cons_append, scanLoop, ↓reduceIte, hf, Bool.false_eq_true]
    have := ih (x :: rb) b ht
    rw [this]
    simp

/-- the scanner on `noise ++ ESC _ G ++ body ++ ESC \ ++ rest` -/
theorem scan_framed (noise body rest : Bytes) (hn : ¬ intro <:+: noise) (hb : ¬ term <:+: body) :
    scanResponse (noise ++ intro ++ body ++ term ++ rest)
      = .complete (noise ++ intro ++ body ++ term) rest := by
  have h1 := scan_phase1 noise [] (body ++ term ++ rest) (by simpa using hn)
  simp only [List.reverse_nil, List.append_nil] at h1
  unfold scanResponse
  have e : noise ++ intro ++ body ++ term ++ rest = noise ++ intro ++ (body ++ term ++ rest) := by simp
  rw [e, h1]
  have hx : ¬ term <:+: (71 : UInt8) :: body := by
    intro hi
    rcases List.infix_cons_iff.mp hi with hp | hi
    · obtain ⟨u, hu⟩ := hp
      simp [term] at hu
    · exact hb hi
  have h2 := scan_phase2 body (95 :: 27 :: noise.reverse) rest 71 hx
  have e2 : intro.reverse ++ noise.reverse = 71 :: 95 :: 27 :: noise.reverse := by simp [intro]
  rw [e2, h2]
  simp [intro]

end Tup.RespLemmas
