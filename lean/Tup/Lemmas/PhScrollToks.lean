import Tup.Lemmas.PhScroll
/-!
  Token level of the scrolling choreography: the complete outputs of `to_stream_at_cursor` (all three cursor-relative
  styles) and `to_stream_with_linefeeds` split into per-line steps; the tty's `ONLCR` on them; feeding the steps to the
  specification terminal gives `scrStep` / `scrRes`.
-/
namespace Tup.Ph
open Tup Tup.Spec

/-- what `to_stream_at_cursor` writes for one NON-last line (and `to_stream_with_linefeeds` for every line, `lf = true`) -/
def stepToks (save lf : Bool) (C : Nat) (line : List Tok) : List Tok :=
  (if !lf && save then [Tok.csi [] 115] else []) ++ line ++
    (if lf then [Tok.c0 10] else (if save then [Tok.csi [] 117] else [Tok.csi [C] 68]) ++ [Tok.esc 68])

/-- … and what the terminal receives for it: the tty's ONLCR turns the LF into CR LF -/
def stepToksT (save lf : Bool) (C : Nat) (line : List Tok) : List Tok :=
  if lf then line ++ [Tok.c0 13, Tok.c0 10]
  else (if save then [Tok.csi [] 115] else []) ++ line ++
    ((if save then [Tok.csi [] 117] else [Tok.csi [C] 68]) ++ [Tok.esc 68])

theorem stepToksT_false (save : Bool) (C : Nat) (line : List Tok) : stepToksT save false C line = stepToks save false C line := by
  simp [stepToksT, stepToks]

theorem flatMap_nonlast (save lf : Bool) (C : Nat) : ∀ (init : List (List Tok)) (k N : Nat), k + init.length < N →
    ((enumFrom k init).flatMap fun x => curBefore save lf x.1 N ++ x.2 ++ curAfter save lf C x.1 N) =
      init.flatMap (stepToks save lf C) := by
  intro init
  induction init with
  | nil => intro k N _; simp [enumFrom]
  | cons l r ih =>
    intro k N h
    simp only [List.length_cons] at h
    simp only [enumFrom, List.flatMap_cons]
    rw [ih (k + 1) N (by omega)]
    congr 1
    have hne : (k + 1 != N) = true := by simp; omega
    simp [curBefore, curAfter, stepToks, hne]

/-- a complete `to_stream_at_cursor` output = the steps of the non-last lines, then the last line alone -/
theorem streamToks_atCursor_snoc (save lf : Bool) (C : Nat) (init : List (List Tok)) (last : List Tok) :
    streamToks (.atCursor save lf) C (init ++ [last]) = init.flatMap (stepToks save lf C) ++ last := by
  have h := flatMap_nonlast save lf C init 0 (init.length + 1) (by omega)
  simp only [streamToks, enumFrom_append, List.flatMap_append, enumFrom, List.flatMap_cons, List.flatMap_nil,
    List.append_nil, List.length_append, List.length_cons, List.length_nil, Nat.zero_add]
  rw [h]
  simp [curBefore, curAfter]

/-- a complete `to_stream_with_linefeeds` output = a step for every line -/
theorem linefeedToks_eq (save : Bool) (C : Nat) (lines : List (List Tok)) :
    linefeedToks lines = lines.flatMap (stepToks save true C) := by
  unfold linefeedToks
  congr 1

/-! ### ONLCR -/

theorem onlcr_cons_ne (t : Tok) (r : List Tok) (h : t ≠ .c0 10) : onlcr (t :: r) = t :: onlcr r := by
  exact onlcr.eq_3 t r h

theorem onlcr_append_noLF (a b : List Tok) (h : ∀ t ∈ a, t ≠ .c0 10) : onlcr (a ++ b) = a ++ onlcr b := by
  induction a with
  | nil => rfl
  | cons t r ih =>
    rw [List.cons_append, onlcr_cons_ne _ _ (h t (by simp)), ih (fun t' ht' => h t' (by simp [ht']))]
    rfl

theorem onlcr_append (a b : List Tok) : onlcr (a ++ b) = onlcr a ++ onlcr b := by
  induction a with
  | nil => rfl
  | cons t r ih =>
    by_cases h : t = .c0 10
    · subst h
      rw [List.cons_append, onlcr.eq_2, onlcr.eq_2, ih]
      rfl
    · rw [List.cons_append, onlcr_cons_ne _ _ h, onlcr_cons_ne _ _ h, ih]
      rfl

theorem onlcr_noLF (a : List Tok) (h : ∀ t ∈ a, t ≠ .c0 10) : onlcr a = a := by
  have := onlcr_append_noLF a [] h
  simpa [onlcr] using this

theorem IsSgr.noLF {t : Tok} (h : IsSgr t) : t ≠ .c0 10 := by
  obtain ⟨ps, rfl⟩ := h
  simp

theorem groupsToks_noLF (base : Nat) (gs : List Group) (h : ∀ g ∈ gs, ∀ tok ∈ g.1, IsBgSgr tok) :
    ∀ t ∈ groupsToks base gs, t ≠ .c0 10 := by
  intro t ht
  simp only [groupsToks, List.mem_flatMap] at ht
  obtain ⟨g, hg, ht⟩ := ht
  simp only [groupToks, List.mem_append, List.mem_cons, List.mem_map, List.not_mem_nil, or_false] at ht
  rcases ht with (ht | rfl) | ⟨i, _, rfl⟩
  · exact (h g hg t ht).isSgr.noLF
  · simp
  · simp

/-- no line contains a line feed (so ONLCR leaves the lines themselves alone) -/
theorem lineToks_noLF (p : Placeholder) (m : Mode) (fmt : FmtT) (row : Nat) (hsc : p.startCol < 297) (hfmt : BgOnly fmt) :
    ∀ t ∈ lineToks p m fmt row, t ≠ .c0 10 := by
  intro t ht
  have hr0 : sgrReset ≠ Tok.c0 10 := by simp [sgrReset]
  by_cases hr : row < 297
  · rw [lineToks_printable p m fmt row hr] at ht
    simp only [List.mem_append, List.mem_cons, List.not_mem_nil, or_false] at ht
    rcases ht with (((rfl | ht) | ht) | ht) | rfl
    · exact hr0
    · exact (hfmt.1 row t ht).isSgr.noLF
    · exact (idColorToks_isSgr m p t ht).noLF
    · exact groupsToks_noLF _ _ (fun g hg => (lineGroups_ok p m fmt row hr hsc hfmt g hg).1) t ht
    · exact hr0
  · rw [lineToks_blank p m fmt row (by omega)] at ht
    simp only [List.mem_append, List.mem_cons, List.not_mem_nil, or_false] at ht
    rcases ht with ((rfl | ht) | ht) | rfl
    · exact hr0
    · exact (hfmt.1 row t ht).isSgr.noLF
    · exact groupsToks_noLF 32 _ (fun g hg => (blankGroups_ok p fmt row hfmt g hg).1) t ht
    · exact hr0

theorem onlcr_steps (save : Bool) (C : Nat) : ∀ (init : List (List Tok)) (rest : List Tok),
    (∀ l ∈ init, ∀ t ∈ l, t ≠ .c0 10) →
    onlcr (init.flatMap (stepToks save true C) ++ rest) = init.flatMap (stepToksT save true C) ++ onlcr rest := by
  intro init
  induction init with
  | nil => intro rest _; rfl
  | cons l r ih =>
    intro rest h
    have e1 : stepToks save true C l = l ++ [Tok.c0 10] := by simp [stepToks]
    have e2 : stepToksT save true C l = l ++ [Tok.c0 13, Tok.c0 10] := by simp [stepToksT]
    simp only [List.flatMap_cons, e1, e2, List.append_assoc]
    rw [onlcr_append_noLF _ _ (h l (by simp))]
    have : onlcr ([Tok.c0 10] ++ (List.flatMap (stepToks save true C) r ++ rest)) =
        [Tok.c0 13, Tok.c0 10] ++ onlcr (List.flatMap (stepToks save true C) r ++ rest) := by
      simp [onlcr]
    rw [this, ih rest (fun l' hl' => h l' (by simp [hl']))]

/-! ### feeding the steps -/

/-- **one non-last line and the move to the next line**, any of the three styles, scrolling or not -/
theorem feed_scr_step (save lf : Bool) (t : Term) (p : Placeholder) (m : Mode) (fmt : FmtT) (row : Nat)
    (hsc : p.startCol < 297) (hlt : p.startCol < p.endCol) (hfmt : BgOnly fmt)
    (hfit : t.cx + (p.endCol - p.startCol) ≤ t.w)
    (hcub : lf = false → save = false → (t.cfg.cubFromW = true ∨ t.cx + (p.endCol - p.startCol) < t.w)) :
    t.feedAll (stepToksT save lf (p.endCol - p.startCol) (lineToks p m fmt row)) =
      scrStep save lf (rowCells p m fmt row) t := by
  unfold scrStep
  cases lf with
  | true =>
    simp only [stepToksT, if_true, feedAll_append]
    rw [feed_anyline _ p m fmt row hsc hlt hfmt hfit]
    show Term.index _ = _
    congr 1
    rw [writeRow_eq]
    rfl
  | false =>
    cases save with
    | true =>
      simp only [stepToksT, Bool.false_eq_true, if_false, if_true, feedAll_append, feedAll_singleton, feed_scosc]
      rw [feed_anyline _ p m fmt row hsc hlt hfmt (by simpa using hfit)]
      rw [feed_scorc _ t.cx t.cy t.sgr (by rw [writeRow_eq])]
      show Term.index _ = _
      congr 1
      rw [writeRow_eq]
      simp only [preIdx, Bool.false_eq_true, if_false, if_true]
      congr 1
      exact writeRow_cells_congr _ _ _ _ _ rfl
    | false =>
      have hc := hcub rfl rfl
      simp only [stepToksT, Bool.false_eq_true, if_false, List.nil_append, feedAll_append, feedAll_singleton]
      rw [feed_anyline _ p m fmt row hsc hlt hfmt hfit]
      rw [feed_cub _ _ (by omega) (by rw [writeRow_eq]; simpa using hc)]
      show Term.index _ = _
      congr 1
      rw [writeRow_eq]
      simp only [preIdx, Bool.false_eq_true, if_false]
      congr 1
      omega

/-- **`n` non-last lines**, each followed by the move to the next line -/
theorem feed_scr (save lf : Bool) (p : Placeholder) (m : Mode) (fmt : FmtT)
    (hsc : p.startCol < 297) (hlt : p.startCol < p.endCol) (hfmt : BgOnly fmt) :
    ∀ (n row : Nat) (t : Term), Scr t → t.cx + (p.endCol - p.startCol) ≤ t.w →
    (lf = false → save = false → (t.cfg.cubFromW = true ∨ t.cx + (p.endCol - p.startCol) < t.w)) →
    t.feedAll (((List.range' row n).map (lineToks p m fmt)).flatMap (stepToksT save lf (p.endCol - p.startCol))) =
      scrRes save lf p m fmt n row t := by
  intro n
  induction n with
  | zero => intro row t _ _ _; rfl
  | succ n ih =>
    intro row t hs hfit hcub
    rw [List.range'_succ]
    simp only [List.map_cons, List.flatMap_cons, scrRes]
    rw [feedAll_append, feed_scr_step save lf t p m fmt row hsc hlt hfmt hfit hcub]
    obtain ⟨h1, _, _, _, h5, h6, _, _, _⟩ := scrStep_spec save lf (rowCells p m fmt row) t hs
    apply ih (row + 1) _ (scrStep_scr save lf (rowCells p m fmt row) t hs)
    · rw [h6, h1]; split <;> omega
    · intro a b
      rw [h5, h6, h1]
      subst a
      simpa using hcub rfl b

end Tup.Ph
