import Tup.Lemmas.Sh
/-!
  Lemmas for C18, part 2: the shell tokeniser of `Spec.Sh` on the exporter's command line.
-/
open Tup Tup.ShellExport Tup.Spec.Sh

namespace Tup.ShLemmas

theorem takeSq_append (s r : Bytes) (h : (39 : UInt8) ∉ s) : takeSq (s ++ 39 :: r) = some (s, r) := by
  induction s with
  | nil => simp [takeSq]
  | cons c t ih =>
    simp only [List.mem_cons, not_or] at h
    have hc : c ≠ 39 := fun e => h.1 e.symm
    simp [takeSq, hc, ih h.2]

theorem stripPrefix_append (p r : Bytes) : stripPrefix p (p ++ r) = some r := by
  induction p with
  | nil => simp [stripPrefix]
  | cons a t ih => simp [stripPrefix, ih]

theorem stripTrailingNewlines_id (l : Bytes) (h : (10 : UInt8) ∉ l) : stripTrailingNewlines l = l := by
  unfold stripTrailingNewlines
  have : l.reverse.dropWhile (· == 10) = l.reverse := by
    cases hr : l.reverse with
    | nil => rfl
    | cons x xs =>
      have hx : x ∈ l := by
        have : x ∈ l.reverse := by rw [hr]; simp
        simpa using this
      have : (x == 10) = false := by
        have : x ≠ 10 := fun e => h (e ▸ hx)
        simpa using this
      simp [List.dropWhile, this]
  rw [this, List.reverse_reverse]

/-! ### base64 output has no newline -/

theorem b64c_ne_nl (n : Nat) : b64c n ≠ 10 := by
  have h : ∀ k : Fin 64, b64c k ≠ 10 := by decide
  have := h ⟨n % 64, Nat.mod_lt _ (by omega)⟩
  simpa [b64c] using this

theorem b64enc_no_nl (d : Bytes) : (10 : UInt8) ∉ b64enc d := by
  fun_induction b64enc d with
  | case1 a b c rest a' b' c' _ ih =>
    simp only [List.mem_cons, not_or]
    exact ⟨(b64c_ne_nl _).symm, (b64c_ne_nl _).symm, (b64c_ne_nl _).symm, (b64c_ne_nl _).symm, ih⟩
  | case2 a b a' b' =>
    simp only [List.mem_cons, List.not_mem_nil, or_false, not_or]
    exact ⟨(b64c_ne_nl _).symm, (b64c_ne_nl _).symm, (b64c_ne_nl _).symm, by decide⟩
  | case3 a a' =>
    simp only [List.mem_cons, List.not_mem_nil, or_false, not_or]
    exact ⟨(b64c_ne_nl _).symm, (b64c_ne_nl _).symm, by decide, by decide⟩
  | case4 => simp

/-! ### what `_try_base64` promises -/

theorem tryBase64_some {c e : Bytes} (h : tryBase64 c = some e) :
    ∃ d, e = escapeBytes d ∧ b64enc d = c := by
  unfold tryBase64 at h
  split at h
  · contradiction
  · split at h
    · contradiction
    · rename_i d _
      split at h
      · contradiction
      · rename_i henc
        dsimp only at h
        split at h
        · contradiction
        · injection h with h
          exact ⟨d, h.symm, by simpa using henc⟩

/-! ### one parameter -/

theorem printfOut_escapeBytes (d : Bytes) : printfOut (escapeBytes d) [] = some d := by
  have := parseFmt_escapeBytes d []
  simp only [List.append_nil, parseFmt_nil, Option.map_some] at this
  have hp : pass (d.map Piece.lit) [] = (d, []) := by
    have := pass_lits d [] []
    simpa [pass] using this
  simp [printfOut, this, runFmt, hp]

theorem nextWord_param {c e : Bytes} (h : tryBase64 c = some e) (rest : Bytes) :
    nextWord (param e ++ rest) = some (some c, rest) := by
  obtain ⟨d, he, hd⟩ := tryBase64_some h
  have hq : (39 : UInt8) ∉ dashFix e := by
    apply dashFix_avoids 39 (by decide); rw [he]; exact escapeBytes_no_quote d
  have hp : param e ++ rest = asc "\"$(printf " ++ (39 :: (dashFix e ++ 39 :: (asc " | base64 -w0)\"" ++ rest))) := by
    simp [param, quoteFormat]
  have hhead : asc "\"$(printf " = 34 :: asc "$(printf " := by decide
  rw [hp]
  unfold nextWord
  rw [hhead]
  simp only [List.cons_append]
  have h34a : ((34 : UInt8) = 39) = False := by decide
  have h34b : ((34 : UInt8) = 45) = False := by decide
  simp only [h34a, h34b, ↓reduceIte]
  rw [← List.cons_append, ← hhead, stripPrefix_append]
  simp only [substWord]
  have hdd : stripPrefix (asc "-- ") (39 :: (dashFix e ++ 39 :: (asc " | base64 -w0)\"" ++ rest))) = none := by
    have : asc "-- " = [45, 45, 32] := by decide
    simp [this, stripPrefix]
  simp only [hdd, ↓reduceIte, takeSq_append _ _ hq, stripPrefix_append]
  have hv : printfCmd [dashFix e] = some d := by
    rw [printfCmd_dashFix, he, printfOut_escapeBytes]
  simp [hv, hd, stripTrailingNewlines_id c (hd ▸ b64enc_no_nl d)]

end Tup.ShLemmas
