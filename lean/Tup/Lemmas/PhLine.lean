import Tup.Lemmas.PhTerm
import Tup.Lemmas.PhIndex
import Tup.Lemmas.PhColor
/-!
  One emitted placeholder line on the specification terminal: what `lineToks` writes, where,
  and in which SGR state it leaves the terminal.
-/
namespace Tup.Ph
open Tup Tup.Spec

/-- the two background forms the display path produces (`get_formatting`) -/
def IsBgSgr (t : Tok) : Prop := (∃ n, t = .csi [48, 5, n] 109) ∨ (∃ r g b, t = .csi [48, 2, r, g, b] 109)

/-- caller formatting consists of background-colour SGR sequences only -/
def BgOnly (f : FmtT) : Prop :=
  (∀ row, ∀ t ∈ f.rowT row, IsBgSgr t) ∧ (∀ col row, ∀ t ∈ f.cellT col row, IsBgSgr t)

theorem IsBgSgr.isSgr {t : Tok} (h : IsBgSgr t) : IsSgr t := by
  rcases h with ⟨n, rfl⟩ | ⟨r, g, b, rfl⟩ <;> exact ⟨_, rfl⟩

theorem sgrStep_bg (s : Sgr) (t : Tok) (h : IsBgSgr t) : (sgrStep s t).fg = s.fg ∧ (sgrStep s t).ul = s.ul := by
  rcases h with ⟨n, rfl⟩ | ⟨r, g, b, rfl⟩ <;> simp [sgrStep, applySgr]

theorem sgrAfter_bg (ts : List Tok) : ∀ (s : Sgr), (∀ t ∈ ts, IsBgSgr t) →
    (sgrAfter s ts).fg = s.fg ∧ (sgrAfter s ts).ul = s.ul := by
  induction ts with
  | nil => intro s _; simp [sgrAfter]
  | cons a r ih =>
    intro s h
    have ha := sgrStep_bg s a (h a (by simp))
    have := ih (sgrStep s a) (fun t ht => h t (by simp [ht]))
    simp only [sgrAfter, List.foldl_cons] at this ⊢
    rw [this.1, this.2, ha.1, ha.2]
    exact ⟨rfl, rfl⟩

theorem getFormattingT_bgOnly (b : Background) : BgOnly (getFormattingT b) := by
  cases b <;> constructor <;> intro _ <;> simp [getFormattingT, FmtT.rowT, FmtT.cellT, IsBgSgr]

/-! ### the id colours -/

/-- underline colour selected by `ulToks` -/
def ulOf (m : Mode) (pid : Nat) : Option Color :=
  if m.skipPlacementIfZero && pid == 0 then none else some (colorOf m.allow256Placement pid)

theorem colorTok_isSgr (lead : Nat) (a : Bool) (v : Nat) : IsSgr (colorTok lead a v) := by
  unfold colorTok; split <;> exact ⟨_, rfl⟩

theorem idColorToks_isSgr (m : Mode) (p : Placeholder) : ∀ t ∈ idColorToks m p, IsSgr t := by
  intro t ht
  unfold idColorToks fgTok ulToks at ht
  split at ht <;> simp at ht
  · rw [ht]; exact colorTok_isSgr _ _ _
  · rcases ht with rfl | rfl <;> exact colorTok_isSgr _ _ _

theorem sgrStep_fg (s : Sgr) (a : Bool) (v : Nat) : sgrStep s (colorTok 38 a v) = { s with fg := some (colorOf a v) } := by
  rw [colorTok_eq]
  cases h : colorOf a v <;> simp [sgrStep, applySgr]

theorem sgrStep_ul (s : Sgr) (a : Bool) (v : Nat) : sgrStep s (colorTok 58 a v) = { s with ul := some (colorOf a v) } := by
  rw [colorTok_eq]
  cases h : colorOf a v <;> simp [sgrStep, applySgr]

theorem sgrAfter_idColors (s : Sgr) (m : Mode) (p : Placeholder) (hul : s.ul = none) :
    sgrAfter s (idColorToks m p) =
      { s with fg := some (colorOf m.allow256Image p.imageId), ul := ulOf m p.placementId } := by
  unfold idColorToks fgTok ulToks ulOf sgrAfter
  split
  · simp [sgrStep_fg, hul]
  · simp [sgrStep_fg, sgrStep_ul]

/-! ### line structure -/

def eraseBg (c : Cell) : Cell := { c with bg := none }

theorem decodeCell_eraseBg (prev : Option Prev) (c : Cell) : decodeCell prev (eraseBg c) = decodeCell prev c := rfl

theorem decodeRow_eraseBg (cs : List Cell) : ∀ prev, decodeRow prev (cs.map eraseBg) = decodeRow prev cs := by
  induction cs with
  | nil => intro _; rfl
  | cons c r ih =>
    intro prev
    simp only [List.map_cons, decodeRow, decodeCell_eraseBg]
    cases decodeCell prev c with
    | none => simp [ih]
    | some x => simp [ih]

theorem groupCells_eraseBg (base : Nat) (gs : List Group) : ∀ (s : Sgr), (∀ g ∈ gs, ∀ t ∈ g.1, IsBgSgr t) →
    (groupCells base s gs).map eraseBg = gs.map fun g => ⟨base, g.2.map diacCp, s.fg, s.ul, none⟩ := by
  induction gs with
  | nil => intro _ _; rfl
  | cons g r ih =>
    intro s h
    have hg := sgrAfter_bg g.1 s (h g (by simp))
    have := ih (sgrAfter s g.1) (fun g' hg' => h g' (by simp [hg']))
    simp only [groupCells, List.map_cons, this, hg.1, hg.2, eraseBg]

theorem groupCells_length (base : Nat) (gs : List Group) : ∀ (s : Sgr), (groupCells base s gs).length = gs.length := by
  induction gs with
  | nil => intro _; rfl
  | cons g r ih => intro s; simp [groupCells, ih]

/-- the (formatting, diacritics) groups of a printable line -/
def lineGroups (p : Placeholder) (m : Mode) (fmt : FmtT) (row : Nat) : List Group :=
  (fmt.cellT p.startCol row, firstCell (counts m p.startCol (id4thByte p.imageId)).1 row p.startCol (id4thByte p.imageId)) ::
    (List.range' (p.startCol + 1) (p.endCol - (p.startCol + 1))).map fun col =>
      (fmt.cellT col row, otherCell (counts m p.startCol (id4thByte p.imageId)).2 row col (id4thByte p.imageId))

/-- the groups of a blank line (row ≥ 297): spaces, no diacritics -/
def blankGroups (p : Placeholder) (fmt : FmtT) (row : Nat) : List Group :=
  (List.range' p.startCol (p.endCol - p.startCol)).map fun col => (fmt.cellT col row, [])

theorem lineToks_printable (p : Placeholder) (m : Mode) (fmt : FmtT) (row : Nat) (hr : row < 297) :
    lineToks p m fmt row =
      [sgrReset] ++ fmt.rowT row ++ idColorToks m p ++ groupsToks Gen.placeholderChar (lineGroups p m fmt row) ++ [sgrReset] := by
  unfold lineToks
  have : ¬ row ≥ tableLen := by rw [tableLen_eq]; omega
  simp only [this, if_false]
  simp [groupsToks, lineGroups, groupToks, List.flatMap_map, List.append_assoc]

theorem lineToks_blank (p : Placeholder) (m : Mode) (fmt : FmtT) (row : Nat) (hr : 297 ≤ row) :
    lineToks p m fmt row =
      [sgrReset] ++ fmt.rowT row ++ groupsToks 32 (blankGroups p fmt row) ++ [sgrReset] := by
  unfold lineToks
  have : row ≥ tableLen := by rw [tableLen_eq]; omega
  simp only [this, if_true]
  simp [groupsToks, blankGroups, groupToks, List.flatMap_map]

theorem lineToks_ends_reset (p : Placeholder) (m : Mode) (fmt : FmtT) (row : Nat) :
    ∃ pre, lineToks p m fmt row = pre ++ [sgrReset] := by
  unfold lineToks
  split <;> exact ⟨_, rfl⟩

theorem feed_reset_sgr (t : Term) : (t.feed sgrReset).sgr = {} := by
  simp [sgrReset, Term.feed, Term.csi, applySgr]

theorem feed_reset (t : Term) : t.feed sgrReset = { t with sgr := {} } := by
  simp [sgrReset, Term.feed, Term.csi, applySgr]

theorem feedAll_singleton (t : Term) (tok : Tok) : t.feedAll [tok] = t.feed tok := rfl

theorem gen_placeholder_not_combining : isCombining Gen.placeholderChar = false := by
  rw [gen_placeholderChar_eq_spec]; exact placeholder_not_combining

/-- SGR state in which the cell groups of a line start: after the reset, the row formatting and the id colours -/
def lineSgr0 (p : Placeholder) (m : Mode) (fmt : FmtT) (row : Nat) : Sgr :=
  sgrAfter (sgrAfter {} (fmt.rowT row)) (idColorToks m p)

/-- the cells a printable line writes, left to right -/
def lineScreenCells (p : Placeholder) (m : Mode) (fmt : FmtT) (row : Nat) : List Cell :=
  groupCells Gen.placeholderChar (lineSgr0 p m fmt row) (lineGroups p m fmt row)

/-- the cells a blank line (row ≥ 297) writes -/
def blankScreenCells (p : Placeholder) (fmt : FmtT) (row : Nat) : List Cell :=
  groupCells 32 (sgrAfter {} (fmt.rowT row)) (blankGroups p fmt row)

theorem lineGroups_length (p : Placeholder) (m : Mode) (fmt : FmtT) (row : Nat) (hlt : p.startCol < p.endCol) :
    (lineGroups p m fmt row).length = p.endCol - p.startCol := by
  simp [lineGroups]; omega

theorem lineGroups_ok (p : Placeholder) (m : Mode) (fmt : FmtT) (row : Nat) (hr : row < 297) (hsc : p.startCol < 297)
    (hfmt : BgOnly fmt) :
    ∀ g ∈ lineGroups p m fmt row, (∀ tok ∈ g.1, IsBgSgr tok) ∧ ∀ i ∈ g.2, i < 297 := by
  intro g hg
  simp only [lineGroups, List.mem_cons, List.mem_map] at hg
  rcases hg with rfl | ⟨col, _, rfl⟩
  · exact ⟨hfmt.2 _ _, firstCell_lt _ _ _ _ hr hsc (id4thByte_lt _)⟩
  · exact ⟨hfmt.2 _ _, otherCell_lt _ _ _ _ hr (id4thByte_lt _)⟩

theorem blankGroups_ok (p : Placeholder) (fmt : FmtT) (row : Nat) (hfmt : BgOnly fmt) :
    ∀ g ∈ blankGroups p fmt row, (∀ tok ∈ g.1, IsBgSgr tok) ∧ ∀ i ∈ g.2, i < 297 := by
  intro g hg
  simp only [blankGroups, List.mem_map] at hg
  obtain ⟨col, _, rfl⟩ := hg
  exact ⟨hfmt.2 _ _, by simp⟩

/-- **What one printable line does to the terminal**: from any state (any SGR state, any screen content) with room for
    the line's width, it writes exactly `lineScreenCells` from the cursor rightwards, moves the cursor behind them
    (possibly into the pending-wrap column) and leaves the SGR state default.  Nothing else changes. -/
theorem feed_line (t : Term) (p : Placeholder) (m : Mode) (fmt : FmtT) (row : Nat)
    (hr : row < 297) (hsc : p.startCol < 297) (hlt : p.startCol < p.endCol) (hfmt : BgOnly fmt)
    (hfit : t.cx + (p.endCol - p.startCol) ≤ t.w) :
    t.feedAll (lineToks p m fmt row) =
      { writeRow t t.cy t.cx (lineScreenCells p m fmt row) with cx := t.cx + (p.endCol - p.startCol), sgr := {} } := by
  rw [lineToks_printable p m fmt row hr]
  simp only [feedAll_append, feedAll_singleton, feed_reset]
  rw [feedAll_sgrs (fmt.rowT row) _ (fun tok h => (hfmt.1 row tok h).isSgr)]
  rw [feedAll_sgrs (idColorToks m p) _ (idColorToks_isSgr m p)]
  have hok := lineGroups_ok p m fmt row hr hsc hfmt
  rw [feed_groups Gen.placeholderChar gen_placeholder_not_combining (lineGroups p m fmt row) _
    (fun g hg => ⟨fun tok ht => ((hok g hg).1 tok ht).isSgr, (hok g hg).2⟩)
    (by simp [lineGroups_length p m fmt row hlt]; exact hfit)]
  simp only [lineGroups_length p m fmt row hlt, lineScreenCells, lineSgr0]
  rw [writeRow_with]

theorem blankGroups_length (p : Placeholder) (fmt : FmtT) (row : Nat) :
    (blankGroups p fmt row).length = p.endCol - p.startCol := by
  simp [blankGroups]

/-- the same for a blank line (row ≥ 297): spaces carrying only the caller's background -/
theorem feed_blank_line (t : Term) (p : Placeholder) (m : Mode) (fmt : FmtT) (row : Nat)
    (hr : 297 ≤ row) (hfmt : BgOnly fmt) (hfit : t.cx + (p.endCol - p.startCol) ≤ t.w) :
    t.feedAll (lineToks p m fmt row) =
      { writeRow t t.cy t.cx (blankScreenCells p fmt row) with cx := t.cx + (p.endCol - p.startCol), sgr := {} } := by
  rw [lineToks_blank p m fmt row hr]
  simp only [feedAll_append, feedAll_singleton, feed_reset]
  rw [feedAll_sgrs (fmt.rowT row) _ (fun tok h => (hfmt.1 row tok h).isSgr)]
  have hok := blankGroups_ok p fmt row hfmt
  rw [feed_groups 32 space_not_combining (blankGroups p fmt row) _
    (fun g hg => ⟨fun tok ht => ((hok g hg).1 tok ht).isSgr, (hok g hg).2⟩)
    (by simp [blankGroups_length]; exact hfit)]
  simp only [blankGroups_length, blankScreenCells]
  rw [writeRow_with]

theorem lineScreenCells_length (p : Placeholder) (m : Mode) (fmt : FmtT) (row : Nat) (hlt : p.startCol < p.endCol) :
    (lineScreenCells p m fmt row).length = p.endCol - p.startCol := by
  simp [lineScreenCells, groupCells_length, lineGroups_length p m fmt row hlt]

theorem blankScreenCells_length (p : Placeholder) (fmt : FmtT) (row : Nat) :
    (blankScreenCells p fmt row).length = p.endCol - p.startCol := by
  simp [blankScreenCells, groupCells_length, blankGroups_length]

theorem lineSgr0_eq (p : Placeholder) (m : Mode) (fmt : FmtT) (row : Nat) (hfmt : BgOnly fmt) :
    (lineSgr0 p m fmt row).fg = some (colorOf m.allow256Image p.imageId) ∧
    (lineSgr0 p m fmt row).ul = ulOf m p.placementId := by
  unfold lineSgr0
  have h := sgrAfter_bg (fmt.rowT row) {} (hfmt.1 row)
  rw [sgrAfter_idColors _ m p (by rw [h.2])]
  exact ⟨rfl, rfl⟩

theorem colorVal_ulOf (m : Mode) (pid : Nat) (h : pid ≤ 0xFFFFFF) : colorVal (ulOf m pid) = pid := by
  unfold ulOf
  split
  · rename_i h1
    simp only [Bool.and_eq_true, beq_iff_eq] at h1
    simp [colorVal, h1.2]
  · exact colorVal_colorOf_pid _ _ h

/-- the cells of a printable line, background erased, are the placeholder cells of `lineRealCells` -/
theorem lineScreenCells_eraseBg (p : Placeholder) (m : Mode) (fmt : FmtT) (row : Nat) (hr : row < 297) (hsc : p.startCol < 297)
    (hfmt : BgOnly fmt) :
    (lineScreenCells p m fmt row).map eraseBg =
      lineRealCells (some (colorOf m.allow256Image p.imageId)) (ulOf m p.placementId) (fun _ => none) m row
        p.startCol p.endCol (id4thByte p.imageId) := by
  unfold lineScreenCells
  rw [groupCells_eraseBg _ _ _ (fun g hg => (lineGroups_ok p m fmt row hr hsc hfmt g hg).1)]
  obtain ⟨h1, h2⟩ := lineSgr0_eq p m fmt row hfmt
  rw [h1, h2]
  simp [lineGroups, lineRealCells, phCell, gen_placeholderChar_eq_spec, List.map_map, Function.comp_def]

/-- C07(A) on the cells the line really writes: they decode to the requested image cells. -/
theorem decodeRow_lineScreenCells (p : Placeholder) (m : Mode) (fmt : FmtT) (row : Nat)
    (hid : p.imageId < 4294967296) (hpid : p.placementId ≤ 0xFFFFFF)
    (hm : 1 ≤ m.firstLevel ∧ m.firstLevel ≤ 4)
    (hr : row < 297) (hsc : p.startCol < 297) (hlt : p.startCol < p.endCol) (hfmt : BgOnly fmt) :
    decodeRow none (lineScreenCells p m fmt row) =
      (List.range' p.startCol (p.endCol - p.startCol)).map fun col => some ⟨p.imageId, p.placementId, row, col⟩ := by
  rw [← decodeRow_eraseBg, lineScreenCells_eraseBg p m fmt row hr hsc hfmt,
    decodeRow_lineRealCells _ _ _ m hm row _ _ _ hr hsc (id4thByte_lt _) hlt]
  simp only [idOf, idOf_colorOf _ _ hid, colorVal_ulOf m _ hpid]

/-- blank lines contain no placeholder cell -/
theorem blankScreenCells_ch (p : Placeholder) (fmt : FmtT) (row : Nat) : ∀ c ∈ blankScreenCells p fmt row, c.ch = 32 := by
  unfold blankScreenCells
  generalize sgrAfter {} (fmt.rowT row) = s
  generalize blankGroups p fmt row = gs
  induction gs generalizing s with
  | nil => intro c hc; simp [groupCells] at hc
  | cons g r ih =>
    intro c hc
    simp only [groupCells, List.mem_cons] at hc
    rcases hc with rfl | hc
    · rfl
    · exact ih _ c hc

end Tup.Ph
