import Tup.Lemmas.DisplayCheck
/-!
  Bridge between the two retention specifications:

  * `Spec.Retention` (C04): ghost log of `(id, description, size, time)`, `stillThere` / `holdsCurrent`;
  * `Spec.Store` (C08): ghost log of `(id, token, rows, cols, size, time)`, `retained` / `printOk`.

  `retLog` forgets an arrival of the second kind into one of the first kind (the description string the
  database stores for that content and geometry). Under this map `latestFor`, `since`/`takeWhile` and
  `latestPerId`/`dedupNewest` coincide, so the two "still there" judgements differ only in the one clause
  `Spec.Store` adds on purpose (the byte quota never evicts the image that arrived last): `stillThere`
  implies `retained`, and `retained` implies `stillThere` unless nothing arrived since and the image alone
  exceeds the byte quota.

  With the simulation invariant `Rel` (`Lemmas/DisplayInv.lean`) this gives the history-level soundness of
  `needs_uploading` against `Spec.Retention` itself (`holdsCurrent_of_not_needs`), i.e. the full-strength
  statement `needsUploading_sound` of `Props/C04.lean`. (This file cannot be imported by `Props/C04.lean`:
  the invariant's proof uses the table-level theorems proved there.)
-/
namespace Tup.Display
open Tup Tup.Spec

/-- what the ghost log of `Spec.Retention` records of an arrival at the `Spec.Store` terminal -/
def retArrival (a : Arrival) : Retention.Arrival := ⟨a.id, Desc.str ⟨a.token, a.rows, a.cols⟩, a.size, a.time⟩

def retLog (L : List Arrival) : Retention.Log := L.map retArrival

@[simp] theorem retArrival_id (a : Arrival) : (retArrival a).id = a.id := rfl
@[simp] theorem retArrival_size (a : Arrival) : (retArrival a).size = a.size := rfl
@[simp] theorem retArrival_time (a : Arrival) : (retArrival a).time = a.time := rfl

theorem latestFor_retLog (L : List Arrival) (x : Nat) :
    Retention.latestFor (retLog L) x = (latestFor L x).map retArrival := by
  unfold Retention.latestFor latestFor retLog
  rw [List.find?_map]; rfl

theorem since_retLog (L : List Arrival) (x : Nat) :
    Retention.since (retLog L) x = retLog (L.takeWhile (·.id != x)) := by
  unfold Retention.since retLog
  rw [List.takeWhile_map]; rfl

theorem latestPerId_retLog : ∀ (P : List Arrival), Retention.latestPerId (retLog P) = retLog (dedupNewest P)
  | [] => rfl
  | a :: P => by
    have ih := latestPerId_retLog P
    unfold retLog at ih ⊢
    simp only [List.map_cons, Retention.latestPerId, dedupNewest, ih, List.filter_map]
    rfl

theorem laterImages_retLog (L : List Arrival) (x : Nat) :
    Retention.laterImages (retLog L) x = retLog (laterLatest L x) := by
  unfold Retention.laterImages laterLatest
  rw [since_retLog, latestPerId_retLog]

theorem length_retLog (L : List Arrival) : (retLog L).length = L.length := List.length_map _

theorem sizes_retLog (L : List Arrival) : (retLog L).map (·.size) = L.map (·.size) := by
  unfold retLog; rw [List.map_map]; rfl

/-- `Spec.Retention.stillThere`, spelled out on the `Spec.Store` log -/
theorem stillThere_iff (thr : Tup.Thresholds) (L : List Arrival) (x now : Nat) :
    Retention.stillThere thr (retLog L) x now = true ↔
      ∃ a, latestFor L x = some a ∧ (laterLatest L x).length < thr.maxUploads ∧
        a.size + ((laterLatest L x).map (·.size)).sum ≤ thr.maxBytes ∧ now ≤ a.time + thr.maxTime := by
  unfold Retention.stillThere
  rw [latestFor_retLog, laterImages_retLog]
  cases h : latestFor L x with
  | none => simp
  | some a =>
    show (decide ((retLog (laterLatest L x)).length < thr.maxUploads) &&
      decide (a.size + ((retLog (laterLatest L x)).map (·.size)).sum ≤ thr.maxBytes) &&
      decide (now ≤ a.time + thr.maxTime)) = true ↔ _
    simp only [length_retLog, sizes_retLog, Bool.and_eq_true, decide_eq_true_eq,
      Option.some.injEq, exists_eq_left', and_assoc]

/-- `Spec.Store.retained`, spelled out -/
theorem retained_iff (thr : Tup.Thresholds) (L : List Arrival) (x now : Nat) :
    retained (specThr thr) L x now = true ↔
      ∃ a, latestFor L x = some a ∧ (laterLatest L x).length < thr.maxUploads ∧
        (laterLatest L x = [] ∨ a.size + ((laterLatest L x).map (·.size)).sum ≤ thr.maxBytes) ∧
        now ≤ a.time + thr.maxTime := by
  unfold retained
  cases h : latestFor L x with
  | none => simp
  | some a =>
    have ht : now - a.time ≤ thr.maxTime ↔ now ≤ a.time + thr.maxTime := by omega
    show (decide ((laterLatest L x).length < thr.maxUploads) &&
      ((laterLatest L x).isEmpty || decide (a.size + ((laterLatest L x).map (·.size)).sum ≤ thr.maxBytes)) &&
      decide (now - a.time ≤ thr.maxTime)) = true ↔ _
    simp only [ ht, Bool.and_eq_true, Bool.or_eq_true, decide_eq_true_eq, List.isEmpty_iff,
      Option.some.injEq, exists_eq_left', and_assoc]

/-- the description the `Spec.Retention` log carries for the latest arrival of `x` -/
theorem latestDesc_retLog {L : List Arrival} {x : Nat} {a : Arrival} (h : latestFor L x = some a) :
    Retention.latestFor (retLog L) x = some (retArrival a) := by
  rw [latestFor_retLog, h]; rfl

/-- `Spec.Retention.strictlyIncreasing` (adjacent arrivals) is `StrictTimes` (all pairs) on the forgotten log -/
theorem strictlyIncreasing_retLog : ∀ (L : List Arrival),
    Retention.strictlyIncreasing (retLog L) = true ↔ L.Pairwise (fun a b => a.time > b.time)
  | [] => by simp [retLog, Retention.strictlyIncreasing]
  | [a] => by simp [retLog, Retention.strictlyIncreasing]
  | a :: b :: rest => by
    have ih := strictlyIncreasing_retLog (b :: rest)
    unfold retLog at ih ⊢
    simp only [List.map_cons, Retention.strictlyIncreasing, Bool.and_eq_true, decide_eq_true_eq] at ih ⊢
    rw [ih, List.pairwise_cons (a := a)]
    simp only [retArrival_time, List.mem_cons, forall_eq_or_imp, gt_iff_lt]
    constructor
    · rintro ⟨hab, hp⟩
      refine ⟨⟨hab, fun c hc => ?_⟩, hp⟩
      have := (List.pairwise_cons.1 hp).1 c hc
      omega
    · rintro ⟨⟨hab, _⟩, hp⟩
      exact ⟨hab, hp⟩

/-- **Soundness of `needs_uploading` against `Spec.Retention`** (C04's ghost-log specification): whenever
    the table and the logs are related by `Rel` and arrival times at `T` strictly increase, the answer "no
    upload needed" for an id bound to `info.desc` implies that the latest arrival of `x` at `T` carries
    that description and is still there by the standard of `Spec.Retention`. -/
theorem holdsCurrent_of_not_needs {db : Db} {logs : String → List Arrival} {x now : Nat} {T : String}
    {thr : Tup.Thresholds} {info : Row}
    (hrel : Rel db.uploads logs) (hs : (logs T).Pairwise (fun a b => a.time > b.time))
    (hinfo : getInfo db x = .ok (some info))
    (hneeds : needsUploading db x T thr now = .ok false) :
    Retention.holdsCurrent thr (retLog (logs T)) x info.desc now = true := by
  obtain ⟨row, hrow, hrd, hcnt, hbytes, htime⟩ := C04.needsUploading_sound_partial hinfo hneeds
  unfold uploadRow at hrow
  obtain ⟨hmem, hid, hterm⟩ := ulookup_mem hrow
  obtain ⟨a, hl, hsize, hat, hstr⟩ := hrel.latest row hmem
  rw [hterm, hid] at hl
  have hle := later_le_table (us := db.uploads) (L := logs T) (T := T) hs hl hat (by
    intro y b hyb hlt
    have := hrel.newer row hmem y b (by rw [hterm]; exact hyb) hlt
    rw [hterm] at this; exact this)
  have hst : Retention.stillThere thr (retLog (logs T)) x now = true :=
    (stillThere_iff thr (logs T) x now).2 ⟨a, hl, by omega, by omega, by omega⟩
  unfold Retention.holdsCurrent
  rw [latestDesc_retLog hl, hst]
  simp only [Bool.and_true, beq_iff_eq]
  show Desc.str ⟨a.token, a.rows, a.cols⟩ = info.desc
  rw [← hstr, hrd]

/-! ### the converse: the table counts at most what the terminal counts -/

/-- an entry that is the first of its id is kept by `dedupNewest` -/
theorem mem_dedupNewest_of_latest : ∀ {P : List Arrival} {c : Arrival}, latestFor P c.id = some c → c ∈ dedupNewest P
  | [], _, h => by simp [latestFor] at h
  | e :: P, c, h => by
    rw [latestFor_cons] at h
    simp only [dedupNewest, List.mem_cons, List.mem_filter, bne_iff_ne, ne_eq]
    by_cases he : e.id = c.id
    · rw [if_pos he] at h; injection h with h; exact Or.inl h.symm
    · rw [if_neg he] at h
      exact Or.inr ⟨mem_dedupNewest_of_latest h, fun e' => he e'.symm⟩

/-- first-of-its-id in the whole log and inside a `takeWhile` prefix: first-of-its-id in the prefix -/
theorem latestFor_takeWhile_of_mem (p : Arrival → Bool) : ∀ {L : List Arrival} {c : Arrival},
    latestFor L c.id = some c → c ∈ L.takeWhile p → latestFor (L.takeWhile p) c.id = some c
  | [], _, _, hm => by simp at hm
  | e :: L, c, h, hm => by
    rw [List.takeWhile_cons] at hm ⊢
    cases hp : p e with
    | false => rw [hp] at hm; simp at hm
    | true =>
      rw [hp] at hm
      simp only [if_true] at hm ⊢
      rw [latestFor_cons] at h ⊢
      by_cases he : e.id = c.id
      · rw [if_pos he] at h ⊢; exact h
      · rw [if_neg he] at h ⊢
        rcases List.mem_cons.1 hm with rfl | hm
        · exact absurd rfl he
        · exact latestFor_takeWhile_of_mem p h hm

/-- times non-decreasing in arrival order: an entry strictly newer (by its time) than the latest arrival
    of `x` lies before it in the log -/
theorem mem_takeWhile_of_newer : ∀ {L : List Arrival} {x : Nat} {a b : Arrival},
    L.Pairwise (fun a b => a.time ≥ b.time) → latestFor L x = some a → b ∈ L → a.time < b.time →
    b ∈ L.takeWhile (·.id != x)
  | [], _, _, _, _, _, hb, _ => by cases hb
  | c :: L, x, a, b, hs, hl, hb, hlt => by
    rw [latestFor_cons] at hl
    rw [List.pairwise_cons] at hs
    by_cases hc : c.id = x
    · rw [if_pos hc] at hl
      injection hl with hl; subst hl
      rcases List.mem_cons.1 hb with rfl | hb
      · omega
      · have := hs.1 b hb; omega
    · rw [if_neg hc] at hl
      have hcx : (c.id != x) = true := by simpa using hc
      rw [List.takeWhile_cons, hcx]
      simp only [if_true, List.mem_cons]
      rcases List.mem_cons.1 hb with rfl | hb
      · exact Or.inl rfl
      · exact Or.inr (mem_takeWhile_of_newer hs.2 hl hb hlt)

/-- the rows of one terminal have distinct ids -/
theorem ulater_ids_nodup {us : List URow} (hk : UKeysNodup us) (T : String) (t : Nat) :
    ((ulater us T t).map (·.id)).Nodup := by
  unfold UKeysNodup at hk
  unfold ulater
  rw [List.nodup_iff_pairwise_ne, List.pairwise_map] at hk ⊢
  refine (hk.filter _).imp_of_mem ?_
  intro r r' hr hr' hne e
  simp only [List.mem_filter, Bool.and_eq_true, beq_iff_eq, decide_eq_true_eq] at hr hr'
  exact hne (by rw [e, hr.2.1, hr'.2.1])

/-- Every record of the table is the latest arrival of its id at its terminal (`Rel.latest`), keys are
    unique, times do not decrease: the rows the table counts for `x` (`ulater`) are at most as many, and at
    most as heavy, as the images `Spec.Store` / `Spec.Retention` count (`laterLatest`). -/
theorem table_le_later {us : List URow} {logs : String → List Arrival} {T : String} {x : Nat} {a : Arrival}
    (hrel : Rel us logs) (hk : UKeysNodup us)
    (hs : (logs T).Pairwise (fun a b => a.time ≥ b.time)) (hl : latestFor (logs T) x = some a) :
    (ulater us T a.time).length ≤ (laterLatest (logs T) x).length ∧
    ((ulater us T a.time).map (·.size)).sum ≤ ((laterLatest (logs T) x).map (·.size)).sum := by
  apply inj_count (fun w : URow => w.id) (fun v : Arrival => v.id) (fun w : URow => w.size) (fun v : Arrival => v.size) _ _
    (ulater_ids_nodup hk T a.time)
  intro r hr
  unfold ulater at hr
  simp only [List.mem_filter, Bool.and_eq_true, beq_iff_eq, decide_eq_true_eq] at hr
  obtain ⟨hmem, hterm, hlt⟩ := hr
  obtain ⟨b, hb, hsize, htime, _⟩ := hrel.latest r hmem
  rw [hterm] at hb
  obtain ⟨hbL, hbid⟩ := latestFor_mem hb
  have hpre : b ∈ (logs T).takeWhile (·.id != x) := mem_takeWhile_of_newer hs hl hbL (by omega)
  refine ⟨b, ?_, hbid, hsize⟩
  unfold laterLatest
  apply mem_dedupNewest_of_latest
  apply latestFor_takeWhile_of_mem _ _ hpre
  rw [hbid]; exact hb

/-- **Completeness of `needs_uploading` against `Spec.Retention`**: if the record of `(x, T)` survived every
    upload-table clean-up, the latest arrival of `x` at `T` carries the description now bound to `x` and
    is still there by the standard of `Spec.Retention`, then no re-upload is requested. -/
theorem not_needs_of_holdsCurrent {db : Db} {logs : String → List Arrival} {x now : Nat} {T : String}
    {thr : Tup.Thresholds} {info : Row} {row : URow}
    (hrel : Rel db.uploads logs) (hk : UKeysNodup db.uploads)
    (hs : (logs T).Pairwise (fun a b => a.time ≥ b.time))
    (hinfo : getInfo db x = .ok (some info)) (hrow : uploadRow db x T = some row)
    (hold : Retention.holdsCurrent thr (retLog (logs T)) x info.desc now = true) :
    needsUploading db x T thr now = .ok false := by
  unfold Retention.holdsCurrent at hold
  rw [Bool.and_eq_true] at hold
  obtain ⟨hd, hst⟩ := hold
  obtain ⟨a, hl, hn, hb, ht⟩ := (stillThere_iff thr (logs T) x now).1 hst
  rw [latestDesc_retLog hl] at hd
  have hd' : Desc.str ⟨a.token, a.rows, a.cols⟩ = info.desc := by simpa [retArrival] using hd
  have hrow' := hrow
  unfold uploadRow at hrow'
  obtain ⟨hmem, hid, hterm⟩ := ulookup_mem hrow'
  obtain ⟨a', hl', hsize, hat, hstr⟩ := hrel.latest row hmem
  rw [hterm, hid, hl] at hl'
  injection hl' with hl'; subst hl'
  have hle := table_le_later hrel hk hs hl
  rw [hat] at hle
  exact C04.needsUploading_complete_partial hinfo hrow (by rw [hstr, hd']) (by omega) (by omega) (by omega)

/-- strictly decreasing (newest first) is in particular non-increasing -/
theorem nonDecreasing_of_strict {L : List Arrival} (h : L.Pairwise (fun a b => a.time > b.time)) :
    L.Pairwise (fun a b => a.time ≥ b.time) := h.imp (fun h => Nat.le_of_lt h)

end Tup.Display
