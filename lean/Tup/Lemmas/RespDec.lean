import Tup.Lemmas.RespMulti
import Tup.Lemmas.RespUtf8
/-! A well-formed response (UTF-8 in the specification's sense) is decodable by the model's decoder. -/
open Tup Tup.Response
open Tup.Spec.Response (Wf Key wf keyOk msgOk)

namespace Tup.RespLemmas

theorem decodable_of_wf (w : Wf) (hw : wf w = true) : decodable w = true := by
  simp only [wf, Bool.and_eq_true, List.all_eq_true] at hw
  obtain ⟨⟨⟨⟨⟨hkeys, _⟩, _⟩, _⟩, _⟩, hmsg⟩ := hw
  simp only [decodable, Bool.and_eq_true, List.all_eq_true]
  constructor
  · intro k hk
    have := hkeys k hk
    cases k with
    | imageId n => rfl
    | imageNumber n => rfl
    | placementId n => rfl
    | extra k v =>
      simp only [keyOk, Bool.and_eq_true] at this
      obtain ⟨⟨⟨⟨_, hu⟩, _⟩, _⟩, hv⟩ := this
      cases v with
      | none => simp [decodableKey, isUtf8_imp k hu]
      | some v =>
        simp only [Bool.and_eq_true] at hv
        simp [decodableKey, isUtf8_imp k hu, isUtf8_imp v hv.1.1]
  · cases hm : w.message with
    | none => rfl
    | some m =>
      rw [hm] at hmsg
      simp only [msgOk, Bool.and_eq_true] at hmsg
      exact isUtf8_imp m hmsg.1

end Tup.RespLemmas
