import Tup.Model.Db
/-!
  Helper lemmas about `Model.Db`: the `ids`/`setIds` update laws, extensional behaviour of the table
  fragments (`lookup` after `upsert` / `erase` / `setAtime` / `eraseAll`), preservation of key
  uniqueness, and the meaning of the admissible-answer sets. Core Lean only.
-/
namespace Tup.DbLemmas
open Tup

/-! ## `ids` / `setIds` -/

theorem idx_lt (s : Space) : s.idx < 5 := by
  unfold Space.idx; split <;> (try split) <;> (try split) <;> omega

@[simp] theorem ids_setIds_same (db : Db) (s : Space) (t : Table) : (db.setIds s t).ids s = t := by
  have := idx_lt s
  unfold Db.setIds Db.ids
  split <;> simp_all

theorem ids_setIds_of_idx_ne (db : Db) {s s' : Space} (t : Table) (h : s'.idx ≠ s.idx) :
    (db.setIds s t).ids s' = db.ids s' := by
  have h1 := idx_lt s
  have h2 := idx_lt s'
  unfold Db.setIds Db.ids
  split <;> split <;> simp_all <;> omega

@[simp] theorem uploads_setIds (db : Db) (s : Space) (t : Table) : (db.setIds s t).uploads = db.uploads := by
  unfold Db.setIds; split <;> rfl

theorem idx_inj {s s' : Space} (hs : s ∈ Space.all) (hs' : s' ∈ Space.all) (h : s.idx = s'.idx) : s = s' := by
  simp only [Space.all, List.mem_cons, List.not_mem_nil, or_false] at hs hs'
  rcases hs with rfl | rfl | rfl | rfl | rfl <;> rcases hs' with rfl | rfl | rfl | rfl | rfl <;>
    first | rfl | (exfalso; revert h; decide)

theorem ids_setIds_of_ne (db : Db) {s s' : Space} (t : Table) (hs : s ∈ Space.all) (hs' : s' ∈ Space.all)
    (h : s' ≠ s) : (db.setIds s t).ids s' = db.ids s' :=
  ids_setIds_of_idx_ne db t (fun e => h (idx_inj hs' hs e))

theorem ids_setIds (db : Db) {s s' : Space} (t : Table) (hs : s ∈ Space.all) (hs' : s' ∈ Space.all) :
    (db.setIds s t).ids s' = if s' = s then t else db.ids s' := by
  by_cases h : s' = s
  · subst h; simp
  · simp [h, ids_setIds_of_ne db t hs hs' h]

theorem ids_empty (s : Space) : Db.empty.ids s = [] := by
  unfold Db.ids Db.empty; split <;> rfl

/-! ## lookups -/

theorem lookup_eq_some {t : Table} {id : Nat} {r : Row} (h : t.lookup id = some r) : r ∈ t ∧ r.id = id := by
  unfold Table.lookup at h
  exact ⟨List.mem_of_find?_eq_some h, by simpa using List.find?_some h⟩

theorem lookup_eq_none {t : Table} {id : Nat} : t.lookup id = none ↔ ∀ r ∈ t, r.id ≠ id := by
  unfold Table.lookup; simp

theorem lookup_of_mem {t : Table} (hn : t.KeysNodup) {r : Row} (h : r ∈ t) : t.lookup r.id = some r := by
  induction t with
  | nil => cases h
  | cons x xs ih =>
    unfold Table.KeysNodup at hn
    simp only [List.map_cons, List.nodup_cons] at hn
    rcases List.mem_cons.1 h with rfl | h'
    · unfold Table.lookup; rw [List.find?_cons_of_pos]; simp
    · have hne : x.id ≠ r.id := fun e => hn.1 (e ▸ List.mem_map_of_mem (f := (·.id)) h')
      have := ih hn.2 h'
      unfold Table.lookup at this ⊢
      rw [List.find?_cons_of_neg (by simpa using hne)]; exact this

theorem lookup_erase (t : Table) (id id' : Nat) :
    (t.erase id).lookup id' = if id' = id then none else t.lookup id' := by
  unfold Table.erase Table.lookup
  rw [List.find?_filter]
  by_cases h : id' = id
  · subst h; simp
  · simp only [h, ↓reduceIte]
    congr 1; funext a
    by_cases ha : a.id = id'
    · subst ha; simp [h]
    · simp [ha]

theorem lookup_upsert (t : Table) (r : Row) (id : Nat) :
    (t.upsert r).lookup id = if r.id = id then some r else t.lookup id := by
  have he := lookup_erase t r.id id
  unfold Table.upsert
  unfold Table.lookup at he ⊢
  by_cases h : r.id = id
  · rw [List.find?_cons_of_pos (by simpa using h)]; simp [h]
  · rw [List.find?_cons_of_neg (by simpa using h), he]
    have : ¬ id = r.id := fun e => h e.symm
    simp [h, this]

theorem lookup_setAtime (t : Table) (id now id' : Nat) :
    (t.setAtime id now).lookup id' =
      (t.lookup id').map (fun r => if r.id = id then { r with atime := now } else r) := by
  unfold Table.setAtime Table.lookup
  rw [List.find?_map]
  have : ((fun r : Row => r.id == id') ∘ fun r : Row => if (r.id == id) = true then { r with atime := now } else r)
      = fun r : Row => r.id == id' := by
    funext r; simp only [Function.comp]; split <;> rfl
  rw [this]
  congr 1; funext r; simp

theorem lookup_eraseAll (t : Table) (ids : List Nat) (id : Nat) :
    (t.eraseAll ids).lookup id = if id ∈ ids then none else t.lookup id := by
  unfold Table.eraseAll Table.lookup
  simp only [Std.HashSet.contains_ofList]
  rw [List.find?_filter]
  by_cases h : id ∈ ids
  · simp only [h, ↓reduceIte, List.find?_eq_none]
    intro a _; by_cases ha : a.id = id <;> simp [ha, h]
  · simp only [h, ↓reduceIte]
    congr 1; funext a
    by_cases ha : a.id = id <;> simp [ha, h]

/-! ## key uniqueness is preserved -/

theorem keysNodup_nil : Table.KeysNodup [] := List.nodup_nil

theorem keysNodup_filter {t : Table} (p : Row → Bool) (h : t.KeysNodup) : Table.KeysNodup (t.filter p) := by
  unfold Table.KeysNodup at *
  exact (List.filter_sublist.map _).nodup h

theorem keysNodup_erase {t : Table} (id : Nat) (h : t.KeysNodup) : (t.erase id).KeysNodup :=
  keysNodup_filter _ h

theorem keysNodup_eraseAll {t : Table} (ids : List Nat) (h : t.KeysNodup) : (t.eraseAll ids).KeysNodup :=
  keysNodup_filter _ h

theorem keysNodup_upsert {t : Table} (r : Row) (h : t.KeysNodup) : (t.upsert r).KeysNodup := by
  unfold Table.upsert Table.KeysNodup
  simp only [List.map_cons, List.nodup_cons]
  refine ⟨?_, keysNodup_erase r.id h⟩
  unfold Table.erase
  simp

theorem keysNodup_setAtime {t : Table} (id now : Nat) (h : t.KeysNodup) : (t.setAtime id now).KeysNodup := by
  unfold Table.KeysNodup Table.setAtime at *
  have : (t.map fun r => if (r.id == id) = true then { r with atime := now } else r).map (·.id) = t.map (·.id) := by
    rw [List.map_map]; apply List.map_congr_left; intro r _; simp only [Function.comp]; split <;> rfl
  rw [this]; exact h

/-! ## membership in the modified tables -/

theorem mem_upsert {t : Table} {r x : Row} (h : x ∈ t.upsert r) : x = r ∨ x ∈ t := by
  unfold Table.upsert Table.erase at h
  rcases List.mem_cons.1 h with h | h
  · exact Or.inl h
  · exact Or.inr (List.mem_filter.1 h).1

theorem mem_setAtime {t : Table} {id now : Nat} {x : Row} (h : x ∈ t.setAtime id now) :
    ∃ y ∈ t, y.id = x.id ∧ y.desc = x.desc := by
  unfold Table.setAtime at h
  obtain ⟨y, hy, rfl⟩ := List.mem_map.1 h
  exact ⟨y, hy, by split <;> rfl, by split <;> rfl⟩

/-! ## oldest rows -/

theorem minAtime_le {rows : List Row} {m : Nat} (h : minAtime rows = some m) : ∀ r ∈ rows, m ≤ r.atime := by
  induction rows generalizing m with
  | nil => intro r hr; cases hr
  | cons x xs ih =>
    intro r hr
    simp only [minAtime] at h
    cases hm : minAtime xs with
    | none =>
      rw [hm] at h
      have : xs = [] := by
        cases xs with
        | nil => rfl
        | cons y ys => simp only [minAtime] at hm; split at hm <;> cases hm
      subst this
      simp only [List.mem_cons, List.not_mem_nil, or_false] at hr
      subst hr; injection h with h; omega
    | some m' =>
      rw [hm] at h
      injection h with h
      rcases List.mem_cons.1 hr with rfl | hr'
      · omega
      · have := ih hm r hr'; omega

theorem minAtime_eq_none {rows : List Row} (h : minAtime rows = none) : rows = [] := by
  cases rows with
  | nil => rfl
  | cons y ys => simp only [minAtime] at h; split at h <;> cases h

theorem maxAtime_eq_none {rows : List Row} (h : maxAtime rows = none) : rows = [] := by
  cases rows with
  | nil => rfl
  | cons y ys => simp only [maxAtime] at h; split at h <;> cases h

theorem maxAtime_ge {rows : List Row} {m : Nat} (h : maxAtime rows = some m) : ∀ r ∈ rows, r.atime ≤ m := by
  induction rows generalizing m with
  | nil => intro r hr; cases hr
  | cons x xs ih =>
    intro r hr
    simp only [maxAtime] at h
    cases hm : maxAtime xs with
    | none =>
      rw [hm] at h
      have := maxAtime_eq_none hm
      subst this
      simp only [List.mem_cons, List.not_mem_nil, or_false] at hr
      subst hr; injection h with h; omega
    | some m' =>
      rw [hm] at h
      injection h with h
      rcases List.mem_cons.1 hr with rfl | hr'
      · omega
      · have := ih hm r hr'; omega

/-- an id in `oldestIds rows` belongs to a row of `rows` that no row of `rows` is older than -/
theorem oldestIds_spec {rows : List Row} {id : Nat} (h : (oldestIds rows).contains id = true) :
    ∃ v ∈ rows, v.id = id ∧ ∀ r ∈ rows, v.atime ≤ r.atime := by
  unfold oldestIds at h
  cases hm : minAtime rows with
  | none => rw [hm] at h; simp at h
  | some m =>
    rw [hm] at h
    simp only [List.contains_eq_mem, List.mem_map, List.mem_filter, beq_iff_eq, decide_eq_true_eq] at h
    obtain ⟨v, ⟨hv, hvm⟩, hid⟩ := h
    exact ⟨v, hv, hid, fun r hr => by have := minAtime_le hm r hr; omega⟩

end Tup.DbLemmas
