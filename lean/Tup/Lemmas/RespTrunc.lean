import Tup.Lemmas.RespMain
/-!
  Lemmas for C19, part 5: input without a complete response runs into the deadline and is handed
  back whole; several responses in a row.
-/
open Tup Tup.Response
open Tup.Spec.Response (Wf encode expected wf noiseOk)

namespace Tup.RespLemmas

/-- `s` contains `ESC _ G … ESC \` -/
def HasComplete (s : Bytes) : Prop := ∃ a b c, s = a ++ intro ++ b ++ term ++ c

/-- no introducer: everything is read and the deadline passes -/
theorem scan_no_intro (s pre : Bytes) (h : ¬ intro <:+: pre ++ s) :
    scanLoop s pre.reverse false = .deadline (pre ++ s) := by
  induction s generalizing pre with
  | nil => simp [scanLoop]
  | cons b t ih =>
    have hf := isPrefixOf_rev_false (pat := intro) (pre := pre) (b := b) (t := t) h
    have h' : ¬ intro <:+: (pre ++ [b]) ++ t := by simpa using h
    have := ih (pre ++ [b]) h'
    simp only [scanLoop, Bool.false_eq_true, ↓reduceIte, hf]
    simp only [List.reverse_append, List.reverse_cons, List.reverse_nil, List.nil_append,
      List.singleton_append, List.append_assoc] at this
    exact this

/-- after the introducer, no terminator: everything is read and the deadline passes -/
theorem scan_no_term (t rb : Bytes) (x : UInt8) (h : ¬ term <:+: x :: t) :
    scanLoop t (x :: rb) true = .deadline ((x :: rb).reverse ++ t) := by
  induction t generalizing rb x with
  | nil => simp [scanLoop]
  | cons b u ih =>
    have hb : ¬ (x = 27 ∧ b = 92) := by
      intro ⟨h1, h2⟩
      apply h
      subst h1 h2
      exact ⟨[], u, by simp [term]⟩
    have ht : ¬ term <:+: b :: u := fun hi => h (List.infix_cons hi)
    have hf : term.reverse.isPrefixOf (b :: x :: rb) = false := by
      simp only [term, List.reverse_cons, List.reverse_nil, List.nil_append, List.singleton_append,
        List.isPrefixOf, Bool.and_true]
      cases h1 : (92 : UInt8) == b <;> cases h2 : (27 : UInt8) == x <;> simp_all
    simp only [scanLoop, ↓reduceIte, hf, Bool.false_eq_true]
    rw [ih (x :: rb) b ht]
    simp

/-- the leftmost occurrence of the introducer -/
theorem first_intro (s : Bytes) (h : intro <:+: s) : ∃ a t, s = a ++ intro ++ t ∧ ¬ intro <:+: a := by
  induction s with
  | nil =>
    have := List.eq_nil_of_infix_nil h
    simp [intro] at this
  | cons b u ih =>
    by_cases hp : intro <+: b :: u
    · obtain ⟨t, ht⟩ := hp
      refine ⟨[], t, by simp [ht], ?_⟩
      intro hh
      have := List.eq_nil_of_infix_nil hh
      simp [intro] at this
    · have hu : intro <:+: u := by
        rcases List.infix_cons_iff.mp h with h1 | h1
        · exact absurd h1 hp
        · exact h1
      obtain ⟨a, t, hs, ha⟩ := ih hu
      refine ⟨b :: a, t, by simp [hs], ?_⟩
      intro hh
      rcases List.infix_cons_iff.mp hh with h1 | h1
      · apply hp
        obtain ⟨v, hv⟩ := h1
        exact ⟨v ++ intro ++ t, by rw [hs, ← List.cons_append, ← List.cons_append, ← hv]; simp⟩
      · exact ha h1

/-- No complete response in the input: the call runs into the deadline; the result is invalid,
    carries every byte that arrived as `non_response`, and nothing else is set. -/
theorem receive_incomplete (s : Bytes) (h : ¬ HasComplete s) :
    receive s = (.resp { isValid := false, nonResponse := s }, []) := by
  have hscan : scanResponse s = .deadline s := by
    by_cases hi : intro <:+: s
    · obtain ⟨a, t, hs, ha⟩ := first_intro s hi
      have ht : ¬ term <:+: t := by
        intro ⟨b, c, hbc⟩
        exact h ⟨a, b, c, by rw [hs, ← hbc]; simp⟩
      have hx : ¬ term <:+: (71 : UInt8) :: t := by
        intro hh
        rcases List.infix_cons_iff.mp hh with hp | hh
        · obtain ⟨u, hu⟩ := hp
          simp [term] at hu
        · exact ht hh
      have h1 := scan_phase1 a [] t (by simpa using ha)
      simp only [List.reverse_nil, List.append_nil] at h1
      unfold scanResponse
      rw [hs, h1]
      have e2 : intro.reverse ++ a.reverse = 71 :: 95 :: 27 :: a.reverse := by simp [intro]
      rw [e2, scan_no_term t _ 71 hx]
      simp [intro]
    · have := scan_no_intro s [] (by simpa using hi)
      simpa [scanResponse] using this
  simp [receive, hscan]

end Tup.RespLemmas
