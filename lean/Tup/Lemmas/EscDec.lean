import Tup.Esc
/-!
  Decimal round trip: the terminal-side parameter parser reads back what `%d` printed.
  `decToNat? (natToDec n) = some n`, digits only, never empty.
-/
namespace Tup.EscL
open Tup

def decStep (acc : Nat) (b : UInt8) : Option Nat :=
  if 48 ≤ b.toNat ∧ b.toNat ≤ 57 then some (acc * 10 + (b.toNat - 48)) else none

def digitByte (d : Nat) : UInt8 := UInt8.ofNat (Nat.digitChar d).toNat

theorem digitByte_toNat (d : Nat) (h : d < 10) : (digitByte d).toNat = 48 + d := by
  unfold digitByte
  rw [Nat.toNat_digitChar_of_lt_ten h]
  simp [UInt8.toNat_ofNat]
  omega

theorem natToDec_lt (n : Nat) (h : n < 10) : natToDec n = [digitByte n] := by
  simp [natToDec, Nat.toDigits_of_lt_base h, digitByte]

theorem natToDec_ge (n : Nat) (h : 10 ≤ n) : natToDec n = natToDec (n / 10) ++ [digitByte (n % 10)] := by
  simp [natToDec, Nat.toDigits_of_base_le (by decide : 1 < 10) h, digitByte]

theorem natToDec_ne_nil (n : Nat) : natToDec n ≠ [] := by
  simp [natToDec, Nat.toDigits_ne_nil]

theorem foldlM_natToDec (n : Nat) : (natToDec n).foldlM decStep 0 = some n := by
  induction n using Nat.strongRecOn with
  | _ n ih =>
    by_cases h : n < 10
    · rw [natToDec_lt n h]
      simp [List.foldlM, decStep, digitByte_toNat n h]
      omega
    · have h10 : 10 ≤ n := by omega
      rw [natToDec_ge n h10, List.foldlM_append, ih (n / 10) (by omega)]
      have hd := digitByte_toNat (n % 10) (Nat.mod_lt _ (by decide))
      simp [List.foldlM, decStep, hd]
      omega

/-- decimal round trip -/
theorem decToNat_natToDec (n : Nat) : decToNat? (natToDec n) = some n := by
  unfold decToNat?
  have : (natToDec n).isEmpty = false := by
    cases h : natToDec n with
    | nil => exact absurd h (natToDec_ne_nil n)
    | cons _ _ => rfl
  rw [this]
  exact foldlM_natToDec n

/-- every byte `%d` prints is an ASCII digit -/
theorem natToDec_digits (n : Nat) : ∀ b ∈ natToDec n, 48 ≤ b.toNat ∧ b.toNat ≤ 57 := by
  induction n using Nat.strongRecOn with
  | _ n ih =>
    by_cases h : n < 10
    · rw [natToDec_lt n h]
      intro b hb
      simp at hb
      rw [hb, digitByte_toNat n h]; omega
    · have h10 : 10 ≤ n := by omega
      rw [natToDec_ge n h10]
      intro b hb
      rcases List.mem_append.mp hb with hb | hb
      · exact ih (n / 10) (by omega) b hb
      · simp at hb
        rw [hb, digitByte_toNat _ (Nat.mod_lt _ (by decide))]
        have := Nat.mod_lt n (by decide : 0 < 10)
        omega

end Tup.EscL
