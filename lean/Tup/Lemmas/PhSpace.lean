import Tup.Lemmas.PhColor
import Tup.Spec.Layout
/-! Helper lemmas for C14: the layout specification in div/mod form; diacritic counts of the display mode. -/
namespace Tup.Ph
open Tup Tup.Spec

theorem byteOf1 (id : Nat) : byteOf 1 id = id / 256 % 256 := by simp [byteOf]
theorem byteOf2 (id : Nat) : byteOf 2 id = id / 65536 % 256 := by simp [byteOf]
theorem byteOf3 (id : Nat) : byteOf 3 id = id / 16777216 % 256 := by simp [byteOf]

/-- facts about an ID of space `s`, in div/mod form -/
theorem inSpace_facts (s : Space) (id : Nat) (h : inSpace s id = true) :
    0 < id ∧ id < 4294967296 ∧ ((id / 16777216 % 256 ≠ 0) ↔ s.use3rd = true) ∧
    ((id / 256 % 65536 ≠ 0) ↔ s.colorBits = 24) := by
  unfold inSpace at h
  simp only [Bool.and_eq_true, decide_eq_true_eq, beq_iff_eq, byteOf3, byteOf1, byteOf2] at h
  obtain ⟨⟨⟨h0, h1⟩, h3⟩, hc⟩ := h
  refine ⟨h0, by omega, ?_, ?_⟩
  · cases hu : s.use3rd <;> simp [hu] at h3 ⊢ <;> omega
  · split at hc
    · rename_i hcb
      simp only [decide_eq_true_eq] at hc
      simp [hcb]; omega
    · split at hc
      · rename_i hcb
        simp only [Bool.and_eq_true, decide_eq_true_eq] at hc
        simp [hcb]; omega
      · split at hc
        · rename_i hcb
          simp only [Bool.or_eq_true, decide_eq_true_eq] at hc
          simp [hcb]; omega
        · simp at hc

theorem counts_display (fewer : Bool) (sc b4 : Nat) :
    counts (displayMode fewer) sc b4 = if b4 = 0 then (2, if fewer then 0 else 2) else (3, if fewer then 0 else 3) := by
  unfold counts displayMode
  cases fewer <;> by_cases h : b4 = 0 <;> simp [h]

end Tup.Ph
