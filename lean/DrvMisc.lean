import Tup.Drv.Misc
def main : IO Unit := Tup.mainLoop Tup.Drv.Misc.handle
