import Tup.Drv.Cmd
def main : IO Unit := Tup.mainLoop Tup.Drv.Cmd.handle
