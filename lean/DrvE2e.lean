import Tup.Drv.E2e
def main : IO Unit := Tup.mainLoop Tup.Drv.E2e.handle
