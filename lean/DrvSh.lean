import Tup.Drv.Sh
def main : IO Unit := Tup.mainLoop Tup.Drv.Sh.handle
