import Tup.Drv.Ph
def main : IO Unit := Tup.mainLoop Tup.Drv.Ph.handle
