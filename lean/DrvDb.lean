import Tup.Drv.Db
def main : IO Unit := Tup.mainLoop Tup.Drv.Db.handle
