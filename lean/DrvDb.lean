import Tup.Drv.Db
def main : IO Unit := Tup.Drv.Db.mainLoop
