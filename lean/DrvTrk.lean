import Tup.Drv.Trk
def main : IO Unit := Tup.mainLoop Tup.Drv.Trk.handle
