-- Root of the library: every module that `lake build` (setup) must check.
import Tup.Basic
import Tup.DrvUtil
import Tup.Base64
import Tup.Esc
import Tup.Model.IdSpace
import Tup.Spec.Layout
import Tup.Spec.Diacritics
import Tup.Spec.Term
import Tup.Spec.Decode
import Tup.Gen.Diacritics
import Tup.Drv.Ids
import Tup.Props.C10
import Tup.Props.C09
import Tup.Drv.E2e
