import Tup.Basic
import Tup.DrvUtil
import Tup.Model.IdSpace
import Tup.Spec.Layout
import Tup.Drv.Ids
