import Tup.Drv.Ids
def main : IO Unit := Tup.mainLoop Tup.Drv.Ids.handle
