"""Entry point: python -m harness.main C05 --tier quick | --replay FILE | --setup"""
from __future__ import annotations

import argparse
import importlib
import json
import os
import sys
import traceback

from . import common
from .common import Ctx, ToolFailure, ensure_built, finish

ALL_DRIVERS = ["drv_ids", "drv_cmd", "drv_ph", "drv_db", "drv_sh", "drv_misc", "drv_trk", "drv_e2e"]


def all_props():
    return [json.loads(l)["id"] for l in open(common.VERIF / "properties.jsonl")]


def main(argv=None) -> int:
    ap = argparse.ArgumentParser()
    ap.add_argument("prop", nargs="?")
    ap.add_argument("--tier", default=os.environ.get("VERIF_TIER", "quick"), choices=["quick", "thorough"])
    ap.add_argument("--replay")
    ap.add_argument("--setup", action="store_true")
    ap.add_argument("--no-build", action="store_true", help="debugging only: skip lake build/audit")
    a = ap.parse_args(argv)
    try:
        seed = int(os.environ.get("VERIF_SEED", "1"))
    except ValueError:
        seed = 1
    if a.setup:
        try:
            lock_free_build()
        except ToolFailure as e:
            print("SETUP FAILED:", e)
            return 2
        return 0
    if not a.prop:
        ap.error("property id required")
    prop = a.prop.upper()
    import stat
    if not stat.S_ISCHR(os.stat("/dev/null").st_mode):
        print("TOOL FAILURE: /dev/null is not a character device in this sandbox (tmux, subprocesses and redirections depend on it)")
        return 2
    os.environ[common.GUARD] = "1"
    if prop in NEEDS_TTY and not os.environ.get("VERIF_IN_PTY"):
        return run_under_pty([sys.executable, "-m", "harness.main"] + (argv if argv is not None else sys.argv[1:]))
    sys.path.insert(0, str(common.REPO))
    # one scratch directory per run for everything the harness AND the library under test put into "the temp directory"
    # (the library leaves announced temporary files behind when no terminal consumes them); removed when the run ends
    import shutil
    import tempfile
    scratch = tempfile.mkdtemp(prefix=f"verif-{prop}-")
    os.environ["TMPDIR"] = scratch
    tempfile.tempdir = scratch
    from . import cov
    if cov.enabled():
        cov.start(prop, common.REPO, common.VERIF / "coverage")      # measurement only (see harness/cov.py)
    try:
        mod = importlib.import_module(f"harness.{prop.lower()}")
    except ModuleNotFoundError as e:
        print(f"no check implemented for {prop}: {e}")
        return 2
    ctx = Ctx(prop, a.tier, seed)
    try:
        info = None
        if not a.no_build:
            info = ensure_built(prop, getattr(mod, "DRIVERS", []), leanchecker=(a.tier == "thorough" and not a.replay))
        if a.replay:
            rp = json.load(open(a.replay))
            if "case" not in rp:
                print(f"replay file names no concrete input ({rp.get('kind')}); re-running the check instead")
                mod.run(ctx)
            else:
                mod.check_case(ctx, rp["case"])
                ctx.case(rp["case"])
            rc = finish(ctx, info, write_evidence=False, **getattr(mod, "EVIDENCE", {}))
        else:
            try:
                mod.run(ctx)
            except ToolFailure:
                raise
            except Exception as ex:
                # An exception that escapes a check from INSIDE the library under test (innermost frame in /repo/tupimage) is not a
                # failure of the tool: the implementation did something neither the model nor the harness provides for, i.e. the
                # correspondence no longer checks.  It is reported as such (with whatever failing inputs were found before it).
                tb = traceback.extract_tb(ex.__traceback__)
                if not tb or not tb[-1].filename.startswith(str(common.REPO) + os.sep):
                    raise
                ctx.mismatch("the implementation raised an exception no case of the check provides for",
                             {"where": f"{tb[-1].filename[len(str(common.REPO)) + 1:]}:{tb[-1].lineno} in {tb[-1].name}",
                              "harness_frame": next((f"{f.filename.rsplit('/', 1)[-1]}:{f.lineno}" for f in reversed(tb) if "/harness/" in f.filename), None)},
                             type(ex).__name__ + ": " + str(ex)[:300], "no exception")
                ctx.notes.append("the run stopped at an unexpected exception from the implementation; the cases after it were not executed")
            rc = finish(ctx, info, **getattr(mod, "EVIDENCE", {}))
        return rc
    except ToolFailure as e:
        print(f"TOOL FAILURE [{prop}]: {e}")
        return 2
    except Exception:
        traceback.print_exc()
        print(f"HARNESS ERROR [{prop}] (not a verdict)")
        return 2
    finally:
        ctx.close()
        if cov.enabled():
            cov.finish()
        tempfile.tempdir = None
        shutil.rmtree(scratch, ignore_errors=True)


# Properties whose harness constructs TupimageTerminal in-process: it always opens /dev/tty, so the
# whole check is re-executed as the session leader of a fresh pty (its stdout/stderr stay ours).
NEEDS_TTY = {"C04", "C08", "C09"}


def run_under_pty(cmd) -> int:
    import pty
    import select
    import fcntl
    import struct
    import termios

    pid, master = pty.fork()
    if pid == 0:
        # child: controlling tty = the new pty slave (fd 0/1/2); restore our real stdout/stderr
        os.dup2(SAVED_OUT, 1)
        os.dup2(SAVED_ERR, 2)
        os.environ["VERIF_IN_PTY"] = "1"
        os.execv(cmd[0], cmd)
    fcntl.ioctl(master, termios.TIOCSWINSZ, struct.pack("HHHH", 24, 80, 640, 384))
    # drain whatever the child writes to its tty so it never blocks
    status = None
    while True:
        r, _, _ = select.select([master], [], [], 0.2)
        if r:
            try:
                if not os.read(master, 65536):
                    pass
            except OSError:
                pass
        wpid, st = os.waitpid(pid, os.WNOHANG)
        if wpid == pid:
            status = st
            break
    os.close(master)
    return os.waitstatus_to_exitcode(status) if status is not None else 2


SAVED_OUT = os.dup(1)
SAVED_ERR = os.dup(2)


def lock_free_build():
    import subprocess
    common.regenerate_gen()
    r = subprocess.run(["lake", "build"], cwd=common.LEAN, stdout=subprocess.PIPE, stderr=subprocess.STDOUT, text=True)
    print(r.stdout[-3000:])
    if r.returncode != 0:
        raise ToolFailure("lake build failed")


if __name__ == "__main__":
    sys.exit(main())
