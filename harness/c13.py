"""C13 — each placeholder line is self-contained and leaves text attributes reset.

K: to_lines / to_stream bytes with every formatting kind (None, bytes, RowFormatting, CellFormatting)
   vs Tup.Model.Placeholder through drv_ph.
F (specification terminal + decoding rules on the REAL bytes):
   * any single line fed alone at the start of a blank row of a terminal in an arbitrary SGR state
     decodes to its row of the image, and fg/ul/bg are default afterwards;
   * any subset / permutation of the lines (joined by CR LF, as `head`, `tail`, `grep`, `sort`
     through a tty would show them) decodes to those rows, attributes default afterwards;
   * any complete output in any style leaves fg/ul/bg default;
   * with background formatting, only cells of the placeholder's rectangle carry a background.
Sequence cases (k = "seq"): 2..6 renderings in ONE fresh process (the same request again, with only
   no_escape flipped, other formatting, one parameter changed, …), each rendering judged on its own.
Argument cases (field "arg"): every field the constructor / validate() guard at and beyond its limits (ids 0, 2^24-1,
   2^24, 2^32-1, 2^32, negative; rectangles negative, empty, reversed, beyond 297), reaching the emitting call through
   the positional / keyword constructor, clone_with, attribute assignment (fresh and long-lived objects) and the
   keyword forms of GraphicsTerminal.print_placeholder.  F: EITHER the call refuses and nothing reaches the stream, OR
   every emitted line shown alone decodes to exactly the REQUESTED image id, placement id, row and columns (a line
   cannot carry a value outside what its colours and diacritics encode, so emitting it as something else is a failure).
"""
from __future__ import annotations

import json
from pathlib import Path

from . import ph_util as U
from .common import Ctx, ToolFailure
from .c07 import COLS_SMALL, ROWS, SGRS, byte_ids, byte_pids, geometry, fresh_request, neighbour_request, realise, stream_case

DRIVERS = ["drv_ph"]
EVIDENCE = dict(
    level="proof",
    trusted=[
        "Spec.Term (terminal model; validated against tmux 3.3a by harness/termcheck.py in the thorough tier)",
        "Spec.Decode + pinned 297-entry table",
        "expected screen positions of DESIGN.md A.5 as coded in harness/ph_util.expected",
    ],
)

DEFAULT = ["-", "-", "-"]


def bg_bytes(rng) -> str:
    """hex of one of the two forms the display path produces (get_formatting), or nothing"""
    r = rng.random()
    if r < 0.1:
        return ""
    if r < 0.55:
        return (b"\033[48;5;%dm" % rng.choice([0, 1, 3, 7, 255])).hex()
    return (b"\033[48;2;%d;%d;%dm" % (rng.choice([0, 1, 255]), rng.randrange(256), rng.choice([0, 128, 255]))).hex()


def rand_fmt(rng, p):
    t = rng.choice(["n", "b", "b", "r", "r", "c", "c"])
    if t == "n":
        return {"t": "n"}
    if t == "b":
        return {"t": "b", "b": bg_bytes(rng)}
    if t == "r":
        tab = {str(r): bg_bytes(rng) for r in range(p[3], min(p[5], p[3] + 6)) if rng.random() < 0.6}
        return {"t": "r", "d": bg_bytes(rng), "tab": tab}
    tab = {f"{c}.{r}": bg_bytes(rng) for r in range(p[3], min(p[5], p[3] + 6)) for c in range(p[2], min(p[4], p[2] + 8)) if rng.random() < 0.5}
    return {"t": "c", "d": bg_bytes(rng), "tab": tab}


# ---------------------------------------------------------------------------------------
def _impl(c):
    """the real code on a single case (in this process)"""
    p, m, f = c["ph"], c["mode"], c["fmt"]
    if c["k"] not in ("alone", "stream"):
        raise ValueError(c["k"])
    try:
        if c["k"] == "alone":
            return U.impl_lines(p, m, f, c.get("noesc", 0), None, c)
        return U.impl_stream(c["style"], p, m, f, c.get("via", "direct"), None, c)
    except ToolFailure:
        raise
    except Exception as e:      # neither output nor one of the two refusals: a status the model never gives
        return "err " + type(e).__name__, None


def _noesc(c):
    """no_escape=True is the explicit opt-out of the resets and colours: correspondence only"""
    return bool(c.get("noesc", 0)) if c["k"] == "alone" else (c["style"][0] == "lfall" and bool(c["style"][1]))


def _reqs(c, impl):
    p, m, f = c["ph"], c["mode"], c["fmt"]
    C = p[4] - p[2]
    if c["k"] == "alone":
        st, lines = impl
        reqs = [U.req_lines(p, m, f, c.get("noesc", 0))]
        if st == "ok" and not _noesc(c):
            # (also outside the domain of the property: what IS emitted must show what was requested)
            W = max(C, 1) + c.get("slack", 0)
            order = _order(c, lines)
            data = b"\r\n".join(lines[i] for i in order)
            reqs.append(U.req_spec(W, max(1, len(order)), 0, 0, 1, 1, 0, c.get("sgr", DEFAULT), data))
            for i in _single(c, lines):
                reqs.append(U.req_spec(W, 1, 0, 0, 1, 1, 0, c.get("sgr", DEFAULT), lines[i]))
        return reqs
    if c["k"] == "stream":
        style = c["style"]
        st, data = impl
        reqs = [U.req_stream(style, p, m, f)]
        if (st == "ok" and not _noesc(c)) or (st != "ok" and data):
            # complete output (also outside the domain), or whatever a refusing call wrote before it raised
            onlcr = 1 if (style[0] == "lfall" or (style[0] == "cur" and style[2]) or (style[0] == "disp" and style[1] is None and style[3])) else 0
            reqs.append(U.req_spec(c["W"], c["H"], c["x0"], c["y0"], c.get("cub", 1), c.get("rs", 1), onlcr, c.get("sgr", DEFAULT), data))
        return reqs
    raise ValueError(c["k"])


def _order(c, lines):
    """the lines shown (indices into what was emitted; an out-of-domain request may emit fewer lines than asked for)"""
    return [i for i in c["order"] if 0 <= i < len(lines)]


def _single(c, lines):
    return [i for i in c.get("single", []) if 0 <= i < len(lines)]


def _requests(c, res=None):
    """A sequence case (k = "seq") runs in its own fresh process (U.isolated); `res` = its result if already there."""
    if c["k"] == "seq":
        if res is None:
            res = U.isolated().run_many([c["calls"]])[0]
        return U.seq_requests(c, res, _reqs)
    impl = _impl(c)
    return impl, _reqs(c, impl)


def _check_screen(ctx, c, sp, want, rect, what):
    """decoding, attributes reset, background confinement"""
    if sp["ph"] != want:
        ctx.violation(f"{what}: cells do not decode to the requested image cells", c, U.diff_cells(sp["ph"], want), key="line-alone-decode")
    if sp["sgr"] != DEFAULT:
        ctx.violation(f"{what}: foreground/underline/background not back to default afterwards", c,
                      {"sgr(fg/ul/bg)": sp["sgr"]}, key="sgr-not-reset")
    leaked = [list(k) for k, v in sorted(sp["cells"].items()) if v[4] != "-" and k not in rect]
    if leaked:
        ctx.violation(f"{what}: background formatting outside the placeholder's cells", c, leaked[:5], key="background-leak")


def _judge(ctx: Ctx, c, impl, replies):
    if c["k"] == "seq":
        U.seq_judge(ctx, c, impl, replies, _judge, check_case)
        return
    p, f = c["ph"], c["fmt"]
    st, out = impl
    ctx.count("kind:" + c["k"])
    ctx.count("fmt:" + f["t"])
    ctx.count("impl:" + st)
    if _noesc(c):
        ctx.count("no_escape")
    if "arg" in c:
        a = c["arg"]
        ctx.count("arg-route:" + a["route"] + ":" + (c["k"] if c["k"] == "alone" else c["style"][0]))
        for g in a["edge"]:
            ctx.count("arg-edge:%s:%s" % (g, "emitted" if st == "ok" else "refused"))
        ctx.count("arg-domain:%s:%s" % ("in" if U.in_domain(p) else "out", "emitted" if st == "ok" else "refused"))
    elif st == "ok" and not U.in_domain(p):
        ctx.count("emitted-outside-domain")
    C = p[4] - p[2]
    if c["k"] == "alone":
        mst, mlines = U.model_lines(replies[0])
        if st != mst:
            ctx.mismatch("to_lines status", c, st, mst)
        elif st == "ok" and out != mlines:
            bad = next((i for i in range(max(len(out), len(mlines))) if i >= len(out) or i >= len(mlines) or out[i] != mlines[i]), None)
            ctx.mismatch("to_lines bytes", c, {"line": bad, "impl": out[bad].hex() if bad is not None and bad < len(out) else None},
                         {"line": bad, "model": mlines[bad].hex() if bad is not None and bad < len(mlines) else None})
        if len(replies) > 1:
            order = _order(c, out)
            ctx.count("order-len:%d" % min(len(order), 6))
            if any(p[3] + i >= U.TABLE for i in order):
                ctx.count("has-blank-row")
            want, rect = {}, set()
            for k, i in enumerate(order):
                for b in range(C):
                    rect.add((k, b))
                    if p[3] + i < U.TABLE:
                        want[(k, b)] = (p[0], p[1], p[3] + i, p[2] + b)
            _check_screen(ctx, c, U.parse_spec(replies[1]), want, rect, "subset/permutation of lines")
            for n, i in enumerate(_single(c, out)):
                want1 = {(0, b): (p[0], p[1], p[3] + i, p[2] + b) for b in range(C)} if p[3] + i < U.TABLE else {}
                _check_screen(ctx, dict(c, order=[i], single=[]), U.parse_spec(replies[2 + n]), want1, {(0, b) for b in range(C)}, "single line")
        return
    style = c["style"]
    ctx.count("style:" + style[0])
    mst, mdata = U.model_bytes(replies[0])
    if st != mst:
        ctx.mismatch("to_stream status", c, st, mst)
    elif st == "ok" and out != mdata:
        ctx.mismatch("to_stream bytes", c, out.hex()[:400], mdata.hex()[:400])
    if st != "ok" and out:
        # the call refused, but only after writing: the model's refusals write nothing (K); the statement's "after any
        # placeholder output" and "decodes to the right cells" apply to what did reach the terminal (F)
        ctx.mismatch("bytes written before the refusal", c, out.hex()[:400], None)
        if len(replies) > 1:
            sp = U.parse_spec(replies[1])
            want, _, _ = U.expected(style, p, c["W"], c["H"], c["x0"], c["y0"])
            stray = {k: v for k, v in sp["ph"].items() if want.get(k) != v}
            if stray or sp["sgr"] != DEFAULT:
                ctx.violation("the call raised after writing output that shows cells not requested or leaves attributes set", c,
                              {"stray": U.diff_cells(stray, {}), "sgr(fg/ul/bg)": sp["sgr"], "written": out.hex()[:200]},
                              key="refusal-after-output")
        return
    if len(replies) > 1:
        sp = U.parse_spec(replies[1])
        want, cur, s = U.expected(style, p, c["W"], c["H"], c["x0"], c["y0"])
        # the rectangle's cells including the non-addressable (blank) rows
        full, _, _ = U.expected(style, [p[0], p[1], p[2], 0, p[4], p[5] - p[3]], c["W"], c["H"], c["x0"], c["y0"])
        _check_screen(ctx, c, sp, want, set(full), "complete output")


def check_case(ctx: Ctx, c: dict):
    impl, reqs = _requests(c)
    replies = ctx.driver("drv_ph").ask_many(reqs)
    _judge(ctx, c, impl, replies)


def run_batch(ctx: Ctx, batch):
    if not batch:
        return
    seqs = [c for c in batch if c["k"] == "seq"]
    done = iter(U.isolated().run_many([c["calls"] for c in seqs])) if seqs else iter(())
    prepared = [(c,) + _requests(c, next(done) if c["k"] == "seq" else None) for c in batch]
    flat = [r for (_, _, reqs) in prepared for r in reqs]
    replies = ctx.driver("drv_ph").ask_many(flat)
    i = 0
    for c, impl, reqs in prepared:
        _judge(ctx, c, impl, replies[i:i + len(reqs)])
        i += len(reqs)
        ctx.case(c, nontrivial=(impl[0] == "seq" or impl[0] == "ok" and c["fmt"]["t"] != "n" or len(c.get("order", [])) > 1))


# ---------------------------------------------------------------------------------------
def cases(ctx: Ctx):
    rng = ctx.rng
    quick = ctx.quick
    ids = byte_ids()
    pids = byte_pids()
    modes = U.all_modes()
    rows = ROWS + [(0, 5), (293, 299), (296, 299)]
    # guarded arguments at and beyond their limits, through every route (first: never cut by the time budget)
    yield from arg_cases(rng, quick)
    n_alone = 5000 if quick else 60000
    for n in range(n_alone):
        m = modes[n % len(modes)]
        sc, ec = rng.choice(COLS_SMALL)
        sr, er = rng.choice(rows)
        p = [rng.choice(ids), rng.choice([0, 1, 0xFFFFFF]) if n % 2 else rng.choice(pids), sc, sr, ec, er]
        R = er - sr
        kind = rng.random()
        if kind < 0.3:
            order = list(range(R))
            rng.shuffle(order)                                    # permutation (sort, tac)
        elif kind < 0.6:
            order = sorted(rng.sample(range(R), rng.randrange(1, R + 1)))   # subset in order (head, tail, grep)
        elif kind < 0.8:
            order = [rng.randrange(R) for _ in range(rng.randrange(1, R + 2))]   # with repetitions
        else:
            order = list(range(R))
        yield dict(k="alone", ph=p, mode=m, fmt=rand_fmt(rng, p), order=order, single=list(range(R)) if R <= 3 or rng.random() < 0.3 else [rng.randrange(R)],
                   sgr=rng.choice(SGRS), slack=rng.choice([0, 0, 2]))
    n_stream = 3000 if quick else 40000
    styles = [["cur", 1, 0], ["cur", 0, 0], ["cur", 1, 1], ["lfall", 0], ["abs", 1, 0], ["abs", 0, 2]]
    for n in range(n_stream):
        m = modes[n % len(modes)]
        sc, ec = rng.choice(COLS_SMALL)
        sr, er = rng.choice(rows)
        p = [rng.choice(ids), rng.choice(pids), sc, sr, ec, er]
        style = styles[n % len(styles)]
        c = dict(k="stream", style=style, ph=p, mode=m, fmt=rand_fmt(rng, p), sgr=rng.choice(SGRS), rs=rng.randrange(2))
        c.update(geometry(rng, style, p))
        touches = c["x0"] + (ec - sc) == c["W"]
        c["cub"] = 1 if (style == ["cur", 0, 0] and touches) else rng.randrange(2)
        yield c
    # sequences of renderings in one process (state kept between calls: memoised colours / lines, shared objects, call order)
    yield from seq_cases(rng, 900 if quick else 9000, ids, pids, modes)


# ---------------------------------------------------------------------------------------
# argument cases: every guarded field at and beyond its limits, through every way a value reaches an emitting call
# ---------------------------------------------------------------------------------------
ID_EDGE = [0, 1, 255, 256, 2**24 - 1, 2**24, 2**24 + 1, 2**31, 2**32 - 1, 2**32, 2**32 + 1, 2**33 + 5, 2**40 + 7, -1, -255, -2**24, -2**31, -2**32]
PID_EDGE = [0, 1, 255, 256, 2**16, 2**24 - 1, 2**24, 2**24 + 1, 2**24 + 5, 2**24 + 256, 2**25, 2**25 + 2**16, 2**31, 2**32 - 1, 2**32,
            2**32 + 1, 2**40, -1, -5, -2**24, -2**31]
# (start, end) of a span: negative, empty, reversed, at and beyond the 297 addressable rows / columns; some valid ones
SPAN_EDGE = [(-1, 2), (-3, -1), (-2, 0), (-1, 0), (0, 0), (2, 2), (3, 2), (5, 1), (0, -1), (0, -3), (1, 0), (295, 297), (296, 297),
             (296, 298), (296, 299), (297, 297), (297, 298), (297, 299), (298, 297), (298, 296), (300, 303), (300, 300), (400, 399),
             (0, 1), (1, 3), (0, 3)]
ARG_MODES = [[1, 0, 1, 4, 4], [1, 0, 1, 3, 3], [1, 0, 1, 1, 0], [1, 1, 0, 4, 4], [0, 1, 1, 2, 1], [0, 0, 0, 3, 2], [1, 1, 1, 4, 0]]
ARG_ROUTES = ["ctor", "kw", "clone", "assign", "term-kw", "term-obj", "term-over", "slot"]
DIRECT_STYLES = [["cur", 1, 0], ["cur", 0, 0], ["cur", 1, 1], ["lfall", 0], ["abs", 1, 0], ["abs", 0, 2], ["disp", None, 1, 0],
                 ["disp", None, 0, 1], ["disp", [1, 1], 1, 0]]
TERM_STYLES = [["disp", None, 1, 0], ["disp", None, 0, 0], ["disp", None, 1, 1], ["disp", None, 0, 1], ["disp", [0, 0], 1, 0], ["disp", [2, 1], 0, 0]]


def arg_call(rng, p, base, route, m, f, edge):
    """ONE emitting call that is asked for the placeholder p (base = the valid placeholder it differs from in the fields
    `edge` names), the values travelling the way `route` says"""
    rect_ok = 0 <= p[2] < p[4] and 0 <= p[3] < p[5]
    q = list(p) if rect_ok else [1, 0, 0, 0, 2, 2]          # the rectangle the terminal geometry is laid out for
    changed = [i for i in range(6) if p[i] != base[i]]
    extra = {"arg": {"route": route, "edge": edge}}
    term = route.startswith("term")
    if route in ("kw", "clone", "assign"):
        extra["make"] = route
        if route != "kw":
            extra["from"] = list(base)
    elif route == "slot":
        extra["slot"] = 0
    elif route == "term-kw":
        extra["form"] = {"base": None, "over": [i for i in range(6) if p[i] != 0 or rng.random() < 0.5]}
    elif route == "term-obj":
        extra["form"] = {"base": "obj", "over": [], "junk": [0] * 6}
        how = rng.choice([None, "kw", "assign", "clone"])
        if how:
            extra["make"] = how
            if how != "kw":
                extra["from"] = list(base)
    elif route == "term-over":
        # the object holds the valid values; the offending ones arrive as keyword overrides (plus, sometimes, others)
        over = sorted(set(changed) | set(rng.sample(range(6), rng.choice([0, 0, 1, 2]))))
        extra["form"] = {"base": "obj", "over": over, "junk": list(base)}
    if rng.random() < 0.4:
        extra["omitopt"] = 1
    R = max(0, min(p[5] - p[3], 8))
    if not term and rng.random() < 0.4:
        c = dict(k="alone", ph=list(p), mode=m, fmt=f, order=rand_order(rng, R) if R else [], single=list(range(R)) if R <= 3 else [0, R - 1],
                 sgr=rng.choice(SGRS), slack=rng.choice([0, 0, 2]))
        if rng.random() < 0.12:
            c["noesc"] = 1
    else:
        style = rng.choice(TERM_STYLES) if term else (["lfall", 1] if rng.random() < 0.06 else rng.choice(DIRECT_STYLES))
        c = stream_case(rng, q, m, f, style=style, via="term" if term else "direct")
        c["ph"] = list(p)
    c.update(extra)
    return c


def arg_cases(rng, quick):
    """For every edge value of every guarded field group (image id, placement id, column span, row span; sometimes two
    groups at once) x every route: single calls, and for the long-lived-object route a sequence in one process — the
    object emits a valid placeholder, is re-assigned to the edge values, emits (or refuses), is re-assigned back, emits."""
    groups = [("id", ID_EDGE), ("pid", PID_EDGE), ("cols", SPAN_EDGE), ("rows", SPAN_EDGE)]
    reps = 1 if quick else 6
    for _rep in range(reps):
        for g, edges in groups:
            extra_edges = []
            if g == "pid":
                extra_edges = [rng.randrange(2**24, 2**32) for _ in range(6)] + [rng.randrange(2**24, 2**32) & ~0xFFFFFF for _ in range(2)]
            elif g == "id":
                extra_edges = [rng.randrange(2**32, 2**34) for _ in range(2)]
            for v in list(edges) + extra_edges:
                for route in ARG_ROUTES:
                    sc, ec = rng.choice([(0, 3), (1, 3), (0, 1), (2, 4)])
                    sr, er = rng.choice([(0, 2), (0, 3), (1, 2), (0, 1)])
                    if route == "term-kw" and rng.random() < 0.5:
                        sc, ec, sr, er = 0, ec - sc, 0, er - sr      # the defaults of the keyword form, which are then left out
                    base = [rng.choice([1, 0x1234, 0xFFFFFF, 0x01000001, 0xFFFFFFFF, 0x7F000000]),
                            0 if route == "term-kw" and rng.random() < 0.5 else rng.choice([0, 5, 0x10203, 0xFFFFFF]), sc, sr, ec, er]
                    p, edge = list(base), [g]

                    def put(grp, val):
                        if grp == "id":
                            p[0] = val
                        elif grp == "pid":
                            p[1] = val
                        elif grp == "cols":
                            p[2], p[4] = val
                        else:
                            p[3], p[5] = val
                    put(g, v)
                    if rng.random() < 0.15:
                        g2, e2 = rng.choice([x for x in groups if x[0] != g])
                        put(g2, rng.choice(e2))
                        edge.append(g2)
                    m = list(rng.choice(ARG_MODES)) if rng.random() < 0.7 else [rng.randrange(2), rng.randrange(2), rng.randrange(2), rng.choice([1, 2, 3, 4]), rng.randrange(5)]
                    f = {"t": "n"} if rng.random() < 0.6 else rand_fmt(rng, [1, 0, 0, 0, 3, 3] if not (0 <= p[2] < p[4] and 0 <= p[3] < p[5]) else p)
                    call = arg_call(rng, p, base, route, m, f, edge)
                    if route != "slot":
                        yield call
                        continue
                    first = arg_call(rng, base, base, "slot", m, f, [])
                    first.pop("arg")
                    calls = [first, call]
                    if rng.random() < 0.6:
                        again = arg_call(rng, base, base, rng.choice(["slot", "slot", "term-obj"]), m, f, [])
                        again.pop("arg")
                        again.pop("make", None), again.pop("from", None)
                        again["slot"] = 0
                        calls.append(again)
                    yield dict(k="seq", calls=calls)


def rand_order(rng, R):
    kind = rng.random()
    if kind < 0.3:
        order = list(range(R))
        rng.shuffle(order)
    elif kind < 0.6:
        order = sorted(rng.sample(range(R), rng.randrange(1, R + 1)))
    else:
        order = list(range(R))
    return order


def realise13(rng, q):
    """one rendering of the request q (placeholder, mode, formatting, no_escape): to_lines shown as lines alone, or a
    complete output in some style through some entry point (c07.realise)"""
    p, m = list(q["ph"]), list(q["mode"])
    extra = {}
    if rng.random() < 0.5:
        extra["omitopt"] = 1
    slot = rng.choice([None, 0, 0, 1])
    if slot is not None:
        extra["slot"] = slot
    if q["noesc"] and rng.random() < 0.3:
        return dict(k="stream", style=["lfall", 1], ph=p, mode=m, fmt=q["fmt"], W=10, H=4, x0=0, y0=0, **extra)
    if q["noesc"] or rng.random() < 0.45:
        R = p[5] - p[3]
        c = dict(k="alone", ph=p, mode=m, fmt=q["fmt"], order=rand_order(rng, R), single=[rng.randrange(R)], sgr=rng.choice(SGRS),
                 slack=rng.choice([0, 0, 2]), **extra)
        if q["noesc"]:
            c["noesc"] = 1
        return c
    c = realise(rng, q, q["fmt"])
    if c["k"] == "lines":
        R = p[5] - p[3]
        c = dict(c, k="alone", order=rand_order(rng, R), single=[rng.randrange(R)], slack=rng.choice([0, 0, 2]))
        c.pop("x0", None)
    return c


def seq_cases(rng, n, ids, pids, modes):
    """Sequences of 2..6 renderings made by one program.  After the first, each is the same request again, the same with
    ONLY no_escape flipped, the same with other formatting, a neighbour (one or two of id / placement / rectangle / mode
    field / style changed) or a new request; every rendering is judged on its own."""
    for _ in range(n):
        calls, q = [], None
        for _j in range(rng.choice([2, 2, 3, 3, 4, 6])):
            r = rng.random()
            if q is None or r < 0.2:
                q = fresh_request(rng, ids, pids, modes)
                q["fmt"] = rand_fmt(rng, q["ph"])
                q["noesc"] = int(rng.random() < 0.3)
            elif r < 0.3:
                pass
            elif r < 0.55:
                q = dict(q, noesc=1 - q["noesc"])
            elif r < 0.7:
                q = dict(q, fmt=rand_fmt(rng, q["ph"]))
            else:
                q = dict(neighbour_request(rng, q, ids, pids, modes), fmt=q["fmt"], noesc=q["noesc"])
            calls.append(realise13(rng, q))
        yield dict(k="seq", calls=calls)


def run(ctx: Ctx):
    ctx.rule = ("cases: placeholders over ID/placement byte classes, all 160 modes, rectangles around 0/1/296/297/298 (blank rows "
                "included), formatting in {None, bytes, RowFormatting, CellFormatting} built from the two background forms of the "
                "display path (per-row / per-cell tables, empty entries); 'alone': a permutation / ordered subset / multiset of the "
                "lines joined by CR LF plus single lines, fed at column 0 of blank rows of a terminal in one of 5 start SGR states; "
                "'stream': complete output in every style on geometries with 0..rows scrolls; 'seq': 2..6 renderings run in ONE fresh "
                "process (the same request again / with only no_escape flipped / with other formatting / with one or two of id, "
                "placement, rectangle, mode field, style changed / a new one), through to_lines, the to_stream* methods and "
                "GraphicsTerminal.print_placeholder (keyword-only, object, object + overrides), on re-used objects, each rendering "
                "judged on its own (no_escape=True renderings by the correspondence only). 'arg': every field the constructor / "
                "validate() guard at and beyond its limits (image id 0, 2^24, 2^32-1, 2^32, beyond, negative; placement id 0, 2^24-1, "
                "2^24, 2^24+1, random 25..32-bit, 2^32-1, 2^32, negative; column / row spans negative, empty, reversed, at and beyond "
                "297; one or two groups at once) reaching to_lines / to_stream* / print_placeholder through the positional and keyword "
                "constructor, clone_with, attribute assignment on a fresh object and on a long-lived one that emitted before and "
                "emits a valid placeholder afterwards, and print_placeholder's keyword-only / object / object + override forms; "
                "whatever IS emitted (inside the domain or not) must decode line by line to exactly the requested id, placement, "
                "row, columns, a refusal must have written nothing. distinct = canonical JSON; "
                "non-trivial = formatting present or more than one line shown")
    corpus_dir = Path(__file__).resolve().parent.parent / "corpus" / "C13"
    if corpus_dir.is_dir():
        for fp in sorted(corpus_dir.glob("*.json")):
            c = json.load(open(fp))
            c = c.get("case", c)
            check_case(ctx, c)
            ctx.case(c)
            ctx.count("corpus")
    batch = []
    for c in cases(ctx):
        if ctx.time_left() < 0:
            ctx.count("skipped-over-budget")
            continue
        batch.append(c)
        if len(batch) >= 300:
            run_batch(ctx, batch)
            batch = []
    run_batch(ctx, batch)
    ctx.assumptions += [
        "a placeholder whose fields cannot be carried by a line (ids out of range, empty / negative rectangles, a start column "
        "beyond the 297 diacritics) may be refused; if it is emitted it is judged like any other against the requested values",
        "caller formatting is background-only SGR (the two forms get_formatting produces) or empty; arbitrary caller bytes are outside the claim",
        "lines shown alone start at column 0 of a blank row and are separated by CR LF (a tty with ONLCR)",
        "no_escape=True output is an explicit opt-out of the resets and is only covered by the correspondence (C07)",
    ]
