"""C13 — each placeholder line is self-contained and leaves text attributes reset.

K: to_lines / to_stream bytes with every formatting kind (None, bytes, RowFormatting, CellFormatting)
   vs Tup.Model.Placeholder through drv_ph.
F (specification terminal + decoding rules on the REAL bytes):
   * any single line fed alone at the start of a blank row of a terminal in an arbitrary SGR state
     decodes to its row of the image, and fg/ul/bg are default afterwards;
   * any subset / permutation of the lines (joined by CR LF, as `head`, `tail`, `grep`, `sort`
     through a tty would show them) decodes to those rows, attributes default afterwards;
   * any complete output in any style leaves fg/ul/bg default;
   * with background formatting, only cells of the placeholder's rectangle carry a background.
Sequence cases (k = "seq"): 2..6 renderings in ONE fresh process (the same request again, with only
   no_escape flipped, other formatting, one parameter changed, …), each rendering judged on its own.
"""
from __future__ import annotations

import json
from pathlib import Path

from . import ph_util as U
from .common import Ctx
from .c07 import COLS_SMALL, ROWS, SGRS, byte_ids, byte_pids, geometry, fresh_request, neighbour_request, realise

DRIVERS = ["drv_ph"]
EVIDENCE = dict(
    level="proof",
    trusted=[
        "Spec.Term (terminal model; validated against tmux 3.3a by harness/termcheck.py in the thorough tier)",
        "Spec.Decode + pinned 297-entry table",
        "expected screen positions of DESIGN.md A.5 as coded in harness/ph_util.expected",
    ],
)

DEFAULT = ["-", "-", "-"]


def bg_bytes(rng) -> str:
    """hex of one of the two forms the display path produces (get_formatting), or nothing"""
    r = rng.random()
    if r < 0.1:
        return ""
    if r < 0.55:
        return (b"\033[48;5;%dm" % rng.choice([0, 1, 3, 7, 255])).hex()
    return (b"\033[48;2;%d;%d;%dm" % (rng.choice([0, 1, 255]), rng.randrange(256), rng.choice([0, 128, 255]))).hex()


def rand_fmt(rng, p):
    t = rng.choice(["n", "b", "b", "r", "r", "c", "c"])
    if t == "n":
        return {"t": "n"}
    if t == "b":
        return {"t": "b", "b": bg_bytes(rng)}
    if t == "r":
        tab = {str(r): bg_bytes(rng) for r in range(p[3], min(p[5], p[3] + 6)) if rng.random() < 0.6}
        return {"t": "r", "d": bg_bytes(rng), "tab": tab}
    tab = {f"{c}.{r}": bg_bytes(rng) for r in range(p[3], min(p[5], p[3] + 6)) for c in range(p[2], min(p[4], p[2] + 8)) if rng.random() < 0.5}
    return {"t": "c", "d": bg_bytes(rng), "tab": tab}


# ---------------------------------------------------------------------------------------
def _impl(c):
    """the real code on a single case (in this process)"""
    p, m, f = c["ph"], c["mode"], c["fmt"]
    if c["k"] == "alone":
        return U.impl_lines(p, m, f, c.get("noesc", 0))
    if c["k"] == "stream":
        return U.impl_stream(c["style"], p, m, f, c.get("via", "direct"), None, c)
    raise ValueError(c["k"])


def _noesc(c):
    """no_escape=True is the explicit opt-out of the resets and colours: correspondence only"""
    return bool(c.get("noesc", 0)) if c["k"] == "alone" else (c["style"][0] == "lfall" and bool(c["style"][1]))


def _reqs(c, impl):
    p, m, f = c["ph"], c["mode"], c["fmt"]
    C = p[4] - p[2]
    if c["k"] == "alone":
        st, lines = impl
        reqs = [U.req_lines(p, m, f, c.get("noesc", 0))]
        if st == "ok" and U.in_domain(p) and not _noesc(c):
            W = C + c.get("slack", 0)
            order = c["order"]
            data = b"\r\n".join(lines[i] for i in order)
            reqs.append(U.req_spec(W, max(1, len(order)), 0, 0, 1, 1, 0, c.get("sgr", DEFAULT), data))
            for i in c.get("single", []):
                reqs.append(U.req_spec(W, 1, 0, 0, 1, 1, 0, c.get("sgr", DEFAULT), lines[i]))
        return reqs
    if c["k"] == "stream":
        style = c["style"]
        st, data = impl
        reqs = [U.req_stream(style, p, m, f)]
        if st == "ok" and U.in_domain(p) and not _noesc(c):
            onlcr = 1 if (style[0] == "lfall" or (style[0] == "cur" and style[2]) or (style[0] == "disp" and style[1] is None and style[3])) else 0
            reqs.append(U.req_spec(c["W"], c["H"], c["x0"], c["y0"], c.get("cub", 1), c.get("rs", 1), onlcr, c.get("sgr", DEFAULT), data))
        return reqs
    raise ValueError(c["k"])


def _requests(c, res=None):
    """A sequence case (k = "seq") runs in its own fresh process (U.isolated); `res` = its result if already there."""
    if c["k"] == "seq":
        if res is None:
            res = U.isolated().run_many([c["calls"]])[0]
        return U.seq_requests(c, res, _reqs)
    impl = _impl(c)
    return impl, _reqs(c, impl)


def _check_screen(ctx, c, sp, want, rect, what):
    """decoding, attributes reset, background confinement"""
    if sp["ph"] != want:
        ctx.violation(f"{what}: cells do not decode to the requested image cells", c, U.diff_cells(sp["ph"], want), key="line-alone-decode")
    if sp["sgr"] != DEFAULT:
        ctx.violation(f"{what}: foreground/underline/background not back to default afterwards", c,
                      {"sgr(fg/ul/bg)": sp["sgr"]}, key="sgr-not-reset")
    leaked = [list(k) for k, v in sorted(sp["cells"].items()) if v[4] != "-" and k not in rect]
    if leaked:
        ctx.violation(f"{what}: background formatting outside the placeholder's cells", c, leaked[:5], key="background-leak")


def _judge(ctx: Ctx, c, impl, replies):
    if c["k"] == "seq":
        U.seq_judge(ctx, c, impl, replies, _judge, check_case)
        return
    p, f = c["ph"], c["fmt"]
    st, out = impl
    ctx.count("kind:" + c["k"])
    ctx.count("fmt:" + f["t"])
    ctx.count("impl:" + st)
    if _noesc(c):
        ctx.count("no_escape")
    C = p[4] - p[2]
    if c["k"] == "alone":
        mst, mlines = U.model_lines(replies[0])
        if st != mst:
            ctx.mismatch("to_lines status", c, st, mst)
        elif st == "ok" and out != mlines:
            bad = next((i for i in range(max(len(out), len(mlines))) if i >= len(out) or i >= len(mlines) or out[i] != mlines[i]), None)
            ctx.mismatch("to_lines bytes", c, {"line": bad, "impl": out[bad].hex() if bad is not None and bad < len(out) else None},
                         {"line": bad, "model": mlines[bad].hex() if bad is not None and bad < len(mlines) else None})
        if len(replies) > 1:
            order = c["order"]
            ctx.count("order-len:%d" % min(len(order), 6))
            if any(p[3] + i >= U.TABLE for i in order):
                ctx.count("has-blank-row")
            want, rect = {}, set()
            for k, i in enumerate(order):
                for b in range(C):
                    rect.add((k, b))
                    if p[3] + i < U.TABLE:
                        want[(k, b)] = (p[0], p[1], p[3] + i, p[2] + b)
            _check_screen(ctx, c, U.parse_spec(replies[1]), want, rect, "subset/permutation of lines")
            for n, i in enumerate(c.get("single", [])):
                want1 = {(0, b): (p[0], p[1], p[3] + i, p[2] + b) for b in range(C)} if p[3] + i < U.TABLE else {}
                _check_screen(ctx, dict(c, order=[i], single=[]), U.parse_spec(replies[2 + n]), want1, {(0, b) for b in range(C)}, "single line")
        return
    style = c["style"]
    ctx.count("style:" + style[0])
    mst, mdata = U.model_bytes(replies[0])
    if st != mst:
        ctx.mismatch("to_stream status", c, st, mst)
    elif st == "ok" and out != mdata:
        ctx.mismatch("to_stream bytes", c, out.hex()[:400], mdata.hex()[:400])
    if len(replies) > 1:
        sp = U.parse_spec(replies[1])
        want, cur, s = U.expected(style, p, c["W"], c["H"], c["x0"], c["y0"])
        # the rectangle's cells including the non-addressable (blank) rows
        full, _, _ = U.expected(style, [p[0], p[1], p[2], 0, p[4], p[5] - p[3]], c["W"], c["H"], c["x0"], c["y0"])
        _check_screen(ctx, c, sp, want, set(full), "complete output")


def check_case(ctx: Ctx, c: dict):
    impl, reqs = _requests(c)
    replies = ctx.driver("drv_ph").ask_many(reqs)
    _judge(ctx, c, impl, replies)


def run_batch(ctx: Ctx, batch):
    if not batch:
        return
    seqs = [c for c in batch if c["k"] == "seq"]
    done = iter(U.isolated().run_many([c["calls"] for c in seqs])) if seqs else iter(())
    prepared = [(c,) + _requests(c, next(done) if c["k"] == "seq" else None) for c in batch]
    flat = [r for (_, _, reqs) in prepared for r in reqs]
    replies = ctx.driver("drv_ph").ask_many(flat)
    i = 0
    for c, impl, reqs in prepared:
        _judge(ctx, c, impl, replies[i:i + len(reqs)])
        i += len(reqs)
        ctx.case(c, nontrivial=(impl[0] == "seq" or impl[0] == "ok" and c["fmt"]["t"] != "n" or len(c.get("order", [])) > 1))


# ---------------------------------------------------------------------------------------
def cases(ctx: Ctx):
    rng = ctx.rng
    quick = ctx.quick
    ids = byte_ids()
    pids = byte_pids()
    modes = U.all_modes()
    rows = ROWS + [(0, 5), (293, 299), (296, 299)]
    n_alone = 5000 if quick else 60000
    for n in range(n_alone):
        m = modes[n % len(modes)]
        sc, ec = rng.choice(COLS_SMALL)
        sr, er = rng.choice(rows)
        p = [rng.choice(ids), rng.choice([0, 1, 0xFFFFFF]) if n % 2 else rng.choice(pids), sc, sr, ec, er]
        R = er - sr
        kind = rng.random()
        if kind < 0.3:
            order = list(range(R))
            rng.shuffle(order)                                    # permutation (sort, tac)
        elif kind < 0.6:
            order = sorted(rng.sample(range(R), rng.randrange(1, R + 1)))   # subset in order (head, tail, grep)
        elif kind < 0.8:
            order = [rng.randrange(R) for _ in range(rng.randrange(1, R + 2))]   # with repetitions
        else:
            order = list(range(R))
        yield dict(k="alone", ph=p, mode=m, fmt=rand_fmt(rng, p), order=order, single=list(range(R)) if R <= 3 or rng.random() < 0.3 else [rng.randrange(R)],
                   sgr=rng.choice(SGRS), slack=rng.choice([0, 0, 2]))
    n_stream = 3000 if quick else 40000
    styles = [["cur", 1, 0], ["cur", 0, 0], ["cur", 1, 1], ["lfall", 0], ["abs", 1, 0], ["abs", 0, 2]]
    for n in range(n_stream):
        m = modes[n % len(modes)]
        sc, ec = rng.choice(COLS_SMALL)
        sr, er = rng.choice(rows)
        p = [rng.choice(ids), rng.choice(pids), sc, sr, ec, er]
        style = styles[n % len(styles)]
        c = dict(k="stream", style=style, ph=p, mode=m, fmt=rand_fmt(rng, p), sgr=rng.choice(SGRS), rs=rng.randrange(2))
        c.update(geometry(rng, style, p))
        touches = c["x0"] + (ec - sc) == c["W"]
        c["cub"] = 1 if (style == ["cur", 0, 0] and touches) else rng.randrange(2)
        yield c
    # sequences of renderings in one process (state kept between calls: memoised colours / lines, shared objects, call order)
    yield from seq_cases(rng, 900 if quick else 9000, ids, pids, modes)


def rand_order(rng, R):
    kind = rng.random()
    if kind < 0.3:
        order = list(range(R))
        rng.shuffle(order)
    elif kind < 0.6:
        order = sorted(rng.sample(range(R), rng.randrange(1, R + 1)))
    else:
        order = list(range(R))
    return order


def realise13(rng, q):
    """one rendering of the request q (placeholder, mode, formatting, no_escape): to_lines shown as lines alone, or a
    complete output in some style through some entry point (c07.realise)"""
    p, m = list(q["ph"]), list(q["mode"])
    extra = {}
    if rng.random() < 0.5:
        extra["omitopt"] = 1
    slot = rng.choice([None, 0, 0, 1])
    if slot is not None:
        extra["slot"] = slot
    if q["noesc"] and rng.random() < 0.3:
        return dict(k="stream", style=["lfall", 1], ph=p, mode=m, fmt=q["fmt"], W=10, H=4, x0=0, y0=0, **extra)
    if q["noesc"] or rng.random() < 0.45:
        R = p[5] - p[3]
        c = dict(k="alone", ph=p, mode=m, fmt=q["fmt"], order=rand_order(rng, R), single=[rng.randrange(R)], sgr=rng.choice(SGRS),
                 slack=rng.choice([0, 0, 2]), **extra)
        if q["noesc"]:
            c["noesc"] = 1
        return c
    c = realise(rng, q, q["fmt"])
    if c["k"] == "lines":
        R = p[5] - p[3]
        c = dict(c, k="alone", order=rand_order(rng, R), single=[rng.randrange(R)], slack=rng.choice([0, 0, 2]))
        c.pop("x0", None)
    return c


def seq_cases(rng, n, ids, pids, modes):
    """Sequences of 2..6 renderings made by one program.  After the first, each is the same request again, the same with
    ONLY no_escape flipped, the same with other formatting, a neighbour (one or two of id / placement / rectangle / mode
    field / style changed) or a new request; every rendering is judged on its own."""
    for _ in range(n):
        calls, q = [], None
        for _j in range(rng.choice([2, 2, 3, 3, 4, 6])):
            r = rng.random()
            if q is None or r < 0.2:
                q = fresh_request(rng, ids, pids, modes)
                q["fmt"] = rand_fmt(rng, q["ph"])
                q["noesc"] = int(rng.random() < 0.3)
            elif r < 0.3:
                pass
            elif r < 0.55:
                q = dict(q, noesc=1 - q["noesc"])
            elif r < 0.7:
                q = dict(q, fmt=rand_fmt(rng, q["ph"]))
            else:
                q = dict(neighbour_request(rng, q, ids, pids, modes), fmt=q["fmt"], noesc=q["noesc"])
            calls.append(realise13(rng, q))
        yield dict(k="seq", calls=calls)


def run(ctx: Ctx):
    ctx.rule = ("cases: placeholders over ID/placement byte classes, all 160 modes, rectangles around 0/1/296/297/298 (blank rows "
                "included), formatting in {None, bytes, RowFormatting, CellFormatting} built from the two background forms of the "
                "display path (per-row / per-cell tables, empty entries); 'alone': a permutation / ordered subset / multiset of the "
                "lines joined by CR LF plus single lines, fed at column 0 of blank rows of a terminal in one of 5 start SGR states; "
                "'stream': complete output in every style on geometries with 0..rows scrolls; 'seq': 2..6 renderings run in ONE fresh "
                "process (the same request again / with only no_escape flipped / with other formatting / with one or two of id, "
                "placement, rectangle, mode field, style changed / a new one), through to_lines, the to_stream* methods and "
                "GraphicsTerminal.print_placeholder (keyword-only, object, object + overrides), on re-used objects, each rendering "
                "judged on its own (no_escape=True renderings by the correspondence only). distinct = canonical JSON; "
                "non-trivial = formatting present or more than one line shown")
    corpus_dir = Path(__file__).resolve().parent.parent / "corpus" / "C13"
    if corpus_dir.is_dir():
        for fp in sorted(corpus_dir.glob("*.json")):
            c = json.load(open(fp))
            c = c.get("case", c)
            check_case(ctx, c)
            ctx.case(c)
            ctx.count("corpus")
    batch = []
    for c in cases(ctx):
        if ctx.time_left() < 0:
            ctx.count("skipped-over-budget")
            continue
        batch.append(c)
        if len(batch) >= 300:
            run_batch(ctx, batch)
            batch = []
    run_batch(ctx, batch)
    ctx.assumptions += [
        "caller formatting is background-only SGR (the two forms get_formatting produces) or empty; arbitrary caller bytes are outside the claim",
        "lines shown alone start at column 0 of a blank row and are separated by CR LF (a tty with ONLCR)",
        "no_escape=True output is an explicit opt-out of the resets and is only covered by the correspondence (C07)",
    ]
