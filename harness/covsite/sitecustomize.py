"""Loaded by python CHILD processes of a check that runs with VERIF_COVERAGE=1 (harness/cov.py puts this directory on
PYTHONPATH): records the executed lines of /repo/tupimage in exec'd children too (pty hosts, CLI runs)."""
import atexit
import json
import os
import sys

_dir = os.environ.get("VERIF_COV_DIR")
_prefix = os.environ.get("VERIF_COV_PREFIX")
if _dir and _prefix and hasattr(sys, "monitoring") and os.environ.get("VERIF_COVERAGE") == "1":
    _seen = set()
    mon = sys.monitoring
    try:
        mon.use_tool_id(mon.COVERAGE_ID, "verif-cov-child")

        def _on_line(code, line):
            if code.co_filename.startswith(_prefix):
                _seen.add((code.co_filename, line))
            return mon.DISABLE

        mon.register_callback(mon.COVERAGE_ID, mon.events.LINE, _on_line)
        mon.set_events(mon.COVERAGE_ID, mon.events.LINE)

        def _dump():
            try:
                with open(os.path.join(_dir, f"{os.getpid()}.json"), "w") as f:
                    json.dump(sorted(_seen), f)
            except OSError:
                pass

        atexit.register(_dump)
        _orig_exit = os._exit

        def _exit(code=0):
            _dump()
            _orig_exit(code)

        os._exit = _exit
    except ValueError:
        pass      # the tool id is taken: this process is the measuring parent itself
