"""C08, CLI route (quick tier): `python -m tupimage.cli display …` commands run ONE AFTER ANOTHER on terminals that
share a session database.  Every command runs as a real process on a pty of its own (its controlling tty = the
terminal it talks to); the terminals are the clients of one (fake) tmux session, so they share the session database.
What each terminal receives is fed, in order, to its specification terminal (`SpecTerminal` of c08), and every
placeholder a command prints is judged as everywhere in C08: the terminal must hold a complete transmission of the
image the printed rectangle stands for (`printok` of drv_e2e).  Each pool image is requested with its own geometry
(rows, cols), so a printed rectangle identifies the image it must show; `display id:N` re-displays by id, also after
the source file was removed or rewritten (the library may refuse — then nothing may be printed)."""
from __future__ import annotations

import fcntl
import os
import pty
import select
import shutil
import struct
import sys
import tempfile
import termios
import time

from .common import Ctx, REPO
from . import e2e_util as U


def _run_cli(args, env, cwd, timeout=60):
    """-> (exit code, bytes the terminal received)"""
    pid, master = pty.fork()
    if pid == 0:
        try:
            attrs = termios.tcgetattr(0)
            attrs[1] &= ~termios.OPOST
            attrs[3] &= ~(termios.ECHO | termios.ICANON)
            termios.tcsetattr(0, termios.TCSANOW, attrs)
            os.chdir(cwd)
            os.execve(sys.executable, [sys.executable, "-m", "tupimage.cli"] + args, env)
        finally:
            os._exit(127)
    fcntl.ioctl(master, termios.TIOCSWINSZ, struct.pack("HHHH", 50, 120, 960, 800))
    data = bytearray()
    status = None
    t_end = time.time() + timeout
    while True:
        r, _, _ = select.select([master], [], [], 0.2)
        eof = False
        if r:
            try:
                chunk = os.read(master, 1 << 16)
                data += chunk
                eof = not chunk
            except OSError:
                eof = True
        if eof or not r:
            w, st = os.waitpid(pid, os.WNOHANG if not eof else 0)
            if w == pid:
                status = st
                break
        if time.time() > t_end:
            os.kill(pid, 9)
            os.waitpid(pid, 0)
            raise RuntimeError("CLI command timed out: " + " ".join(args))
    # whatever is still in the pty buffer
    try:
        while True:
            r, _, _ = select.select([master], [], [], 0)
            if not r:
                break
            chunk = os.read(master, 1 << 16)
            if not chunk:
                break
            data += chunk
    except OSError:
        pass
    os.close(master)
    return os.waitstatus_to_exitcode(status), bytes(data)


def _split_tty_stream(out: bytes):
    """the bytes one command wrote to its tty -> (text outside tmux pass-through wrappers, the wrappers in order)"""
    pre = b"\x1bPtmux;"
    text, wrapped = bytearray(), bytearray()
    i, n = 0, len(out)
    while i < n:
        j = out.find(pre, i)
        if j < 0:
            text += out[i:]
            break
        text += out[i:j]
        k = j + len(pre)
        while k < n:
            if out[k] == 0x1B:
                if k + 1 < n and out[k + 1] == 0x1B:
                    k += 2
                    continue
                if k + 1 < n and out[k + 1] == 0x5C:
                    k += 2
                break
            k += 1
        wrapped += out[j:k]
        i = k
    return bytes(text), bytes(wrapped)


def check_cli_seq(ctx: Ctx, c: dict):
    from . import c08 as M
    d = ctx.driver("drv_e2e")
    td = tempfile.mkdtemp(prefix="vc08c")
    try:
        pool = M._make_pool(td, c["pool"])
        geom = {}      # pool index -> (rows, cols)
        token = {}     # pool index -> expected token of the file's CURRENT content
        for i, e in enumerate(pool):
            geom[i] = (1 + i % 3, 2 + i)
            token[i] = M._expected_token(e)[0]
        by_geom = {g: i for i, g in geom.items()}
        specs = {}     # WINDOWID -> SpecTerminal
        last_id = {}   # pool index -> id under which it was last printed
        shown = {}     # id -> token of the content that id stood for when it was (last) assigned by a display of the file
        env0 = {k: v for k, v in os.environ.items() if not (k.startswith("TUPIMAGE_") or k.startswith("SSH_") or k in ("TMUX", "VERIF_IN_PTY", "WINDOWID"))}
        # Outside tmux every terminal window is a session of its own; terminals that SHARE a session database are the clients of
        # one tmux session.  A fake `tmux` (harness/ptyhost.py) answers the library's `display-message` from the environment:
        # client_pid names the attached client = the terminal; one pass-through layer wraps every graphics command.
        from .ptyhost import write_fake_tmux
        write_fake_tmux(os.path.join(td, "bin"))
        env0.update(TERM="xterm-kitty", TUPIMAGE_CONFIG="DEFAULT", TUPIMAGE_ID_DATABASE_DIR=os.path.join(td, "state"),
                    TUPIMAGE_ID_SPACE=c["space"], TUPIMAGE_ID_SUBSPACE=c["sub"], TUPIMAGE_UPLOAD_METHOD=c["method"], PYTHONPATH=str(REPO),
                    PATH=os.path.join(td, "bin") + os.pathsep + env0.get("PATH", "/usr/bin:/bin"), TMUX="/tmp/fake,1,0",
                    TUPIMAGE_NUM_TMUX_LAYERS="1", FAKE_TMUX_client_termname="xterm-kitty", FAKE_TMUX_pid="1", FAKE_TMUX_session_id="$0")
        if os.environ.get("VERIF_COVERAGE") == "1":
            # measurement only (harness/cov.py): the CLI processes record the repo lines they execute
            env0["PYTHONPATH"] = os.path.join(os.path.dirname(os.path.abspath(__file__)), "covsite") + os.pathsep + str(REPO)
        if c.get("uploads_ago") is not None:
            env0["TUPIMAGE_REUPLOAD_MAX_UPLOADS_AGO"] = str(c["uploads_ago"])
        thr_u = c.get("uploads_ago") if c.get("uploads_ago") is not None else 1024
        now = 0
        for si, step in enumerate(c["steps"]):
            op = step[0]
            ctx.count("cli-seq:" + op)
            if op == "rm":
                try:
                    os.unlink(pool[step[1]]["path"])
                except OSError:
                    pass
                continue
            if op == "rewrite":
                e = pool[step[1]]
                img = U.noise_image(step[2], step[3], step[4])
                with open(e["path"], "wb") as f:
                    img.save(f, format="PNG" if e["kind"] == "png" else "JPEG")
                st = os.stat(e["path"])
                os.utime(e["path"], (st.st_atime, st.st_mtime + 10 + si))
                token[step[1]] = M._expected_token(e)[0]
                continue
            w = str(step[2])
            spec = specs.setdefault(w, M.SpecTerminal("W" + w, layers=1))
            env = dict(env0, FAKE_TMUX_client_pid=w)
            if op == "display":
                i = step[1]
                rows, cols = geom[i]
                args = ["display", "--use-line-feeds", "no", "-r", str(rows), "-c", str(cols), pool[i]["path"]]
            elif op == "redisplay":
                i = step[1]
                if i not in last_id:
                    continue
                args = ["display", "--use-line-feeds", "no", "id:%d" % last_id[i]]
            else:
                raise ValueError(op)
            rc, out = _run_cli(args, env, str(REPO))
            ctx.count(f"cli-seq:exit={'0' if rc == 0 else 'nonzero'}")
            now += 1_000_000
            # what this command wrote to its tty: the pass-through wrappers go to the specification terminal (through one tmux), the
            # text outside them is decoded.  (The library transmits before it prints; order WITHIN one command is judged by the main
            # C08 family on separate streams.)
            text, wrapped = _split_tty_stream(out)
            spec.feed(wrapped, now, lambda *a: None)
            printed_any = False
            for (iid, _pid), cells in M.decode_placeholders(M._printable(text)).items():
                printed_any = True
                rows = 1 + max(r for r, _ in cells)
                cols = 1 + max(cc for _, cc in cells)
                ctx.count("cli-seq:prints")
                j = by_geom.get((rows, cols))
                if j is None:
                    ctx.mismatch("CLI printed a rectangle no request of the scenario asked for", c, [rows, cols], sorted(by_geom))
                    continue
                if op == "display":
                    tok = token[j]
                    last_id[j] = iid
                    shown[iid] = tok
                else:
                    # re-display by id: the id stands for what it stood for when the file was displayed
                    tok = shown.get(iid, token[j])
                r = d.ask(f"printok {thr_u} {20 * 1024 * 1024} {3600 * 1000000} {iid} {tok} {rows} {cols} {now} {spec.wire_log()}")
                if not r.startswith("1"):
                    ctx.violation("CLI: placeholder printed for an image the terminal does not hold", c,
                                  {"step": si, "command": args, "terminal": "tmux client " + w, "printed_id": iid, "geometry": [rows, cols],
                                   "expected": tok, "terminal_holds": r.split(" ", 1)[1], "exit": rc},
                                  key="cli-" + M._vkey(None, r.split(" ", 1)[1], tok))
            if op == "display" and rc == 0 and not printed_any:
                ctx.violation("CLI display of an existing file exited 0 without printing the image", c, {"step": si, "command": args}, key="cli-nothing-printed")
            if op == "display" and rc != 0 and os.path.exists(pool[step[1]]["path"]):
                ctx.mismatch("CLI display of an existing file failed", c, {"step": si, "exit": rc, "tail": out[-300:].decode("utf-8", "replace")}, 0)
    finally:
        shutil.rmtree(td, ignore_errors=True)


def cases(ctx: Ctx):
    rng = ctx.rng
    n = 5 if ctx.quick else 40
    for k in range(n):
        space, sub = rng.choice([("8bit", "5:7"), ("24bit", "3:4"), ("32bit", "0:256"), ("16bit", "1:2")])
        pool = [[rng.choice(["png", "png", "jpeg"]), *rng.choice([(8, 8), (12, 5), (20, 9)]), rng.randrange(1 << 30)] for _ in range(rng.randrange(2, 4))]
        steps = []
        wins = [7, 8] if k % 2 == 0 else [7, 8, 9]
        # the core shapes first: shown on one terminal, source removed / rewritten, re-displayed by id on ANOTHER terminal
        i = rng.randrange(len(pool))
        steps += [["display", i, wins[0]], [rng.choice(["rm", "rm", "rewrite"]), i, 6, 7, rng.randrange(1 << 30)], ["redisplay", i, wins[1]], ["redisplay", i, wins[0]]]
        for _ in range(rng.randrange(2, 5)):
            j = rng.randrange(len(pool))
            r = rng.random()
            if r < 0.5:
                steps.append(["display", j, rng.choice(wins)])
            elif r < 0.8:
                steps.append(["redisplay", j, rng.choice(wins)])
            elif r < 0.9:
                steps.append(["rm", j])
            else:
                steps.append(["rewrite", j, 6, 7, rng.randrange(1 << 30)])
        yield dict(k="cli-seq", space=space, sub=sub, method=rng.choice(["auto", "file", "direct"]), pool=pool, steps=steps,
                   **({"uploads_ago": 1} if rng.random() < 0.3 else {}))
