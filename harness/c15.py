"""C15 — computed cell size stays within limits and keeps the aspect ratio within one cell.

K: the real `TupimageTerminal.get_cell_size / get_max_cols_and_rows / get_optimal_cols_and_rows /
   build_image_instance`, hosted on a pty (harness/ptyhost.py: window size incl. pixel size through
   TIOCSWINSZ, scrubbed environment), against `Tup.CellSize` (exact arithmetic) through drv_misc
     (a) EXACTLY on the float-exact domain (integer sizes <= 10^4, dyadic scales whose product has
         <= 20 significant bits, bit budget checked per case, see `_exact_domain`);
     (b) outside it the model is only consulted for statistics (rounding disagreements are counted,
         never reported).
F: `Tup.Spec.CellSize` (bounds, minimal box, no unused row/column, explicit kept, verbatim)
   evaluated through the driver on the *implementation's* answer, in exact rationals (the floats'
   exact values as fractions); on domain (b) with a 1e-9 relative tolerance.
Families beyond the random ones: `ratio_boundary_cases` (image sizes constructed so that the derived dimension is exactly an
integer number of cells - where an extra rounding step shows), `size_env_cases` (COLUMNS / LINES in the child's environment
differ from the pty's window: the window is the terminal size the limits are judged against).
"""
from __future__ import annotations

import json
import math
from fractions import Fraction
from pathlib import Path

from .common import Ctx, ToolFailure
from .ptyhost import PtyHost, PtyHostError

DRIVERS = ["drv_misc"]
EVIDENCE = dict(
    level="proof",
    trusted=[
        "IEEE-754 double arithmetic and math.ceil (outside the proof: the theorems are about exact arithmetic; "
        "the float code is tied to the model exactly only on the float-exact domain, elsewhere by the tolerance oracle) — PARTIAL for rounding",
        "the OS tty layer (TIOCSWINSZ/TIOCGWINSZ on a pty) and harness/ptyhost.py",
        "Spec.CellSize is a transcription of the property statement, cross-multiplied into naturals",
    ],
)

TOL = (1, 10**9)
_host: PtyHost | None = None
_host_cfg = None


def host(ctx: Ctx) -> PtyHost:
    global _host
    if _host is None:
        _host = PtyHost(rows=24, cols=80)
        if not _host.hello["tupimage_file"].startswith(str(__import__("harness.common", fromlist=["REPO"]).REPO)):
            raise ToolFailure(f"pty child imported {_host.hello['tupimage_file']}, expected the tree under test")
    return _host


def close_host():
    global _host, _host_cfg, _host_env
    if _host is not None:
        _host.close()
    _host = None
    _host_cfg = None
    _host_env = {}


# ------------------------------------------------------------------------------------------------
def frac_of(s) -> Fraction:
    """scale encodings: [num, den] (exact dyadic) or a JSON float."""
    if isinstance(s, list):
        return Fraction(s[0], s[1])
    return Fraction(s)


def py_of(s):
    """the Python value handed to the implementation"""
    if isinstance(s, list):
        return s[0] / s[1]
    return s


def sigbits(fr: Fraction) -> int:
    n = fr.numerator
    if n == 0:
        return 0
    while n % 2 == 0:
        n //= 2
    return n.bit_length()


def _is_dyadic(fr: Fraction) -> bool:
    d = fr.denominator
    return d & (d - 1) == 0


def _exact_domain(c: dict, cell) -> bool:
    """Every intermediate float of get_optimal_cols_and_rows is exactly representable and ceil cannot
    be off: integer sizes, dyadic scales, and
      bits(max(w,h)) + bits(max(cw,ch)) + bits(max(cols,rows,maxc,maxr)) + sigbits(global) + sigbits(local) <= 52."""
    if not (isinstance(c["w"], int) and isinstance(c["h"], int)):
        return False
    g = frac_of(c["cfg"]["global_scale"])
    loc = [frac_of(c["cfg"]["scale"])] + ([frac_of(c["scale"])] if c.get("scale") is not None else [])
    if not all(_is_dyadic(x) for x in [g] + loc):
        return False
    if any(abs(math.log2(x)) > 40 for x in [g] + loc if x > 0):
        return False
    big = max([1, abs(c.get("cols") or 0), abs(c.get("rows") or 0), 70000])   # 70000 > any limit (winsize is 16 bit)
    bits = (max(c["w"], c["h"], 1).bit_length() + max(cell[0], cell[1], 1).bit_length() + big.bit_length()
            + sigbits(g) + max(sigbits(x) for x in loc))
    return bits <= 52


def tok(x):
    return "_" if x is None else str(x)


def env_tokens(c: dict) -> str:
    cfg = c["cfg"]
    win = c["win"]
    cell = cfg.get("cell_size")
    g = frac_of(cfg["global_scale"])
    s = frac_of(cfg["scale"])
    dc = cfg.get("default_cell_size") or [8, 16]
    return " ".join(map(str, [win[0], win[1], win[2], win[3], tok(cell[0] if cell else None), tok(cell[1] if cell else None),
                              dc[0], dc[1], tok(cfg.get("max_cols")), tok(cfg.get("max_rows")),
                              g.numerator, g.denominator, s.numerator, s.denominator]))


def impl_result(r: dict) -> str:
    if "ok" in r:
        v = r["ok"]
        if isinstance(v, tuple) and len(v) == 2 and all(isinstance(x, int) and not isinstance(x, bool) for x in v):
            return f"ok {v[0]} {v[1]}"
        return f"ok? {v!r}"
    e = r.get("error")
    if e is None:
        raise ToolFailure(f"pty host: {r}")
    t, m = e["type"], e["msg"]
    if t == "ValueError" and m.startswith("cols must be positive"):
        return "err cols"
    if t == "ValueError" and m.startswith("rows must be positive"):
        return "err rows"
    if t == "ValueError" and "terminal size" in m:
        return "err nosize"
    if t == "ZeroDivisionError":
        return "err zerodiv"
    return f"err other:{t}:{m[:60]}"


SIZE_ENV = ("COLUMNS", "LINES")     # what shutil.get_terminal_size / curses-style code reads instead of asking the tty
_host_env: dict = {}


def setup(ctx: Ctx, c: dict) -> PtyHost:
    """window size + the child's COLUMNS / LINES (c["env"], default: unset) + a TupimageTerminal with the case's configuration"""
    global _host_cfg, _host_env
    h = host(ctx)
    h.set_winsize(*c["win"])
    env = {k: str(v) for k, v in (c.get("env") or {}).items() if k in SIZE_ENV}
    if env != _host_env:          # a fresh host starts without them (ptyhost scrubs the environment)
        h.setenv(set=env, unset=[k for k in SIZE_ENV if k not in env])
        _host_env = env
    cfg = c["cfg"]
    key = json.dumps(cfg, sort_keys=True)
    if key != _host_cfg:
        kw = {}
        if cfg.get("cell_size"):
            kw["cell_size"] = tuple(cfg["cell_size"])
        if cfg.get("default_cell_size"):
            kw["default_cell_size"] = tuple(cfg["default_cell_size"])
        for n in ("max_cols", "max_rows"):
            if cfg.get(n) is not None:
                kw[n] = cfg[n]
        kw["scale"] = float(py_of(cfg["scale"]))
        kw["global_scale"] = float(py_of(cfg["global_scale"]))
        r = h.new_terminal(**kw)
        if "error" in r:
            raise ToolFailure(f"C15 could not construct the terminal with {kw}: {r}")
        _host_cfg = key
    return h


def check_case(ctx: Ctx, c: dict):
    try:
        _check_case(ctx, c)
    except PtyHostError as e:
        close_host()
        raise ToolFailure(str(e))


def _check_case(ctx: Ctx, c: dict):
    d = ctx.driver("drv_misc")
    h = setup(ctx, c)
    envt = env_tokens(c)
    k = c["k"]
    ctx.count("kind:" + k)
    if c.get("fam"):
        ctx.count("family:" + c["fam"])
    if c.get("env") is not None:
        ctx.count("COLUMNS/LINES in the environment: " + (",".join(sorted(c["env"])) or "unset"))
    win, cfg = c["win"], c["cfg"]
    # ---- cell size (K) ------------------------------------------------------------------------
    rc = h.call("get_cell_size")
    cell = tuple(rc["ok"]) if "ok" in rc else None
    ctx.eq("get_cell_size", c, "err" if cell is None else f"{cell[0]} {cell[1]}", d.ask(f"c15 cell {envt}"))
    if cell is None:
        return
    ctx.count("cell:" + ("config" if cfg.get("cell_size") else ("winsize" if all(win) else "default")))
    if k == "max":
        r = h.call("get_max_cols_and_rows", max_cols=c.get("max_cols"), max_rows=c.get("max_rows"))
        impl = impl_result(r)
        ctx.eq("get_max_cols_and_rows", c, impl, d.ask(f"c15 max {envt} {tok(c.get('max_cols'))} {tok(c.get('max_rows'))}"))
        ctx.count("max:" + impl.split()[0] + (":" + impl.split()[1] if impl.startswith("err") else ""))
        # F: the limits are what the statement says (argument, else configuration, else terminal size; rows <= 256)
        if impl.startswith("ok ") and _limits_in_domain(c):
            lim = d.ask(f"c15 lim {tok(c.get('max_cols'))} {tok(cfg.get('max_cols'))} {win[1]} "
                        f"{tok(c.get('max_rows'))} {tok(cfg.get('max_rows'))} {win[0]}")
            if impl[3:] != lim:
                ctx.violation("limits differ from argument / configuration / terminal size (rows <= 256)", c,
                              {"impl": impl, "spec": lim}, key="limits")
        return
    # ---- optimal cols and rows ---------------------------------------------------------------
    kwargs = dict(cols=c.get("cols"), rows=c.get("rows"), max_cols=c.get("max_cols"), max_rows=c.get("max_rows"),
                  scale=None if c.get("scale") is None else float(py_of(c["scale"])))
    if k == "build":
        r = h.run("from PIL import Image\nimg = Image.new('L', (w, h))\ninst = T.build_image_instance(img, 7, **kw)\n"
                  "result = (inst.cols, inst.rows)\n", w=c["w"], h=c["h"], kw=kwargs)
    else:
        r = h.call("get_optimal_cols_and_rows", c["w"], c["h"], **kwargs)
    impl = impl_result(r)
    exact = _exact_domain(c, cell)
    ctx.count("domain:" + ("float-exact" if exact else "arbitrary-float"))
    if str(c.get("fam", "")).startswith("ratio-boundary") and cell[0] >= 1 and cell[1] >= 1:
        # how many constructed cases are judged with zero tolerance, and how many sit exactly on an integer number of cells
        on = (Fraction(c["w"] * cell[1], c["h"] * cell[0]) * (c.get("rows") or 1)).denominator == 1 if c.get("rows") else \
             (Fraction(c["h"] * cell[0], c["w"] * cell[1]) * (c.get("cols") or 1)).denominator == 1 if c.get("cols") else None
        ctx.count("ratio-boundary: " + ("float-exact domain" if exact else "arbitrary-float domain (tolerance)")
                  + ("" if on is None else (", derived dimension integral for the value asked" if on else ", off the boundary")))
    nexp = (c.get("cols") is not None) + (c.get("rows") is not None)
    ctx.count(f"explicit-dims:{nexp}")
    ctx.count("result:" + (impl.split()[0] + (":" + impl.split()[1] if impl.startswith("err") else "")))
    # model (needs integer sizes)
    model = None
    if isinstance(c["w"], int) and isinstance(c["h"], int):
        sc = c.get("scale")
        scf = None if sc is None else frac_of(sc)
        line = (f"c15 opt 1 {envt} {c['w']} {c['h']} {tok(c.get('cols'))} {tok(c.get('rows'))} {tok(c.get('max_cols'))} "
                f"{tok(c.get('max_rows'))} {tok(None if scf is None else scf.numerator)} {tok(None if scf is None else scf.denominator)}")
        if all(frac_of(x) >= 0 for x in [cfg["scale"], cfg["global_scale"]] + ([sc] if sc is not None else [])):
            model = d.ask(line)
    if exact and model is not None:
        ctx.eq("get_optimal_cols_and_rows" if k == "opt" else "build_image_instance", c, impl, model)   # K
    elif model is not None and impl != model:
        ctx.count("arbitrary-float: result differs from exact arithmetic (rounding, not judged)")
    # ---- F: the specification on the implementation's answer -----------------------------------
    sc = c.get("scale")
    if sc is not None and frac_of(sc) == 0:
        ctx.count("spec-skipped: scale argument 0")
        return
    loc = frac_of(sc) if sc is not None else frac_of(cfg["scale"])
    S = loc * frac_of(cfg["global_scale"])
    W = Fraction(c["w"]) * S
    H = Fraction(c["h"]) * S
    if not _limits_in_domain(c) or W <= 0 or H <= 0 or cell[0] < 1 or cell[1] < 1 or not all(win[:2]):
        ctx.count("spec-skipped: outside the property's quantifier (non-positive size/scale/limit/cell)")
        return
    for nm in ("cols", "rows"):
        if c.get(nm) is not None and c[nm] < 1 and nexp < 2:
            ctx.count("spec-skipped: explicit dimension <= 0 (rejected by the library)")
            if not impl.startswith("err"):
                ctx.violation("a non-positive explicit dimension was not rejected", c, impl, key="nonpositive-accepted")
            return
    lim = d.ask(f"c15 lim {tok(c.get('max_cols'))} {tok(cfg.get('max_cols'))} {win[1]} "
                f"{tok(c.get('max_rows'))} {tok(cfg.get('max_rows'))} {win[0]}").split()
    if not impl.startswith("ok "):
        ctx.violation("the library raised on an input the property covers", c, impl, key="raises-on-valid-input")
        return
    cc, rr = impl.split()[1:]
    en, ed = (0, 1) if exact else TOL
    verdict = d.ask(f"c15 spec {W.numerator} {W.denominator} {H.numerator} {H.denominator} {cell[0]} {cell[1]} "
                    f"{tok(c.get('cols'))} {tok(c.get('rows'))} {lim[0]} {lim[1]} {en} {ed} {cc} {rr}")
    if verdict == "wf0":
        ctx.count("spec-skipped: wf")
        return
    if verdict != "ok":
        for clause in verdict.split(","):
            ctx.violation(f"the computed box breaks the clause `{clause}` of the property", c,
                          {"result": [int(cc), int(rr)], "cell": list(cell), "limits": [int(lim[0]), int(lim[1])],
                           "scaled_image": [str(W), str(H)], "clauses": verdict}, key=clause)
    # which branches were exercised (from the answer)
    if nexp == 0:
        need_c = math.ceil(W / cell[0])
        need_r = math.ceil(H / cell[1])
        ctx.count("auto: " + ("uncapped" if need_c <= int(lim[0]) and need_r <= int(lim[1]) else
                              ("cols-capped" if need_c > int(lim[0]) else "") + ("rows-capped" if need_r > int(lim[1]) else "")))
    elif nexp == 1:
        nm = "cols" if c.get("cols") is not None else "rows"
        over = c[nm] > int(lim[0] if nm == "cols" else lim[1])
        ctx.count(f"explicit-{nm}: " + ("above-limit" if over else "within-limit")
                  + ("" if (int(cc) if nm == "cols" else int(rr)) == c[nm] else " changed"))


def _limits_in_domain(c) -> bool:
    return all(c.get(n) is None or c[n] >= 1 for n in ("max_cols", "max_rows")) and all(c["win"][:2])


# ------------------------------------------------------------------------------------------------
DY = [[1, 1], [1, 2], [2, 1], [3, 2], [1, 4], [3, 4], [5, 4], [3, 1], [7, 8], [1, 8], [4, 1], [10, 1], [1, 16], [25, 16], [333, 256],
      [1023, 1024], [1025, 1024]]


def _cfg(rng, exact=True):
    cell = rng.choice([None] * 8 + [[8, 16], [10, 20], [1, 1], [7, 3], [16, 8], [33, 17], [2, 64]])
    if exact:
        g, s = rng.choice([([1, 1], [1, 1])] * 3 + [(rng.choice(DY[:10]), rng.choice(DY[:10])), ([1, 1], rng.choice(DY)),
                                                    (rng.choice(DY), [1, 1])])
    else:
        g, s = rng.choice([1.0, 0.1, 1.1, 2.5, rng.uniform(0.05, 4)]), rng.choice([1.0, 0.3, 1.7, rng.uniform(0.05, 8)])
    return {"cell_size": cell, "default_cell_size": rng.choice([None, None, [8, 16], [9, 18], [5, 11]]),
            "max_cols": rng.choice([None, None, None, 1, 2, 10, 80, 300, 1000]),
            "max_rows": rng.choice([None, None, None, 1, 2, 10, 24, 100, 255, 256]),
            "scale": s, "global_scale": g}


def _win(rng):
    rows = rng.choice([1, 2, 5, 24, 24, 50, 255, 256, 257, 300, 1000])
    cols = rng.choice([1, 2, 10, 80, 80, 120, 255, 256, 257, 500, 2000])
    m = rng.random()
    if m < 0.25:
        xp, yp = 0, 0
    elif m < 0.3:
        xp, yp = rng.choice([(0, 100), (100, 0), (cols - 1 if cols > 1 else 1, rows * 16)])     # partial info / cell width 0
    else:
        cw, ch = rng.choice([(8, 16), (10, 20), (9, 18), (6, 13), (1, 1), (20, 40)])
        xp, yp = cols * cw + rng.choice([0, 0, 1, cols - 1]), rows * ch + rng.choice([0, 0, 1, rows - 1])
    return [rows, cols, min(xp, 65535), min(yp, 65535)]


def _eff_cell(win, cfg):
    if cfg.get("cell_size"):
        return cfg["cell_size"]
    if all(win):
        return [win[2] // win[1], win[3] // win[0]]
    return cfg.get("default_cell_size") or [8, 16]


def _eff_limits(win, cfg, c):
    lc = c.get("max_cols") or cfg.get("max_cols") or win[1]
    lr = min(256, c.get("max_rows") or cfg.get("max_rows") or win[0])
    return max(1, lc), max(1, lr)


def gen_case(rng, exact=True, fam=None):
    cfg = _cfg(rng, exact)
    win = _win(rng)
    c = {"k": "opt", "win": win, "cfg": cfg}
    c["max_cols"] = rng.choice([None] * 12 + [0, -3, 1, 2, 5, 5, 80, 80, 1000])
    c["max_rows"] = rng.choice([None] * 12 + [0, -1, 1, 2, 5, 24, 24, 256, 300, 1000])
    cw, ch = _eff_cell(win, cfg)
    lc, lr = _eff_limits(win, cfg, c)
    fam = fam or rng.choice(["multiple", "multiple", "cap", "explicit", "explicit", "d10", "rand", "rand", "both"])
    c["scale"] = None
    if rng.random() < 0.3:
        c["scale"] = rng.choice(DY + [[0, 1]]) if exact else rng.choice([0.0, 0.5, 1.5, rng.uniform(0.01, 10), 0.1])
    S = (frac_of(c["scale"]) if c["scale"] is not None and frac_of(c["scale"]) != 0 else frac_of(cfg["scale"])) * frac_of(cfg["global_scale"])
    small = [1, 2, 3, 7, 8, 9, 15, 16, 17, 100, 640, 641, 1000, 9999, 10000]

    def px():
        return rng.choice(small) if rng.random() < 0.4 else rng.randint(1, 10000)

    c["w"], c["h"] = px(), px()
    c["cols"], c["rows"] = None, None
    if fam == "multiple":
        # scaled size at / next to a whole number of cells (the ceil boundary)
        kc, kr = rng.randint(1, max(1, min(lc + 2, 40))), rng.randint(1, max(1, min(lr + 2, 40)))
        if S > 0:
            c["w"] = min(10000, max(1, int(Fraction(kc * max(cw, 1)) / S) + rng.choice([-1, 0, 0, 1])))
            c["h"] = min(10000, max(1, int(Fraction(kr * max(ch, 1)) / S) + rng.choice([-1, 0, 0, 1])))
    elif fam == "cap":
        c["w"], c["h"] = rng.randint(2000, 10000), rng.randint(2000, 10000)
        if rng.random() < 0.5:
            (c["w"], c["h"]) = rng.choice([(10000, rng.randint(1, 30)), (rng.randint(1, 30), 10000)])
    elif fam in ("explicit", "d10"):
        nm = rng.choice(["cols", "rows"])
        lim = lc if nm == "cols" else lr
        if fam == "d10":
            v = lim + rng.choice([1, 2, 10, 120, 1000])
        else:
            v = rng.choice([-5, 0, 1, 1, 2, 3, max(1, lim - 1), lim, lim + 1, max(1, lim // 2), 7, 200])
        c[nm] = v
    elif fam == "both":
        c["cols"], c["rows"] = rng.choice([-1, 0, 1, 5, lc + 7]), rng.choice([-2, 0, 1, 9, lr + 300])
    if not exact and rng.random() < 0.3:
        c["w"], c["h"] = rng.uniform(0.5, 10000), rng.uniform(0.5, 10000)
    return c


def _positive_cell(rng, c):
    """make sure the case's effective cell size is >= 1x1 (a window narrower in pixels than in columns gives cell width 0)"""
    cw, ch = _eff_cell(c["win"], c["cfg"])
    if cw < 1 or ch < 1:
        c["cfg"]["cell_size"] = rng.choice([[8, 16], [10, 20], [7, 3], [9, 18], [33, 17]])
        cw, ch = c["cfg"]["cell_size"]
    return cw, ch


def _pick_dim(rng, lim):
    """a number of cells 1..lim: the small ones, the limit and next to it, any magnitude in between"""
    return max(1, min(lim, rng.choice([1, 2, 3, rng.randint(1, 12), rng.randint(1, 40), rng.randint(1, 40), lim, lim - 1,
                                       rng.randint(1, lim), rng.randint(1, lim), rng.randint(1, lim)])))


def ratio_boundary_cases(rng, n_bases, per_base=8):
    """Inputs constructed ON the rounding boundary of the DERIVED dimension (one explicit dimension, or automatic dimensions with
    one of them capped by its limit): the image is w x h = (N*cw/g)*t x (r*ch/g)*t pixels, g = gcd(N*cw, r*ch), so that with the
    given/capping dimension r (rows, say) the exact value r*ch*w/(h*cw) of the other one IS the integer N - the image fills N
    columns exactly, at every magnitude of N, r, t the 10^4 px bound admits. Any evaluation order that rounds an intermediate
    quotient (w/h is not a binary fraction unless h/gcd is a power of two) can land on N + epsilon and take a whole unused
    column; a truncating one on N - epsilon and cut one. A fifth of the cases are moved one pixel off the boundary.
    All on the float-exact domain: the exact specification judges with zero tolerance."""
    for _ in range(n_bases):
        base = gen_case(rng, True, "rand")
        base["cols"], base["rows"] = None, None
        base["max_cols"] = rng.choice([None, None, None, 5, 80, 300, 1000])
        base["max_rows"] = rng.choice([None, None, None, 5, 24, 100, 256, 300])
        if rng.random() < 0.5:
            # a roomy window, so that N and r range over every magnitude (the generic windows are mostly tiny)
            wr, wc = rng.choice([24, 50, 100, 255, 256, 300, 1000]), rng.choice([80, 120, 200, 255, 500, 2000])
            pw, ph = rng.choice([(8, 16), (10, 20), (9, 18), (6, 13), (7, 15), (20, 40), (0, 0)])
            base["win"] = [wr, wc, min(65535, wc * pw), min(65535, wr * ph)]
            if rng.random() < 0.7:
                base["cfg"]["max_cols"] = base["cfg"]["max_rows"] = None
        if base["scale"] is not None and frac_of(base["scale"]) == 0:
            base["scale"] = None
        cw, ch = _positive_cell(rng, base)
        S = (frac_of(base["scale"]) if base["scale"] is not None else frac_of(base["cfg"]["scale"])) * frac_of(base["cfg"]["global_scale"])
        for _j in range(per_base):
            c = json.loads(json.dumps(base))
            mode = rng.choice(["rows-explicit", "cols-explicit", "auto-rows-capped", "auto-cols-capped"])
            given_rows = mode in ("rows-explicit", "auto-rows-capped")
            if mode.startswith("auto") and rng.random() < 0.6:
                # the capping limit is a free input of the call: any number of cells
                c["max_rows" if given_rows else "max_cols"] = rng.choice([1, 2, 3, rng.randint(1, 40), rng.randint(1, 256), rng.randint(1, 256)])
            lc, lr = _eff_limits(c["win"], c["cfg"], c)
            lim_given, lim_derived = (lr, lc) if given_rows else (lc, lr)
            over = 0
            for _try in range(30):
                if mode.startswith("auto"):
                    r = lim_given                                      # the dimension is capped AT its limit
                else:
                    r = _pick_dim(rng, lim_given)
                    over = rng.choice([0] * 9 + [rng.choice([1, 10, 1000])]) if r == lim_given else 0   # asked above the limit: clamped to it
                n = _pick_dim(rng, lim_derived) if _try <= 10 else rng.randint(1, min(30, lim_derived))
                a, b = (n * cw, r * ch) if given_rows else (r * cw, n * ch)     # w : h = a : b
                g = math.gcd(a, b)
                a, b = a // g, b // g
                tmax = 10000 // max(a, b)
                tmin = 1
                if mode.startswith("auto"):
                    # the capped dimension must really need more than its limit: scaled size > r cells
                    tmin = math.floor(Fraction(g) / S) + 1 if S > 0 else tmax + 1
                if tmax >= tmin:
                    break
            else:
                continue
            t = rng.choice([tmin, tmin, tmax, tmax, rng.randint(tmin, tmax), rng.randint(tmin, tmax), min(tmax, tmin * 2),
                            max(tmin, tmax // 2), max(tmin, min(tmax, 1 << rng.randint(0, 13)))])
            c["w"], c["h"] = a * t, b * t
            if mode.endswith("explicit"):
                c["rows" if given_rows else "cols"] = r + over
            if rng.random() < 0.2:
                nm = rng.choice(["w", "h"])
                c[nm] = max(1, min(10000, c[nm] + rng.choice([-1, 1])))
            c["fam"] = "ratio-boundary:" + mode
            yield c


def size_env_cases(rng, n):
    """The calls through the real terminal object with COLUMNS / LINES in the process environment: larger than the real window,
    smaller, equal, only one of them, the classic stale 80x24, garbage, and unset again in between. The window of the pty is the
    only terminal size there is; the limits (and everything derived from them) are judged against it."""
    for i in range(n):
        if i % 5 == 4:
            c = {"k": "max", "win": _win(rng), "cfg": _cfg(rng)}
            c["max_cols"] = rng.choice([None, None, None, 5, 1000])
            c["max_rows"] = rng.choice([None, None, None, 5, 1000])
        else:
            c = gen_case(rng, True, rng.choice(["cap", "cap", "cap", "multiple", "rand", "explicit"]))
            if rng.random() < 0.8:
                c["max_cols"] = c["max_rows"] = None
            if rng.random() < 0.15:
                c["k"] = "build"
                c["w"], c["h"] = min(c["w"], 400), min(c["h"], 400)
        if rng.random() < 0.8:
            # the window is what limits the box
            c["cfg"]["max_cols"] = c["cfg"]["max_rows"] = None
        rows, cols = c["win"][0], c["win"][1]
        kind = ["larger", "smaller", "stale-80x24", "larger", "smaller", "unset", "columns-only", "lines-only", "equal", "mixed", "garbage"][i % 11]
        big = lambda v: v + rng.choice([1, 7, v, 3 * v + 5, 1000])
        small = lambda v: max(1, rng.choice([v - 1, v // 2, v // 3, 1, 2]))
        env = {"larger": {"COLUMNS": big(cols), "LINES": big(rows)},
               "smaller": {"COLUMNS": small(cols), "LINES": small(rows)},
               "stale-80x24": {"COLUMNS": 80, "LINES": 24},
               "unset": {},
               "columns-only": {"COLUMNS": rng.choice([big(cols), small(cols)])},
               "lines-only": {"LINES": rng.choice([big(rows), small(rows)])},
               "equal": {"COLUMNS": cols, "LINES": rows},
               "mixed": {"COLUMNS": big(cols), "LINES": small(rows)} if rng.random() < 0.5 else {"COLUMNS": small(cols), "LINES": big(rows)},
               "garbage": rng.choice([{"COLUMNS": "0", "LINES": "0"}, {"COLUMNS": "", "LINES": ""}, {"COLUMNS": "wide", "LINES": "-5"},
                                      {"COLUMNS": "99999", "LINES": "99999"}])}[kind]
        c["env"] = {k: str(v) for k, v in env.items()}
        c["fam"] = "size-env:" + kind
        yield c


def cases(ctx: Ctx):
    rng = ctx.rng
    q = ctx.quick
    # limits
    for _ in range(300 if q else 3000):
        c = {"k": "max", "win": _win(rng), "cfg": _cfg(rng)}
        c["max_cols"] = rng.choice([None, None, 0, -3, 1, 5, 80, 1000])
        c["max_rows"] = rng.choice([None, None, 0, -1, 1, 5, 24, 256, 257, 1000])
        yield c
    # no window size at all: get_size raises
    for mc, mr in [(None, None), (5, None), (None, 5), (5, 5)]:
        yield {"k": "max", "win": [0, 0, 0, 0], "cfg": dict(_cfg(rng), max_cols=None, max_rows=None), "max_cols": mc, "max_rows": mr}
        yield {"k": "max", "win": [0, 0, 0, 0], "cfg": dict(_cfg(rng), max_cols=7), "max_cols": mc, "max_rows": mr}
        yield dict(gen_case(rng, True, "rand"), win=[0, 80, 0, 0], max_cols=mc, max_rows=mr)
        yield dict(gen_case(rng, True, "rand"), win=[24, 0, 0, 0], max_cols=mc, max_rows=mr)
    # exact domain, every family
    n = 2500 if q else 40000
    for i in range(n):
        yield gen_case(rng, True)
    # the derived dimension exactly on (and one pixel off) its rounding boundary, constructed
    yield from ratio_boundary_cases(rng, 220 if q else 3000)
    # COLUMNS / LINES in the environment must not stand in for the window size
    yield from size_env_cases(rng, 330 if q else 3300)
    # through build_image_instance (PIL image in the child)
    for i in range(40 if q else 400):
        c = gen_case(rng, True)
        c["k"] = "build"
        c["w"], c["h"] = min(c["w"], 400), min(c["h"], 400)
        yield c
    # arbitrary floats: tolerance oracle only
    for i in range(1500 if q else 25000):
        yield gen_case(rng, False)


def run(ctx: Ctx):
    ctx.rule = ("cases: a window size (rows, cols, pixel size; incl. none/partial pixel info) x configuration (cell_size auto|WxH, "
                "default_cell_size, max_cols/max_rows auto|int, scale, global_scale) x call (image size 1..10^4, cols/rows explicit|auto, "
                "per-call limits incl. 0/negative, scale incl. 0) from families: scaled size at a whole number of cells (+-1 px), "
                "image far above the limits, one explicit dimension at/around/above its limit (D10 shape), both explicit, random; "
                "CONSTRUCTED rounding boundaries of the derived dimension: image (N*cw/g)*t x (r*ch/g)*t px so that with r rows (cols) "
                "given, or capping the automatic size at the limit r, the other dimension is exactly the integer N (N, r over all "
                "magnitudes up to the limits, t up to the 10^4 px bound, a fifth one pixel off) - zero-tolerance specification; "
                "COLUMNS / LINES set in the process environment (larger / smaller than / equal to the real window, one of them, 80x24, "
                "garbage, unset again) while the window limits the box - judged against the pty's real window size. "
                "Exact comparison with the Lean model on the float-exact domain; specification (driver, exact rationals) on the "
                "implementation's answer in every in-domain case. distinct = canonical JSON of the case; every case is non-trivial "
                "except get_max_cols_and_rows-only probes")
    try:
        corpus_dir = Path(__file__).resolve().parent.parent / "corpus" / "C15"
        if corpus_dir.is_dir():
            for f in sorted(corpus_dir.glob("*.json")):
                c = json.load(open(f))
                c = c.get("case", c)
                check_case(ctx, c)
                ctx.case(c)
                ctx.count("corpus")
        for c in cases(ctx):
            if ctx.time_left() < 0:
                ctx.count("skipped-over-budget")
                continue
            check_case(ctx, c)
            ctx.case(c, nontrivial=(c["k"] != "max"))
    finally:
        close_host()
    ctx.assumptions += [
        "floats: exact correspondence only on the float-exact domain (integer sizes <= 10^4, dyadic scales, bit budget <= 52); "
        "elsewhere the specification is evaluated on the exact rational values of the floats with relative tolerance 1e-9 on every "
        "inequality (conclusions loosened, hypotheses tightened) — rounding at an integer boundary is not judged",
        "specification evaluated only inside the property's quantifier: sizes, scales, cell sizes > 0, limits >= 1, a terminal size exists; "
        "outside it (0/negative per-call limits, scale 0, cell width 0, no terminal size) only the correspondence is checked",
        "negative scale factors are not generated",
    ]
