"""ptyhost — host the real `tupimage.TupimageTerminal` on a pseudo-terminal and drive it over RPC.

Why: `TupimageTerminal` always opens `/dev/tty` (it passes `in_userinput=None` to `GraphicsTerminal`),
and sizes come from `TIOCGWINSZ`.  So the object under test must live in a process whose
*controlling terminal* is a pty we own.  `PtyHost` does `pty.fork()`, the child immediately
`execve`s a **fresh** interpreter (no inherited threads, modules or environment) running this same
file with `--child`, and the two sides talk JSON lines over a private pipe pair (never over the
pty, so the terminal byte stream stays clean).

    from harness.ptyhost import PtyHost
    with PtyHost(rows=24, cols=80, xpixel=640, ypixel=384) as h:        # cell = 8x16 px
        h.setenv({"TUPIMAGE_MAX_COLS": "40"})                            # child's os.environ
        r = h.new_terminal(kwargs={"scale": 2.0}, config_overrides={"max_rows": 10})
        assert "error" not in r
        h.call("get_optimal_cols_and_rows", 100, 100, cols=None)        # -> {"ok": (13, 7)} style
        h.call("_config.get_provenance", "max_cols")                     # dotted paths from the terminal
        h.config()                                                       # {"values": {...}, "provenance": {...}}
        h.set_winsize(50, 120, 1200, 1000)                               # TIOCSWINSZ on the master
        h.output()                                                       # bytes the child wrote to its tty so far
        h.feed(b"\033_Gi=1;OK\033\\")                                    # bytes the "terminal" sends back

API (parent side, class `PtyHost`)
  PtyHost(rows=24, cols=80, xpixel=0, ypixel=0, env=None, repo=None, term="xterm-256color",
          fake_tmux=True, responder=None, keep_dir=False)
      env        extra variables for the child.  The child's environment is *scrubbed*: it contains
                 only PATH, HOME, XDG_CONFIG_HOME, XDG_STATE_HOME, XDG_CACHE_HOME, TMPDIR (all inside
                 a private temp dir `h.dir`), TERM, LANG and the verification guard variable; no
                 TMUX, SSH_*, WINDOWID, TUPIMAGE_*.
      repo       path of the source tree to import `tupimage` from (default: $VERIF_REPO or /repo).
      fake_tmux  put a stub `tmux` first in PATH (prints `xterm-fake||||4242||||99_$1`), so that a
                 configuration with `num_tmux_layers != 0` does not depend on a tmux server.
      responder  optional `fn(chunk: bytes) -> bytes | None` called (on the drain thread) with every
                 chunk the child writes to the pty; a returned byte string is written back to the
                 master, i.e. becomes terminal input of the child (answer graphics queries, CPR...).
  h.dir                      Path of the private temp dir (config files, id databases go here)
  h.hello                    {"tupimage_file", "python", "pid", "tty"} reported by the child at start
  h.set_winsize(rows, cols, xpixel=0, ypixel=0)
  h.setenv(set: dict = {}, unset: list = [], clear_prefix: str | None = None)
  h.new_terminal(**ctor_kwargs)      construct TupimageTerminal(**ctor_kwargs) in the child, replacing
                                     (and closing the id database of) the previous one.  If neither
                                     `id_database` nor `session_id` is given, `id_database` defaults
                                     to a file in h.dir.  Returns {"ok": None} or {"error": {...}}.
  h.call(path, *args, **kwargs)      call `terminal.<path>(*args, **kwargs)`; path may be dotted
                                     (`term.get_size`, `_config.to_toml_string`) or start with
                                     `tupimage:` to address the imported package instead of the terminal
                                     (`tupimage:TupimageConfig.validate_and_normalize`).
  h.get(path)                        attribute value
  h.config()                         all option values + provenance strings of `terminal._config`
  h.request(op, _raw=False, **fields)  the underlying RPC; `_raw=True` leaves the result in transport form
  h.run(source, **vars)              escape hatch: exec `source` in the child with globals
                                     {T (terminal or None), tupimage, H (child state), **vars};
                                     the value of the variable `result` is returned.
  h.output(clear=True) -> bytes      everything written to the pty by the child since the last call
  h.feed(data: bytes)                write to the master (= input typed by / responses of the terminal)
  h.close()

  Every RPC returns a dict: {"ok": value} or {"error": {"type": "ValueError", "msg": "...",
  "bases": [...]}} for an exception raised by the called code.  A dead child or a protocol problem
  raises `PtyHostError` (treat as tool failure, never as a verdict).

Value transport (`enc` / `dec`, usable on both sides): JSON with tags for what JSON cannot carry —
  tuple {"$":"tuple","v":[..]}, bytes {"$":"bytes","v":hex}, non-finite float {"$":"float","v":"nan"},
  IDSpace {"$":"IDSpace","v":[color_bits,use_3rd]}, IDSubspace {"$":"IDSubspace","v":[b,e]},
  TransmissionMedium {"$":"TransmissionMedium","v":"d"}, dict {"$":"dict","v":[[k,v],..]}, other
  dataclasses {"$":"obj","cls":..,"v":{field: ..}} and anything else {"$":"repr","cls":..,"v":repr}
  (the last two only travel child -> parent).  bool/int/float/str/None/list are plain JSON, so
  `True`, `1` and `1.0` stay distinct.  `dec(enc(x))` gives back tuples, bytes and the three repo types.

The pty is put into raw mode by the child before anything is imported, so bytes are not translated
(no ONLCR) and nothing is echoed.
"""
from __future__ import annotations

import dataclasses
import fcntl
import json
import math
import os
import pty
import shutil
import struct
import sys
import tempfile
import termios
import threading
import time
from pathlib import Path

GUARD = "SERGEI_GRECHANIK_PYTUPIMAGE_VERIF"


class PtyHostError(Exception):
    """The child died or the RPC channel broke: a tool failure, not a verdict."""


# ----------------------------------------------------------------------------------------------
# value transport
# ----------------------------------------------------------------------------------------------
def enc(x):
    if x is None or isinstance(x, (bool, int, str)):
        return x
    if isinstance(x, float):
        if math.isfinite(x):
            return x
        return {"$": "float", "v": repr(x)}
    if isinstance(x, list):
        return [enc(v) for v in x]
    if isinstance(x, tuple):
        return {"$": "tuple", "v": [enc(v) for v in x]}
    if isinstance(x, (bytes, bytearray)):
        return {"$": "bytes", "v": bytes(x).hex()}
    if isinstance(x, dict):
        return {"$": "dict", "v": [[enc(k), enc(v)] for k, v in x.items()]}
    cls = type(x).__name__
    if cls == "IDSpace" and hasattr(x, "color_bits"):
        return {"$": "IDSpace", "v": [x.color_bits, bool(x.use_3rd_diacritic)]}
    if cls == "IDSubspace" and hasattr(x, "begin"):
        return {"$": "IDSubspace", "v": [x.begin, x.end]}
    if cls == "TransmissionMedium":
        return {"$": "TransmissionMedium", "v": x.value}
    if dataclasses.is_dataclass(x) and not isinstance(x, type):
        out = {}
        for f in dataclasses.fields(x):
            v = getattr(x, f.name, None)
            out[f.name] = enc(v) if not (cls == "ImageInstance" and f.name == "image") else None
        return {"$": "obj", "cls": cls, "v": out}
    return {"$": "repr", "cls": cls, "v": repr(x)}


def dec(x, mod=None):
    """Inverse of `enc` for the transportable classes.  `mod` is the imported `tupimage` package
    (needed only to rebuild IDSpace / IDSubspace / TransmissionMedium; on the parent side, where the
    package may not be imported, those stay as their tagged dicts)."""
    if isinstance(x, list):
        return [dec(v, mod) for v in x]
    if isinstance(x, dict):
        t = x.get("$")
        v = x.get("v")
        if t == "tuple":
            return tuple(dec(e, mod) for e in v)
        if t == "bytes":
            return bytes.fromhex(v)
        if t == "float":
            return float(v)
        if t == "dict":
            return {dec(k, mod): dec(val, mod) for k, val in v}
        if mod is not None:
            if t == "IDSpace":
                return mod.IDSpace(v[0], v[1])
            if t == "IDSubspace":
                return mod.IDSubspace(v[0], v[1])
            if t == "TransmissionMedium":
                return mod.TransmissionMedium(v)
        return x
    return x


# ----------------------------------------------------------------------------------------------
# parent side
# ----------------------------------------------------------------------------------------------
_FAKE_TMUX = """#!/bin/sh
# stub used by harness/ptyhost.py: answers `tmux display-message -p FORMAT`
printf '%s\\n' 'xterm-fake||||4242||||99_$1'
"""


# A fake `tmux` whose `display-message -p FORMAT` expands #{name} from the environment variable FAKE_TMUX_<name>
# (client_termname, client_pid, pid, session_id, … — anything not set expands to nothing, as in tmux). The harness
# controls who the "attached client" is by changing FAKE_TMUX_client_pid between requests (harness/termid.py).
FAKE_TMUX_ENV = """#!/bin/sh
[ "$1" = "display-message" ] || exit 1
shift
[ "$1" = "-p" ] && shift
out="$1"
for v in client_termname client_pid client_tty client_name pid session_id session_name window_id pane_id; do
    eval "val=\\${FAKE_TMUX_$v}"
    out=$(printf '%s' "$out" | sed -e "s|#{$v}|$val|g")
done
printf '%s\\n' "$out" | sed -e 's|#{[a-z_]*}||g'
"""


def write_fake_tmux(bin_dir) -> str:
    """write the environment-driven fake tmux into bin_dir (to be put first in PATH); returns its path"""
    os.makedirs(str(bin_dir), exist_ok=True)
    path = os.path.join(str(bin_dir), "tmux")
    with open(path, "w") as f:
        f.write(FAKE_TMUX_ENV)
    os.chmod(path, 0o755)
    return path


class PtyHost:
    def __init__(self, rows: int = 24, cols: int = 80, xpixel: int = 0, ypixel: int = 0, *, env: dict | None = None,
                 repo: str | None = None, term: str = "xterm-256color", fake_tmux: bool = True, responder=None,
                 keep_dir: bool = False, python: str | None = None):
        self.dir = Path(tempfile.mkdtemp(prefix="ptyhost_"))
        self._keep_dir = keep_dir
        self.repo = str(repo or os.environ.get("VERIF_REPO", "/repo"))
        self._responder = responder
        self._buf = bytearray()
        self._lock = threading.Lock()
        self._closed = False
        self._ndb = 0
        for sub in ("home", "config", "state", "cache", "tmp", "bin"):
            (self.dir / sub).mkdir()
        path = "/usr/local/bin:/usr/bin:/bin"
        if fake_tmux:
            p = self.dir / "bin" / "tmux"
            p.write_text(_FAKE_TMUX)
            p.chmod(0o755)
            path = f"{self.dir / 'bin'}:{path}"
        child_env = {
            "PATH": path,
            "HOME": str(self.dir / "home"),
            "XDG_CONFIG_HOME": str(self.dir / "config"),
            "XDG_STATE_HOME": str(self.dir / "state"),
            "XDG_CACHE_HOME": str(self.dir / "cache"),
            "TMPDIR": str(self.dir / "tmp"),
            "TERM": term,
            "LANG": "C.UTF-8",
            "PYTHONDONTWRITEBYTECODE": "1",
            GUARD: "1",
            "PTYHOST_REPO": self.repo,
        }
        if os.environ.get("VERIF_COVERAGE") == "1" and os.environ.get("VERIF_COV_DIR"):
            # measurement only (harness/cov.py): the hosted interpreter records the repo lines it executes
            child_env.update({k: os.environ[k] for k in ("VERIF_COVERAGE", "VERIF_COV_DIR", "VERIF_COV_PREFIX")})
            child_env["PYTHONPATH"] = os.path.join(os.path.dirname(os.path.abspath(__file__)), "covsite")
        child_env.update(env or {})
        p2c_r, p2c_w = os.pipe()
        c2p_r, c2p_w = os.pipe()
        py = python or sys.executable
        pid, master = pty.fork()
        if pid == 0:  # child: nothing but exec (the parent may be multi-threaded)
            try:
                os.close(p2c_w)
                os.close(c2p_r)
                os.set_inheritable(p2c_r, True)
                os.set_inheritable(c2p_w, True)
                os.chdir(str(self.dir))
                os.execve(py, [py, "-u", os.path.abspath(__file__), "--child", str(p2c_r), str(c2p_w)], child_env)
            finally:
                os._exit(127)
        os.close(p2c_r)
        os.close(c2p_w)
        self.pid = pid
        self.master = master
        self._w = os.fdopen(p2c_w, "wb", buffering=0)
        self._r = os.fdopen(c2p_r, "rb")
        self.set_winsize(rows, cols, xpixel, ypixel)
        self._drain_t = threading.Thread(target=self._drain, daemon=True)
        self._drain_t.start()
        self.hello = self._recv()
        if "hello" not in self.hello:
            raise PtyHostError(f"child did not start: {self.hello!r} output={bytes(self._buf)!r}")
        self.hello = self.hello["hello"]

    # -- context manager
    def __enter__(self):
        return self

    def __exit__(self, *a):
        self.close()

    # -- pty side
    def _drain(self):
        while True:
            try:
                chunk = os.read(self.master, 65536)
            except OSError:
                return
            if not chunk:
                return
            with self._lock:
                self._buf += chunk
            if self._responder is not None:
                try:
                    ans = self._responder(chunk)
                except Exception:  # a broken responder must not kill the drain
                    ans = None
                if ans:
                    try:
                        os.write(self.master, ans)
                    except OSError:
                        return

    def set_winsize(self, rows: int, cols: int, xpixel: int = 0, ypixel: int = 0):
        """TIOCSWINSZ on the master: what TIOCGWINSZ on /dev/tty reports in the child.
        (struct winsize order: ws_row, ws_col, ws_xpixel, ws_ypixel; each 0..65535.)"""
        fcntl.ioctl(self.master, termios.TIOCSWINSZ, struct.pack("HHHH", rows, cols, xpixel, ypixel))

    def output(self, clear: bool = True) -> bytes:
        with self._lock:
            b = bytes(self._buf)
            if clear:
                self._buf.clear()
        return b

    def feed(self, data: bytes):
        os.write(self.master, data)

    # -- rpc
    def _recv(self) -> dict:
        line = self._r.readline()
        if not line:
            raise PtyHostError(f"pty child {self.pid} closed the RPC pipe; tty output tail: {self.output(False)[-2000:]!r}")
        try:
            return json.loads(line)
        except ValueError as e:
            raise PtyHostError(f"bad RPC reply {line[:200]!r}: {e}")

    def request(self, op: str, _raw: bool = False, **fields) -> dict:
        """One RPC.  With `_raw=True` the `ok` value is left in its transport (`enc`) form."""
        if self._closed:
            raise PtyHostError("host is closed")
        msg = dict(fields, op=op)
        try:
            self._w.write(json.dumps(msg).encode() + b"\n")
        except OSError as e:
            raise PtyHostError(f"pty child {self.pid} is gone: {e}")
        r = self._recv()
        if "tool_error" in r:
            raise PtyHostError(f"pty child: {r['tool_error']}")
        if "ok" in r and not _raw:
            r["ok"] = dec(r["ok"])
        return r

    def setenv(self, set: dict | None = None, unset: list | None = None, clear_prefix: str | None = None):
        return self.request("env", set=set or {}, unset=unset or [], clear_prefix=clear_prefix)

    def new_terminal(self, **ctor_kwargs) -> dict:
        if "id_database" not in ctor_kwargs and "session_id" not in ctor_kwargs:
            self._ndb += 1
            ctor_kwargs["id_database"] = str(self.dir / "state" / f"ids{self._ndb % 4}.db")
        return self.request("new", kwargs=enc(ctor_kwargs))

    def call(self, path: str, *args, **kwargs) -> dict:
        return self.request("call", path=path, args=enc(list(args)), kwargs=enc(kwargs))

    def get(self, path: str) -> dict:
        return self.request("get", path=path)

    def config(self) -> dict:
        r = self.request("config")
        if "ok" not in r:
            raise PtyHostError(f"config(): {r}")
        return r["ok"]

    def run(self, source: str, _raw: bool = False, **vars) -> dict:
        return self.request("run", _raw=_raw, source=source, vars=enc(vars))

    def close(self):
        if self._closed:
            return
        self._closed = True
        try:
            self._w.write(b'{"op":"quit"}\n')
        except OSError:
            pass
        for f in (self._w, self._r):
            try:
                f.close()
            except OSError:
                pass
        deadline = time.time() + 3
        while time.time() < deadline:
            try:
                p, _ = os.waitpid(self.pid, os.WNOHANG)
            except ChildProcessError:
                break
            if p:
                break
            time.sleep(0.01)
        else:
            try:
                os.kill(self.pid, 9)
                os.waitpid(self.pid, 0)
            except OSError:
                pass
        try:
            os.close(self.master)
        except OSError:
            pass
        if not self._keep_dir:
            shutil.rmtree(self.dir, ignore_errors=True)

    def __del__(self):
        try:
            self.close()
        except Exception:
            pass


# ----------------------------------------------------------------------------------------------
# child side
# ----------------------------------------------------------------------------------------------
class _Child:
    def __init__(self, rfd: int, wfd: int):
        self.r = os.fdopen(rfd, "rb")
        self.w = os.fdopen(wfd, "wb", buffering=0)
        self.T = None
        self.mod = None
        self.scratch = {}

    def reply(self, obj):
        self.w.write(json.dumps(obj).encode() + b"\n")

    def err(self, e: BaseException):
        return {"error": {"type": type(e).__name__, "msg": str(e), "bases": [c.__name__ for c in type(e).__mro__[1:-1]]}}

    def resolve(self, path: str):
        if path.startswith("tupimage:"):
            obj = self.mod
            path = path[len("tupimage:"):]
        else:
            if self.T is None:
                raise PtyHostError("no terminal constructed yet")
            obj = self.T
        for part in [p for p in path.split(".") if p]:
            obj = getattr(obj, part)
        return obj

    def close_terminal(self):
        t, self.T = self.T, None
        if t is not None:
            try:
                t.id_manager.close()
            except Exception:
                pass
            for name in ("out_command", "out_display", "in_response", "in_userinput"):
                try:
                    f = getattr(t.term, name)
                    if f is not sys.stdout.buffer:
                        f.close()
                except Exception:
                    pass

    def main(self):
        import tty
        try:
            tty.setraw(0)
        except Exception:
            pass
        repo = os.environ.pop("PTYHOST_REPO", "/repo")
        here = os.path.dirname(os.path.abspath(__file__))
        sys.path[:] = [p for p in sys.path if os.path.abspath(p or ".") != here]   # do not expose harness modules
        sys.path.insert(0, repo)
        import tupimage
        self.mod = tupimage
        self.reply({"hello": {"tupimage_file": tupimage.__file__, "python": sys.version.split()[0], "pid": os.getpid(),
                              "tty": os.ttyname(0)}})
        while True:
            line = self.r.readline()
            if not line:
                return
            try:
                m = json.loads(line)
                op = m["op"]
                if op == "quit":
                    self.close_terminal()
                    return
                self.reply(self.dispatch(op, m))
            except PtyHostError as e:
                self.reply({"tool_error": str(e)})
            except BaseException as e:  # raised by the code under test
                if isinstance(e, (KeyboardInterrupt, SystemExit)):
                    raise
                self.reply(self.err(e))

    def dispatch(self, op, m):
        mod = self.mod
        if op == "env":
            pref = m.get("clear_prefix")
            if pref:
                for k in [k for k in os.environ if k.startswith(pref)]:
                    del os.environ[k]
            for k in m.get("unset", []):
                os.environ.pop(k, None)
            for k, v in m.get("set", {}).items():
                os.environ[k] = v
            return {"ok": None}
        if op == "new":
            self.close_terminal()
            kwargs = dec(m["kwargs"], mod)
            self.T = mod.TupimageTerminal(**kwargs)
            return {"ok": None}
        if op == "call":
            fn = self.resolve(m["path"])
            return {"ok": enc(fn(*dec(m["args"], mod), **dec(m["kwargs"], mod)))}
        if op == "get":
            return {"ok": enc(self.resolve(m["path"]))}
        if op == "config":
            cfg = self.T._config
            names = list(type(cfg).__annotations__)
            return {"ok": enc({"values": {n: getattr(cfg, n) for n in names},
                               "provenance": {n: cfg.get_provenance(n) for n in names},
                               "config_file": self.T._config_file})}
        if op == "run":
            g = {"T": self.T, "tupimage": mod, "H": self, "result": None}
            g.update(dec(m.get("vars"), mod) or {})
            exec(compile(m["source"], "<ptyhost.run>", "exec"), g)
            return {"ok": enc(g.get("result"))}
        raise PtyHostError(f"unknown op {op!r}")


if __name__ == "__main__":
    if len(sys.argv) == 4 and sys.argv[1] == "--child":
        _Child(int(sys.argv[2]), int(sys.argv[3])).main()
    else:
        print(__doc__)
