"""C02 — ID assignments are stable and recycled only least-recently-used first.

K: IDManager.{get_id,set_id,del_id,cleanup,get_all,count,get_info} vs Tup.Model.{Db,Alloc} through the
   stateful session of drv_db; after EVERY step the six tables are dumped by direct SELECT on a second
   connection and compared with the model's dump. The implementation's random choices (free id picked by
   secrets.choice, candidate ids of the rejection sampling read from the SQL trace, rows removed by
   clean-ups) are inputs of the model, which checks that they are admissible.
F: Tup.Spec.AllocStep (step predicates written from the property text, membership by Spec.Layout)
   evaluated on the implementation's before/after dumps; a failing history is delta-debugged.
"""
from __future__ import annotations

import json
import pathlib

from . import dbutil
from .common import Ctx
from .dbutil import SPACES, clause_property, minimise, run_history

DRIVERS = ["drv_db"]
PROP = "C02"
EVIDENCE = dict(
    level="proof",
    trusted=[
        "sqlite: statement/transaction atomicity, `&`/BETWEEN/ORDER BY/LIMIT semantics (observed by K after every step)",
        "ISO-8601 text of naive datetimes orders like the instants (observed by K on whole-second/microsecond mixes)",
        "Spec.AllocStep executable checkers decide the Prop-level step predicates on key-sorted dumps (not proved)",
        "subspace size used by the specification = subspaceSize (= |allIds| = number of members by C10)",
    ],
)

DESCS = ["a", "A", "a ", "", "é", "b", "c", "d", "x'y\"z;--", "%", "_", "0", "1", "L" * 300] + [f"img{k}.png" for k in range(40)]

# Groups of NEAR-IDENTICAL descriptions: members of a group differ only by Unicode normalisation form (NFC / NFD / NFKC /
# canonical reordering), case or case folding, leading / trailing / invisible white space, a trailing control character,
# being a prefix of one another, JSON key order / spacing / number spelling, quoting and SQL / LIKE / printf meta characters,
# number spelling, astral code points. Descriptions are opaque: every member is a description of its own, must get an id of
# its own in a subspace with room and must come back byte for byte. (No NUL, no lone surrogates: outside the quantifier.)
NEAR_GROUPS = [
    ["\u00e9", "e\u0301", "E\u0301", "\u00c9", "e", "e\u0301\u0301", "\u00e9\u0301"],
    ["\u00c5", "A\u030a", "\u212b", "a\u030a", "\u00e5"],
    ["\ud55c", "\u1112\u1161\u11ab", "\u1112\u1161", "\ud558\u11ab"],
    ["\ufb01le", "file", "\uff46ile", "File", "FILE", "f\u0131le"],
    ["a\u0323\u0307", "a\u0307\u0323", "\u1ea1\u0307", "\u0227\u0323"],
    ["\u00df", "ss", "SS", "\u1e9e", "s\u017f"],
    ["K", "\u212a", "k", "\u03a9", "\u2126"],
    ["\u2460", "1", "\uff11", "01", "1.0", "+1", "1e0", " 1", "1 ", "\u0661"],
    ["a", "a ", " a", "a  ", "a\t", "a\n", "a\r\n", "a\u00a0", "a\u3000", "a\u200b", "a\ufe0f", "a\u00ad", "A", ""],
    ["x", "x\x01", "x\x1b", "x\x7f", "x\x1f", "x\u0085", "x\u2028", "x\x08"],
    ["img", "img1", "img1.", "img1.png", "img1.png ", "img1.pn", "img10.png", "IMG1.PNG"],
    ["L" * 299, "L" * 300, "L" * 301, "L" * 300 + "\u0301", "L" * 20000, "L" * 19999 + "l", "L" * 19999],
    ['{"a": 1, "b": 2}', '{"b": 2, "a": 1}', '{"a":1,"b":2}', '{"a": 1, "b": 2} ', '{"a": 1.0, "b": 2}', '{"a": "1", "b": 2}',
     '{"a": 1, "b": 2, "a": 1}'],
    ["x'y", 'x"y', "x''y", "x\\y", "x\\\\y", "x\\'y", "x`y", "xy"],
    ["%", "%%", "%s", "%d", "_", "a_c", "abc", "a%c", "a*c", "a?c", "[a]", "a.c"],
    ["--", ";", "x;--", "x'; DROP TABLE ids_8bit;--", ":1", "?1", "@a", "$a", "NULL", "null", "None"],
    ["\U0001f642", "\U0001f643", "\\ud83d\\ude42", "\U00010000", "\U0010ffff", "\uffff", "\ufffd", "\U0001f468\u200d\U0001f469",
     "\U0001f468\U0001f469", "\U0001f642\ufe0f"],
    ["\ufeffb", "b\ufeff", "\ufeff", "b"],
    ["/home/u/cafe\u0301.png", "/home/u/caf\u00e9.png", "/home/u/cafe.png", "/home/u/CAFE\u0301.png", "/home/u/cafe\u0301.png/",
     "/home/u//cafe\u0301.png"],
]


def _near_kind(a: str, b: str) -> str:
    """how two different descriptions are alike (evidence distribution only)"""
    import unicodedata as ud
    if ud.normalize("NFC", a) == ud.normalize("NFC", b):
        return "canonically-equivalent"
    if ud.normalize("NFKC", a) == ud.normalize("NFKC", b):
        return "compatibility-equivalent"
    if a.casefold() == b.casefold() or ud.normalize("NFKC", a.casefold()) == ud.normalize("NFKC", b.casefold()):
        return "case"
    if a.strip() == b.strip() or a.rstrip("\x00\x01\x08\x1b\x1f\x7f\u0085\u2028 ") == b.rstrip("\x00\x01\x08\x1b\x1f\x7f\u0085\u2028 "):
        return "white-space-or-control"
    if a.startswith(b) or b.startswith(a):
        return "prefix"
    return "other"


# (space, subspace) catalogue by path-forcing size
SUBS_BY_SPACE = {
    (0, True): [(1, 2), (0, 2), (255, 256), (1, 3), (0, 3), (1, 4), (2, 5), (3, 4), (0, 256), (1, 256), (10, 21), (5, 15), (100, 111)],
    (8, False): [(1, 2), (0, 2), (255, 256), (1, 3), (0, 3), (1, 4), (2, 5), (3, 4), (0, 256), (1, 256), (10, 21), (5, 15), (100, 111)],
    (8, True): [(1, 2), (0, 2), (255, 256), (1, 3), (0, 5), (1, 5), (1, 6), (0, 6), (0, 256), (7, 9)],      # 255, 510, 1020, 1275, 65025
    (24, False): [(1, 2), (0, 2), (0, 1 + 1), (255, 256), (0, 256), (3, 5), (0, 3)],                             # 65536, 130816, ~2^24
    (24, True): [(1, 2), (0, 2), (255, 256), (0, 256), (1, 3)],                                                  # 2^24-ish … 2^32-ish
}
DTS = [0, 0, 1, 1, 1_000_000, 1_000_000, 999_999, 3_600_000_000, -1, -1_000_000]


def _overlaps(rng, su):
    b, e = su
    c = [(max(0, b - 1), e), (b, min(256, e + 1)), (max(0, b - 1), min(256, e + 1)), (b, e)]
    if e - b >= 2:
        c += [(b + 1, e), (b, e - 1)]
    c = [(x, y) for (x, y) in c if x < y and y != 1]
    return rng.choice(c)


def gen_history(rng, profile: str, length: int, near: bool = False) -> dict:
    """near: the descriptions of the history are the members of 1-3 groups of near-identical descriptions (NEAR_GROUPS)"""
    max_ids = rng.choice([1, 2, 3, 10, 1024, 10**6])
    ops = []
    lab = [0]

    # several IDManager objects on the one database file (long-lived processes of a session, one at a time):
    # nothing an object remembers from its own earlier calls may stand in for the database
    procs = rng.choice([1, 1, 2, 2, 3]) if profile in ("small", "boundary", "collide", "mixed") and length >= 3 else 1

    def add(**o):
        o["n"] = lab[0]
        lab[0] += 1
        o.setdefault("dt", rng.choice(DTS))
        if procs > 1 and o["op"] not in ("bulk", "collide"):
            w = rng.randrange(procs)
            if w:
                o["who"] = w
        ops.append(o)
        return o["n"]

    start = dbutil.T0 + rng.choice([0, 0, 1, 500_000, 999_999])
    if profile == "small":
        max_ids = rng.choice([1, 2, 3, 10])
        sp = rng.choice([(0, True), (8, False)])
        base = rng.choice([(1, 2), (0, 2), (1, 3), (0, 3), (1, 4), (2, 5), (254, 256), (3, 4), (1, 5)])
        subs = [(sp, base), (sp, _overlaps(rng, base)), (sp, _overlaps(rng, base))]
        pool = rng.sample(DESCS, rng.randint(1, 7))
    elif profile == "boundary":
        # subspace size around max_ids: size-1, size, size+1
        max_ids = rng.choice([2, 3, 10])
        sp = rng.choice([(0, True), (8, False)])
        b = rng.choice([1, 5, 100])
        subs = [(sp, (b, b + k)) for k in (max_ids - 1, max_ids, max_ids + 1) if k >= 1]
        pool = rng.sample(DESCS, rng.randint(max_ids, max_ids + 6))
    elif profile == "collide":
        max_ids = rng.choice([1, 2, 3, 10])
        sp = rng.choice([(0, True), (8, False), (8, True)])
        if sp == (8, True):
            max_ids = rng.choice([10, 100, 200])
            subs = [(sp, rng.choice([(1, 2), (0, 2), (255, 256)]))]
        else:
            b = rng.choice([1, 7, 200])
            subs = [(sp, (b, b + max_ids + rng.randint(1, 6)))]
            if b == 1 and rng.random() < 0.5:
                subs = [(sp, (0, max_ids + rng.randint(2, 6)))]
        subs.append((sp, _overlaps(rng, subs[0][1])))
        pool = rng.sample(DESCS, rng.randint(3, 40))
    elif profile == "bulk16":
        max_ids = rng.choice([1024, 10**6, 10**6])
        sp = (8, True)
        subs = [(sp, (0, 256))]
        pool = rng.sample(DESCS, rng.randint(3, 20))
    elif profile == "bulk255":
        max_ids = rng.choice([10, 100, 200, 254])
        sp = (8, True)
        subs = [(sp, rng.choice([(1, 2), (0, 2), (9, 10)]))]
        pool = rng.sample(DESCS, rng.randint(3, 20))
    else:  # mixed
        subs = []
        for _ in range(rng.randint(1, 5)):
            sp = rng.choice(SPACES)
            su = rng.choice(SUBS_BY_SPACE[sp])
            subs.append((sp, su))
            if rng.random() < 0.5:
                subs.append((sp, _overlaps(rng, su)))
        pool = rng.sample(DESCS, rng.randint(1, 40))
    if near:
        pool = [x for g in rng.sample(NEAR_GROUPS, rng.randint(1, 3)) for x in g if len(x) <= 400]
        if len(pool) > 12 and rng.random() < 0.7:
            pool = rng.sample(pool, 12)
    ties = profile != "bulk16" and rng.random() < 0.25
    gets = []

    def some_id():
        r = rng.random()
        if gets and r < 0.6:
            return {"ref": rng.choice(gets)}
        if r < 0.9:
            sp, su = rng.choice(subs)
            off = 24 if sp[1] else (16 if sp[0] == 24 else 0)
            byte = rng.randint(max(su[0], 0), su[1] - 1) if rng.random() < 0.8 else rng.randrange(256)
            i = byte << off
            if sp[0] == 8 and sp[1]:
                i |= rng.randint(1, 255)
            if sp[0] == 24:
                i |= rng.randrange(1 << 16) | (rng.randint(1, 255) << 8 if not sp[1] and byte == 0 else 0)
                if (i & 0xFFFF00) == 0:
                    i |= 0x100
            return i if i else 1
        return rng.choice([0, 2**32, 2**32 + 5, -1, 1, 255, 256, 2**32 - 1, 1 << 24])

    if profile in ("bulk16", "bulk255"):
        sp, su = subs[0]
        add(op="bulk", sp=list(sp), su=list(su), fill=rng.choice([0.92, 0.97, 1.0]), tie=rng.random() < 0.5, dt=0)
    if profile in ("collide", "bulk255") and rng.random() < 0.7:
        add(op="collide", p=rng.choice([0.5, 0.9, 1.0]), dt=0)
    for _ in range(length):
        r = rng.random()
        sp, su = rng.choice(subs)
        dt = 0 if ties else rng.choice(DTS)
        if r < 0.55:
            gets.append(add(op="get", sp=list(sp), su=list(su), d=rng.choice(pool), dt=dt))
        elif r < 0.63:
            add(op="set", id=some_id(), d=rng.choice(pool), dt=dt)
        elif r < 0.71:
            add(op="del", id=some_id(), dt=dt)
        elif r < 0.77:
            add(op="cleanup", sp=list(sp), su=list(su), max=rng.choice([None, 0, 1, 2, 3, 10, 1024]), dt=dt)
        elif r < 0.85:
            add(op="get_all", sp=(None if rng.random() < 0.3 else list(sp)), su=list(su if rng.random() < 0.7 else (0, 256)), dt=dt)
        elif r < 0.92:
            add(op="count", sp=(None if rng.random() < 0.3 else list(sp)), su=list(su if rng.random() < 0.7 else (0, 256)), dt=dt)
        elif r < 0.97:
            add(op="get_info", id=some_id(), dt=dt)
        else:
            add(op="collide", p=rng.choice([0.0, 0.5, 1.0]), dt=0)
    return {"max_ids": max_ids, "seed": rng.randrange(1 << 30), "start": start, "profile": profile + ("+near" if near else ""), "ops": ops}


def near_cases(rng, quick: bool):
    """Near-identical descriptions requested in ONE subspace in one history (every group, both orders): each gets an id of its
    own while there is room, a repeated request returns the same id, get_info / get_all give back the requested strings;
    force-set onto neighbouring ids; on the enumerable path, on the large path (almost empty 32-bit space; 255 ids with
    max_ids 3), through two IDManager objects."""
    S8, S8D, S32, S16 = [8, False], [0, True], [24, True], [8, True]

    def h(max_ids, ops, tag):
        return {"max_ids": max_ids, "seed": 1, "start": dbutil.T0, "profile": "near:" + tag, "ops": [dict(o, n=k) for k, o in enumerate(ops)]}

    g = lambda d, sp, su, dt=1: {"op": "get", "sp": sp, "su": su, "d": d, "dt": dt}
    for gi, G0 in enumerate(NEAR_GROUPS):
        for order in (0, 1):
            G = list(G0) if order == 0 else list(reversed(G0))
            if quick and max(map(len, G)) > 1000:
                G = [x for x in G if len(x) <= 1000] + [x for x in G if len(x) > 1000][:2]
            n = len(G)
            su = [1, 1 + n + 3]
            # each member an id of its own; asked again in another order; read back one by one and listed
            again = list(range(n))
            rng.shuffle(again)
            reads = [{"op": "get_info", "id": {"ref": k}, "dt": 0} for k in range(n)] + \
                    [{"op": "get_all", "sp": S8, "su": su, "dt": 0}, {"op": "get_all", "sp": None, "su": [0, 256], "dt": 0}, {"op": "count", "sp": S8, "su": su, "dt": 0}]
            ops = [g(x, S8, su) for x in G] + [g(G[k], S8, su) for k in again] + reads
            yield h(1024, ops, "own-id")
            if order == 0:
                yield h(1024, [dict(o, who=k % 2) if k % 2 else o for k, o in enumerate(ops)], "own-id-two-managers")
            # large path: an almost empty 32-bit space; 255 ids of which at most 3 may stay
            ops = [g(x, S32, [0, 256]) for x in G] + [g(G[k], S32, [0, 256]) for k in again] + \
                  [{"op": "get_info", "id": {"ref": k}, "dt": 0} for k in range(n)] + [{"op": "get_all", "sp": S32, "su": [0, 256], "dt": 0}]
            yield h(1024, ops, "large-roomy")
            if order == 0:
                ops = [g(x, S16, [1, 2]) for x in G] + [g(G[k], S16, [1, 2]) for k in again] + [{"op": "get_all", "sp": S16, "su": [1, 2], "dt": 0}]
                yield h(3, ops, "large-tight")
            # force-set neighbouring ids to two members, request both, re-bind one id to the other member, request again
            for sp, a, b, sub in ((S8, 1, 2, [1, 4]), (S8D, 1 << 24, 2 << 24, [1, 4])):
                x, y = G[0], G[1 + (gi + order) % (n - 1)]
                yield h(1024, [{"op": "set", "id": a, "d": x, "dt": 1}, {"op": "set", "id": b, "d": y, "dt": 1}, g(x, sp, sub), g(y, sp, sub),
                               {"op": "get_info", "id": a, "dt": 0}, {"op": "get_info", "id": b, "dt": 0}, {"op": "get_all", "sp": sp, "su": sub, "dt": 0},
                               {"op": "set", "id": a, "d": y, "dt": 1}, {"op": "get_info", "id": a, "dt": 0}, g(x, sp, sub), g(y, sp, sub),
                               {"op": "get_all", "sp": sp, "su": [0, 256], "dt": 0}, {"op": "del", "id": b, "dt": 1}, g(y, sp, sub), g(x, sp, sub),
                               {"op": "get_info", "id": a, "dt": 0}, {"op": "count", "sp": sp, "su": sub, "dt": 0}], "force-set")
    # random histories whose descriptions are near-identical
    for _ in range(40 if quick else 400):
        prof = rng.choice(["small", "small", "boundary", "collide", "mixed"])
        yield gen_history(rng, prof, rng.choice([5, 13, 20, 40]), near=True)


def structured_cases():
    """Hand-built histories for the named situations of the property."""
    S8 = [8, False]

    def h(max_ids, ops, start=dbutil.T0):
        return {"max_ids": max_ids, "seed": 1, "start": start, "profile": "structured",
                "ops": [dict(o, n=k) for k, o in enumerate(ops)]}

    g = lambda d, su, dt=1, sp=S8: {"op": "get", "sp": sp, "su": su, "d": d, "dt": dt}
    yield h(1024, [g("a", [1, 2])])
    # full 3-id subspace, recycle in LRU order, hit refreshes recency
    yield h(1024, [g("a", [1, 4]), g("b", [1, 4]), g("c", [1, 4]), g("a", [1, 4]), g("d", [1, 4]), g("e", [1, 4]),
                   {"op": "get_all", "sp": S8, "su": [1, 4], "dt": 0}, {"op": "count", "sp": None, "su": [0, 256], "dt": 0}])
    # the same with all timestamps equal (tie on atime)
    yield h(1024, [g("a", [1, 4], 0), g("b", [1, 4], 0), g("c", [1, 4], 0), g("d", [1, 4], 0), g("a", [1, 4], 0)])
    # ISO text: whole second vs fractional microsecond ordering (start on a whole second)
    yield h(1024, [g("a", [1, 4], 0), g("b", [1, 4], 1), g("c", [1, 4], 999_999), g("d", [1, 4], 1), g("e", [1, 4], 0),
                   g("f", [1, 4], 1_000_000), {"op": "get_all", "sp": S8, "su": [1, 4], "dt": 0}], start=dbutil.T0)
    yield h(1024, [g("a", [1, 3], 1), g("b", [1, 3], -1), g("c", [1, 3], 1), g("d", [1, 3], 0)], start=dbutil.T0 + 1)
    # overlapping subspaces: the same description gets an id per subspace, the wider one sees two hits
    yield h(1024, [g("a", [1, 2]), g("a", [2, 3]), g("a", [1, 3]), g("b", [1, 3]), g("c", [1, 3]), g("c", [0, 256])])
    # force-set two ids to one description, then request it; delete; re-issue
    yield h(1024, [{"op": "set", "id": 1, "d": "a", "dt": 1}, {"op": "set", "id": 2, "d": "a", "dt": 1}, g("a", [1, 3]),
                   {"op": "del", "id": 1, "dt": 1}, g("a", [1, 3]), {"op": "del", "id": 2, "dt": 1}, g("a", [1, 3])])
    # max_ids = 1 makes a 2-id subspace "large": rejection sampling, clean-ups, possibly the error
    for p in (0.0, 1.0):
        yield h(1, [{"op": "collide", "p": p, "dt": 0}, g("a", [1, 3]), g("b", [1, 3]), g("c", [1, 3]), g("d", [1, 3]),
                    {"op": "set", "id": 1, "d": "x", "dt": 1}, {"op": "set", "id": 2, "d": "y", "dt": 1}, g("e", [1, 3]), g("f", [1, 3])])
    # explicit clean-ups
    yield h(1024, [g("a", [1, 9]), g("b", [1, 9]), g("c", [1, 9], 0), g("d", [1, 9], 0), g("e", [5, 9]),
                   {"op": "cleanup", "sp": S8, "su": [1, 9], "max": 2, "dt": 0}, {"op": "cleanup", "sp": S8, "su": [1, 9], "max": 0, "dt": 0},
                   {"op": "cleanup", "sp": S8, "su": [1, 9], "max": None, "dt": 0}])
    # invalid ids
    yield h(1024, [{"op": "set", "id": 0, "d": "a", "dt": 0}, {"op": "set", "id": 2**32, "d": "a", "dt": 0}, {"op": "del", "id": 0, "dt": 0},
                   {"op": "get_info", "id": 2**32, "dt": 0}, {"op": "set", "id": 2**32 - 1, "d": "a", "dt": 0}, {"op": "get_info", "id": 2**32 - 1, "dt": 0}])
    # two long-lived IDManager objects on one file: A fills the subspace and recycles once (so A has SEEN it full), B frees
    # ids (del_id / cleanup / re-binding by set_id does not free), A asks for new descriptions: free ids exist, nothing may be displaced
    w = lambda o, k=1: dict(o, who=k)
    for su, names in (([1, 4], "abc"), ([0, 3], "ab"), ([255, 256], "a")):
        fill = [g(x, su) for x in names]
        yield h(1024, fill + [g("n1", su), w({"op": "del", "id": {"ref": len(names) - 1}, "dt": 1}), g("n2", su), g("n3", su),
                              w({"op": "count", "sp": S8, "su": su, "dt": 0}), {"op": "get_all", "sp": S8, "su": su, "dt": 0}])
        yield h(1024, fill + [g("n1", su), w({"op": "cleanup", "sp": S8, "su": su, "max": 0, "dt": 1}), g("n2", su), w(g("n3", su)), g("n4", su),
                              w(g("n5", su), 2), g("n6", su)])
        yield h(1024, [w(o, k % 2) for k, o in enumerate(fill)] + [w(g("n1", su)), g("n2", su), {"op": "del", "id": {"ref": 0}, "dt": 1},
                                                                     w(g("n3", su)), g("n4", su), w({"op": "del", "id": {"ref": len(names) + 1}, "dt": 1}), g("n5", su)])
    # the same on the large path (max_ids = 1 makes every subspace "large"): B empties the subspace after A met collisions
    yield h(1, [{"op": "collide", "p": 1.0, "dt": 0}, g("a", [1, 3]), g("b", [1, 3]), g("c", [1, 3]), w({"op": "cleanup", "sp": S8, "su": [1, 3], "max": 0, "dt": 1}),
                g("d", [1, 3]), w(g("e", [1, 3])), g("f", [1, 3])])
    # every space once, full subspace
    for sp in SPACES:
        yield h(1024, [g("a", [0, 256], sp=list(sp)), g("b", [0, 256], sp=list(sp)), g("a", [0, 256], sp=list(sp)),
                       {"op": "get_all", "sp": None, "su": [0, 256], "dt": 0}])


# ---------------------------------------------------------------------------------------------
def report(ctx: Ctx, case: dict, fd, prop: str, do_minimise: bool = True):
    """Turn the findings of one history into ctx mismatches / violations (own property only)."""
    for k, v in fd.stats.items():
        ctx.count(k, v)
    drv = ctx.driver("drv_db")
    done = set()
    budget = getattr(ctx, "_minimise_budget", None)
    if budget is None:
        budget = ctx._minimise_budget = [4]          # minimise only the first few findings of a run
    for (cl, lab, detail) in fd.violations:
        if clause_property(cl) != prop:
            ctx.count(f"other-property-clause:{cl}")
            continue
        if cl in done:
            continue
        done.add(cl)
        small = case
        if do_minimise and len(case["ops"]) > 1 and not case.get("no_minimise") and budget[0] > 0:
            budget[0] -= 1
            small = dict(minimise(drv, case, ("F", cl), max_runs=60 if ctx.quick else 200), minimised=True)
        ctx.violation(f"step specification clause violated: {cl}", small, {"first_at_step": lab, "detail": detail}, key=cl)
    kdone = set()
    for (what, lab, impl, model) in fd.mismatches:
        if what in kdone:
            continue
        kdone.add(what)
        small = case
        if do_minimise and len(case["ops"]) > 1 and not case.get("no_minimise") and len(kdone) <= 1 and budget[0] > 0:
            budget[0] -= 1
            small = dict(minimise(drv, case, ("K", what), max_runs=60 if ctx.quick else 200), minimised=True)
        ctx.mismatch(what, small, impl, model)


def check_case(ctx: Ctx, case: dict):
    if case.get("k") == "fraclimits":
        return check_fraclimits(ctx, case)
    fd = run_history(ctx.driver("drv_db"), case)
    report(ctx, case, fd, PROP, do_minimise=not case.get("minimised"))
    return fd


def check_fraclimits(ctx: Ctx, case: dict):
    """`int(subspace_size * frac)` of the code vs the model's integer arithmetic."""
    from tupimage import id_manager as im
    d = ctx.driver("drv_db")
    d.ask(f"reset {case['max_ids']}")
    for cb, u3, b, e in case["subs"]:
        size = im.IDSpace(cb, u3).subspace_size(im.IDSubspace(b, e))
        impl = [min(int(size * fr), case["max_ids"]) for fr in (0.75, 0.6, 0.5)]
        enum = size <= min(1024, case["max_ids"])
        ctx.eq("cleanup limits int(size*frac)", dict(case, subs=[[cb, u3, b, e]]),
               f"{size} {1 if enum else 0} {','.join(map(str, impl))}", d.ask(f"fraclimits {cb} {1 if u3 else 0} {b} {e}"))
    ctx.count("fraclimit-subspaces", len(case["subs"]))


def cases(ctx: Ctx):
    rng = ctx.rng
    quick = ctx.quick
    yield from structured_cases()
    yield from near_cases(rng, quick)
    subs = [(b, e) for b in range(256) for e in range(b + 1, 257) if e != 1]
    for max_ids in (1, 3, 1024, 10**6):
        chosen = subs if not quick else rng.sample(subs, 1500)
        yield {"k": "fraclimits", "max_ids": max_ids, "subs": [[cb, u3, b, e] for (cb, u3) in SPACES for (b, e) in chosen]}
    n = 0
    while True:
        n += 1
        r = rng.random()
        if n % 40 == 5:
            yield gen_history(rng, "bulk16", rng.randint(4, 25 if quick else 60))
            continue
        if n % 10 == 3:
            yield gen_history(rng, rng.choice(["small", "boundary", "collide", "mixed"]), rng.choice([5, 20, 50, 100]), near=True)
            continue
        if r < 0.30:
            yield gen_history(rng, "small", rng.choice([1, 2, 3, 5, 8, 13, 20, 40, 60]))
        elif r < 0.42:
            yield gen_history(rng, "boundary", rng.randint(5, 60))
        elif r < 0.60:
            yield gen_history(rng, "collide", rng.randint(3, 80))
        elif r < 0.66:
            yield gen_history(rng, "bulk255", rng.randint(3, 40))
        elif r < 0.97:
            yield gen_history(rng, "mixed", rng.choice([1, 5, 20, 50, 100, 200, 400]))
        else:
            yield gen_history(rng, "mixed", 400 if quick else rng.choice([1000, 2500, 5000]))


def run_corpus(ctx: Ctx, prop: str, check):
    cdir = pathlib.Path(__file__).resolve().parent.parent / "corpus" / prop
    if cdir.is_dir():
        for fpath in sorted(cdir.glob("*.json")):
            c = json.load(open(fpath))
            c = c.get("case", c)
            check(ctx, c)
            ctx.case(c)
            ctx.count("corpus")


def run(ctx: Ctx):
    ctx.rule = ("cases = whole operation histories (get/set/del/cleanup/get_all/count/get_info, clock advance per op in "
                "{0, 1us, ~1s, 1h, negative}) over profiles small / boundary (subspace size = max_ids-1..+1) / collide (large path "
                "with steered collisions) / bulk255, bulk16 (pre-filled 16-bit subspaces) / mixed (all 5 spaces, sizes 1..2^32-ish, "
                "overlapping subspaces), in 60 % of them the calls alternate at random between 2-3 IDManager objects on the one file, "
                "+ structured histories + int(size*frac) table + NEAR-IDENTICAL descriptions (19 groups, 141 strings: NFC / NFD / NFKC "
                "/ reordered marks, case and case folding, leading / trailing / invisible white space, trailing control characters, "
                "prefixes, JSON key order and spacing, quotes / backslash / percent / SQL and LIKE meta characters, number spellings, "
                "astral and non-character code points, 300..20000 characters) requested in one subspace in one history in both orders "
                "(own id each, same id again, get_info / get_all), force-set onto neighbouring ids, enumerable / large roomy / large "
                "tight paths, two managers; every tenth random history draws its descriptions from these groups. distinct = canonical JSON of the history; "
                "non-trivial = history with at least one get_id")
    run_corpus(ctx, PROP, check_case)
    budget = ctx.budget_s * (0.68 if ctx.quick else 0.85)
    for c in cases(ctx):
        if ctx.elapsed() > budget or len(ctx.violations) + len(ctx.mismatches) >= 40:
            break
        check_case(ctx, c)
        ctx.case(c, nontrivial=any(o.get("op") == "get" for o in c.get("ops", [])))
        if "near" in c.get("profile", ""):
            # which kinds of near-identical pairs were requested in one subspace of one history
            by_sub = {}
            for o in c["ops"]:
                if o.get("op") == "get":
                    by_sub.setdefault((tuple(o["sp"]), tuple(o["su"])), set()).add(o["d"])
            for ds in by_sub.values():
                ds = sorted(ds)[:14]
                for i, a in enumerate(ds):
                    for b in ds[i + 1:]:
                        ctx.count("near-pair-in-one-subspace:" + _near_kind(a, b))
        if "ops" in c:
            ctx.count("history-len:" + ("1" if len(c["ops"]) <= 1 else "2-10" if len(c["ops"]) <= 10 else "11-100" if len(c["ops"]) <= 100
                                         else "101-400" if len(c["ops"]) <= 400 else ">400"))
            ctx.count("profile:" + c.get("profile", "?"))
            ctx.count(f"max_ids:{c['max_ids']}")
    ctx.assumptions += [
        "descriptions are valid UTF-8 strings without lone surrogates; sizes/thresholds non-negative",
        "tables are only ever written through the library (DbInv); bulk pre-fill inserts members of the table's own space",
        "the clock stays within years 1000..9999 (fixed-width ISO text)",
    ]
