"""C16 — the tracked cursor position always matches the terminal's cursor.

The real `GraphicsTerminal` runs on a pty (harness/ptyterm.py); its cursor-position queries are
answered, while it is blocked in `get_cursor_position`, by the Lean terminal model
(`drv_trk term …`) fed with the real bytes written so far.

K: after EVERY call, `tracked_cursor_position`, the bytes written by the call and the exception
   kind are compared with `Tup.Trk.step` (lean/Tup/Model/Tracker.lean) through `drv_trk step …`.
F: after EVERY call, if the real `tracked_cursor_position` is not None it must equal the cursor of
   the specification terminal (`Tup.Spec.Term`, tmux-validated, pending wrap = column w) after the
   real bytes so far — strict equality, no pending-wrap tolerance; and the placeholder cells a
   forced-placeholder put leaves on the specification terminal's screen must be the rectangle
   clipped/positioned against the true cursor (spec terminal's cursor before the call).
Thorough tier: the same on the tty of a real tmux pane — tmux answers the queries and holds the
   true cursor; the specification terminal is compared with tmux on the same bytes too.
Op `resize` (w, h): the pty's window size is changed (TIOCSWINSZ) and the object's reset() is called
   (RIS).  From that reset on, the terminal is a fresh specification terminal of the new size fed with
   the bytes written since; the model is stepped with the new size.
Calls that RAISE (every argument-error path: conflicting left/right or up/down with the other axis absent / given / conflicting
   too, `pos` with col/row, a put without rows / cols / image id alone and through send_command, print_placeholder with pos and
   line feeds or an empty rectangle) are steps like any other: K compares the bytes they wrote and the position they leave with
   `Tup.Trk.step` (which rejects before anything is written, except send_command whose graphics command precedes the put), F
   compares the position the object claims afterwards with the terminal that received whatever the call wrote before raising;
   the object is used further (relative moves, a forced-placeholder put, queries) and every later step is judged too.
Failing sequences are delta-debugged to minimal ones before they are reported.
"""
from __future__ import annotations

import json
import re
from pathlib import Path

from .common import Ctx, ToolFailure, hx
from . import ptyterm

DRIVERS = ["drv_trk"]
EVIDENCE = dict(
    level="proof",
    trusted=[
        "Tup.Spec.Term (+ the three tmux corrections in Tup.Spec.Term.feedP) is the definition of a conforming terminal; "
        "validated against tmux 3.3a on the control functions used (thorough tier compares them on every case)",
        "the terminal reports the pending-wrap state in its cursor-position report (column w+1), as tmux does; "
        "terminals that hide it (xterm family) are outside the theorem (TermCfg.cprClamps = false)",
        "pty / tty layer in raw mode is transparent; winsize (TIOCGWINSZ) equals the terminal's size",
        "every write()/writecmd() argument and every placeholder line is a sequence of complete control functions "
        "(`Closed`: the tokenizer is in its ground state at call boundaries — hypothesis of tracked_sound_bytes) and "
        "contains no status-report request (an unread reply would be taken for the next cursor-position report)",
        "placeholder line contents (to_lines) and graphics-command bytes are inputs taken from the implementation",
    ],
)

CFG = "110"  # cubFromW restoreSgr cprClamps  — tmux-like
SIZES = [(1, 1), (2, 2), (80, 24), (300, 3), (3, 300), (10, 5)]
CORPUS = Path(__file__).resolve().parent.parent / "corpus" / "C16"
PLACEHOLDER_CP = 0x10EEEE


def _mods():
    import tupimage
    from tupimage import graphics_terminal as gtm
    from tupimage import placeholder as phm
    from tupimage import graphics_command as gcm

    return tupimage, gtm, phm, gcm


# ---------------------------------------------------------------------------------------------
# executing one op on the real object
# ---------------------------------------------------------------------------------------------
class _Rand:
    def __init__(self, v):
        self.v = v

    def randint(self, a, b):
        return self.v


def _mode(phm, name):
    M = phm.ImagePlaceholderMode
    return {"default": M.default, "complete": M.complete, "minimal": M.minimal}[name]()


def _put_command(gcm, op):
    return gcm.PutCommand(image_id=op["id"], placement_id=op.get("pid"), rows=op["rows"], cols=op["cols"],
                          do_not_move_cursor=op.get("C"), virtual=op.get("virtual"))


def _command(gcm, op):
    k = op["kind"]
    if k == "put":
        return _put_command(gcm, op)
    if k == "transmit":
        return gcm.TransmitCommand(
            image_id=op["id"], medium=gcm.TransmissionMedium.DIRECT, data=b"abc", pix_width=1, pix_height=1,
            placement=gcm.PlacementData(placement_id=op.get("pid"), virtual=op.get("virtual"), rows=op["rows"],
                                        cols=op["cols"], do_not_move_cursor=op.get("C")))
    if k == "transmit0":
        return gcm.TransmitCommand(image_id=op["id"], medium=gcm.TransmissionMedium.DIRECT, data=b"abc")
    if k == "delete":
        return gcm.DeleteCommand()
    raise ValueError(k)


def exec_real(gt, op) -> str:
    _, gtm, phm, gcm = _mods()
    k = op["op"]
    try:
        if k == "reset":
            gt.reset_by_scrolling = bool(op["rbs"])
            gt.reset()
        elif k == "resize":
            # the window size was changed by the caller of exec_real (TIOCSWINSZ); the library call of this step is the
            # full reset (RIS) that follows every resize
            gt.reset_by_scrolling = False
            gt.reset()
        elif k == "mv":
            kw = {n: op[n] for n in ("right", "down", "left", "up") if op.get(n) is not None}
            gt.move_cursor(**kw)
        elif k == "mva":
            kw = {n: op[n] for n in ("col", "row") if op.get(n) is not None}
            if op.get("pos") is not None:
                kw["pos"] = tuple(op["pos"])
            gt.move_cursor_abs(**kw)
        elif k == "margins":
            gt.set_margins(op["top"], op["bottom"])
        elif k == "su":
            gt.scroll_up(op["n"])
        elif k == "sd":
            gt.scroll_down(op["n"])
        elif k == "write":
            data = bytes.fromhex(op["hex"])
            gt.write(data.decode("utf-8") if op.get("str") else data)     # `str`: the text form of write()
        elif k == "writecmd":
            gt.writecmd(bytes.fromhex(op["hex"]))
        elif k == "cl":
            gt.clear_line()
        elif k == "cs":
            gt.clear_screen()
        elif k == "ph":
            ph = phm.ImagePlaceholder(image_id=op["id"], placement_id=op["pid"], start_col=op["sc"], start_row=op["sr"],
                                      end_col=op["ec"], end_row=op["er"])
            fmt = bytes.fromhex(op["fmt"]) if op.get("fmt") is not None else None
            gt.print_placeholder(ph, pos=tuple(op["pos"]) if op.get("pos") is not None else None, mode=_mode(phm, op["mode"]),
                                 formatting=fmt, use_save_cursor=op["save"], use_line_feeds=op["lf"])
        elif k == "put":
            gt.print_placeholder_for_put(_put_command(gcm, op))
        elif k == "send":
            old = gtm.random
            gtm.random = _Rand(op.get("rand", 77))
            try:
                gt.send_command(_command(gcm, op), force_placeholders=op.get("force"))
            finally:
                gtm.random = old
        elif k == "getpos":
            gt.get_cursor_position()
        elif k == "getposT":
            gt.get_cursor_position_tracked()
        else:
            raise ToolFailure(f"unknown op {k}")
        return "ok"
    except ValueError:
        return "ValueError"
    except TimeoutError:
        return "cpr"


# ---------------------------------------------------------------------------------------------
# the same op for the model
# ---------------------------------------------------------------------------------------------
def _o(v):
    return "N" if v is None else str(v)


def _lines_token(lines):
    if lines is None:
        return "E"
    return "L" + ",".join(hx(l) for l in lines)


def _to_lines(op_id, pid, sc, sr, ec, er, mode, fmt):
    _, _, phm, _ = _mods()
    try:
        ph = phm.ImagePlaceholder(image_id=op_id, placement_id=pid, start_col=sc, start_row=sr, end_col=ec, end_row=er)
        return ph.to_lines(_mode(phm, mode), fmt)
    except (ValueError, TypeError, IndexError):
        return None


def _put_tail(op, pid, dims, lines):
    nomove = 1 if op.get("C") else 0
    hasid = 0 if op.get("id") is None else 1
    c, r = dims
    return f"{_o(op['rows'])} {_o(op['cols'])} {hasid} {nomove} {c} {r} {_lines_token(lines)}"


def model_tokens(op, case, real_bytes: bytes, dims=(0, 0), lines=()):
    """Request tokens of `op` for `drv_trk step`.  (dims, lines): placeholder lines the model asked for."""
    k = op["op"]
    if k == "reset":
        return f"reset {1 if op['rbs'] else 0}"
    if k == "resize":
        return "reset 0"
    if k == "mv":
        return f"mv {_o(op.get('right'))} {_o(op.get('down'))} {_o(op.get('left'))} {_o(op.get('up'))}"
    if k == "mva":
        pos = op.get("pos")
        return f"mva {_o(op.get('col'))} {_o(op.get('row'))} {'N' if pos is None else f'{pos[0]},{pos[1]}'}"
    if k == "margins":
        return f"margins {op['top']} {op['bottom']}"
    if k in ("su", "sd"):
        return f"{k} {op['n']}"
    if k in ("write", "writecmd"):
        return f"{k} {op['hex'] or '-'}"
    if k in ("cl", "cs", "getpos", "getposT"):
        return k
    if k == "ph":
        fmt = bytes.fromhex(op["fmt"]) if op.get("fmt") is not None else None
        ls = _to_lines(op["id"], op["pid"], op["sc"], op["sr"], op["ec"], op["er"], op["mode"], fmt)
        pos = op.get("pos")
        return (f"ph {_lines_token(ls)} {max(0, op['ec'] - op['sc'])} {'N' if pos is None else f'{pos[0]},{pos[1]}'} "
                f"{1 if op['save'] else 0} {1 if op['lf'] else 0} {0 if fmt is None else 1}")
    if k == "put":
        return "put " + _put_tail(op, op.get("pid") or 0, dims, list(lines))
    if k == "send":
        force = op.get("force")
        if force is None:
            force = bool(case.get("force"))
        kind = {"put": "pv" if op.get("virtual") else "pn",
                "transmit": "tv" if op.get("virtual") else "tn",
                "transmit0": "t0", "delete": "o"}[op["kind"]]
        apc = re.match(rb"(?:\x1b_G[^\x1b]*\x1b\\)*", real_bytes).group(0)
        if op["kind"] in ("put", "transmit"):
            tail = _put_tail(op, 0, dims, list(lines))
        else:
            tail = "N N 1 0 0 0 L"
        return f"send {1 if force else 0} {kind} {hx(apc)} {tail}"
    raise ToolFailure(f"unknown op {k}")


def _put_pid(op):
    if op["op"] == "send":
        return op.get("pid") if op.get("pid") is not None else op.get("rand", 77)
    return op.get("pid") or 0


def model_step(d, w, h, mstate, replies, op, case, real_bytes):
    """-> (tracked|None, margins flag, err, nq, bytes)"""
    rs = ",".join(hx(r) for r in replies) or "-"
    head = f"step {w} {h} {mstate[0]} {mstate[1]} {rs} "

    def ask(dims=(0, 0), lines=()):
        r = d.ask(head + model_tokens(op, case, real_bytes, dims, lines)).split(" ")
        if len(r) != 5:
            raise ToolFailure(f"drv_trk: {r} for {op}")
        return r

    r = ask()
    out = b"" if r[4] == "-" else bytes.fromhex(r[4])
    m = re.search(rb"<<need (\d+) (\d+)>>", out)
    if m:
        c, rr = int(m.group(1)), int(m.group(2))
        ls = _to_lines(op["id"], _put_pid(op), 0, 0, c, rr, "default", None)
        r = ask((c, rr), ls or [])
        out = b"" if r[4] == "-" else bytes.fromhex(r[4])
    tr = None if r[0] == "N" else tuple(int(v) for v in r[0].split(","))
    return tr, r[1], r[2], int(r[3]), out


# ---------------------------------------------------------------------------------------------
# specification side
# ---------------------------------------------------------------------------------------------
def spec_term(d, w, h, data: bytes):
    r = d.ask(f"term {w} {h} {CFG} {hx(data)}").split(" ")
    if len(r) != 6:
        raise ToolFailure(f"drv_trk term: {r}")
    return dict(cx=int(r[0]), cy=int(r[1]), top=int(r[2]), bot=int(r[3]), nrep=int(r[4]),
                last=b"" if r[5] == "-" else bytes.fromhex(r[5]))


def spec_cells(d, w, h, data: bytes):
    r = d.ask(f"cells {w} {h} {CFG} {hx(data)}")
    if r == "bad":
        raise ToolFailure("drv_trk cells")
    out = {}
    if r == "-":
        return out
    for item in r.split(";"):
        y, x, fg, marks = item.split(":")
        out[(int(y), int(x))] = (fg, [int(m) for m in marks.split(",") if m])
    return out


def expected_rect(op, x0, y0, w, h):
    """Cells (y, x) -> (image row, image col) a forced-placeholder put must occupy, from the true cursor."""
    pc, pr = op["cols"], op["rows"]
    cols = min(pc, w - x0)
    if op.get("C"):
        rows = min(pr, h - y0)
        top = y0
    else:
        rows = pr
        top = min(y0, h - pr)
    exp = {}
    if cols <= 0 or rows <= 0:
        return exp
    if not op.get("C") and x0 + cols >= w and top + rows - 1 >= h - 1:
        # the cursor is moved to the next line after an image that touches the right edge (NEL);
        # on the last line this scrolls the screen by one line — part of the cursor policy, not a misplacement
        top -= 1
    for i in range(rows):
        if top + i < 0 or i >= 297:
            continue
        for j in range(cols):
            exp[(top + i, x0 + j)] = (i, j)
    return exp


def prints_placeholder(op, case):
    if op["op"] == "put":
        return True
    if op["op"] == "send" and op["kind"] in ("put", "transmit"):
        force = op.get("force")
        if force is None:
            force = bool(case.get("force"))
        return bool(force) and not op.get("virtual")
    return False


# ---------------------------------------------------------------------------------------------
# one case
# ---------------------------------------------------------------------------------------------
_TMUX: dict = {}


def _tmux_term(w, h):
    t = _TMUX.get((w, h))
    if t is None:
        t = ptyterm.TmuxTerm(w, h)
        _TMUX[(w, h)] = t
    return t


def close_tmux():
    for t in _TMUX.values():
        t.close()
    _TMUX.clear()


def eval_case(ctx: Ctx, case: dict, stats: bool = False):
    """Runs the case.  -> (mismatches, violations): lists of (what/key, step index, detail)."""
    _, gtm, phm, gcm = _mods()
    d = ctx.driver("drv_trk")
    w, h = case["w"], case["h"]
    backend = case.get("backend", "pty")
    mism, viol = [], []
    diac = [ord(c) for c in phm.ROWCOLUMN_DIACRITICS]

    # The window may be resized between calls (op "resize" = TIOCSWINSZ, then reset()).  A real resize reflows the
    # screen, which Spec.Term does not model; the RIS written by that reset() clears the screen, homes the cursor and
    # drops margins / saved cursor, so from there on the terminal IS a fresh specification terminal of the new size
    # fed with the bytes written since (`base` = where they start).  F and the query replies use that terminal; K gives
    # the model the new size (`step W H …`).
    cur = {"w": w, "h": h, "base": 0}
    if backend == "tmux":
        if any(op["op"] in ("resize", "winch") for op in case["ops"]):
            raise ToolFailure("histories with a resize run on the pty backend only")
        pt = _tmux_term(w, h)
        pt.fresh(force_placeholders=bool(case.get("force")))
    else:
        nq = [0]

        def responder(prefix: bytes) -> bytes:
            reply = spec_term(d, cur["w"], cur["h"], prefix[cur["base"]:])["last"]
            noise = case.get("noise")
            if noise:
                # typed-ahead input (key presses, other reports) that reaches the application before the terminal's reply
                reply = bytes.fromhex(noise[nq[0] % len(noise)]) + reply
                nq[0] += 1
            return reply

        pt = ptyterm.PtyTerm(w, h, responder, force_placeholders=bool(case.get("force")), buffered_display=bool(case.get("buffered")))
    gt = pt.term
    try:
        mstate = ("N", "0")
        model_ok = not case.get("noise")     # the tracker model reads replies only; histories with typed-ahead input are judged by F alone
        for idx, op in enumerate(case["ops"]):
            if op["op"] == "resize":
                if not pt.wait_seen():
                    raise ToolFailure("pty master did not receive everything that was written")
                if stats:
                    ctx.count("resize:" + ("same" if (op["w"], op["h"]) == (w, h) else
                                           "grow" if op["w"] >= w and op["h"] >= h else
                                           "shrink" if op["w"] <= w and op["h"] <= h else "mixed"))
                pt.resize(op["w"], op["h"])
                w, h = op["w"], op["h"]
                cur.update(w=w, h=h, base=len(pt.log))
            if op["op"] == "winch":
                # The window size changes and the application calls nothing (no reset()).  What a terminal does with its
                # cursor and content then is its own business, so nothing is judged at this step; the generator follows
                # every winch by an absolute move with both coordinates on a blank, margin-free screen, after which the
                # terminal is again a fresh specification terminal of the new size fed with the bytes written since.
                if not pt.wait_seen():
                    raise ToolFailure("pty master did not receive everything that was written")
                if stats:
                    ctx.count("winch:" + ("grow" if op["w"] >= w and op["h"] >= h else
                                          "shrink" if op["w"] <= w and op["h"] <= h else "mixed"))
                pt.resize(op["w"], op["h"])
                w, h = op["w"], op["h"]
                cur.update(w=w, h=h, base=len(pt.log))
                continue
            base = cur["base"]
            before = bytes(pt.log[base:])
            if case.get("buffered") and backend == "pty":
                # what is still pending in the display buffer arrives before anything this call makes the terminal do
                before += bytes(pt.out_display._pending)
            st0 = spec_term(d, w, h, before)
            mark = pt.mark()
            rmark = len(pt.read_log)
            err = exec_real(gt, op)
            if case.get("buffered") and backend == "pty":
                # the display stream is buffered and distinct from the command stream: what the library leaves
                # unflushed stays pending (it arrives with the next flush) — exactly as with sys.stdout.buffer
                pt.wait_seen()
            data = pt.since(mark)
            tracked = gt.tracked_cursor_position
            if tracked is not None:
                tracked = (int(tracked[0]), int(tracked[1]))
            if backend == "pty" and pt.errors:
                raise ToolFailure("responder: " + pt.errors[0])
            # the replies the object read during this call (from the model terminal / from tmux)
            rb = bytes(pt.read_log[rmark:])
            replies = [p + b"R" for p in rb.split(b"R")[:-1]]
            if stats:
                ctx.count("op:" + op["op"])
                ctx.count("err:" + err)
                ctx.count(f"queries-in-call:{len(replies)}")
                if err == "ValueError":
                    ctx.count(f"raising-call:{op['op']}:position-" + ("known" if tracked is not None else "unknown")
                              + (":wrote-bytes-before-raising" if data else ":wrote-nothing"))
                if tracked is None:
                    ctx.count("tracked:None")
                else:
                    ctx.count("tracked:known")
            # ---- K
            if model_ok:
                mtr, mm, merr, _nq, mout = model_step(d, w, h, mstate, replies, op, case, data)
                mstate = ("N" if mtr is None else f"{mtr[0]},{mtr[1]}", mm)
                for what, a, b in (("tracked_cursor_position", tracked, mtr), ("bytes written", data, mout),
                                   ("exception", err, merr)):
                    if what == "bytes written" and case.get("buffered"):
                        continue      # arrival order across two streams is not program order; judged by F only
                    if a != b:
                        mism.append((f"{what} after {op['op']}", idx,
                                     {"impl": a.hex() if isinstance(a, bytes) else a,
                                      "model": b.hex() if isinstance(b, bytes) else b}))
                        model_ok = False
            # ---- F
            after = bytes(pt.log[base:])
            st = spec_term(d, w, h, after)
            true_cur = (st["cx"], st["cy"])
            if backend == "tmux":
                tc = pt.cursor()
                if (tc[0], tc[1]) != true_cur or (tc[2], tc[3]) != (st["top"], st["bot"]):
                    mism.append(("specification terminal vs tmux", idx, {"tmux": tc, "spec": [st["cx"], st["cy"], st["top"], st["bot"]]}))
                true_cur = (tc[0], tc[1])
            if stats:
                if st["cx"] >= w:
                    ctx.count("terminal:pending-wrap-after-call")
                if (st["top"], st["bot"]) != (0, h - 1):
                    ctx.count("terminal:margins-set-after-call")
            if tracked is not None and tracked != true_cur:
                quals = ""
                if tracked[0] < 0 or tracked[1] < 0:
                    quals += "+negative"
                if (st0["top"], st0["bot"]) != (0, h - 1):
                    quals += "+margins"
                if st0["cx"] >= w or st["cx"] >= w:
                    quals += "+pendingwrap"
                if not any(x[0].startswith("tracked") for x in viol):
                    viol.append((f"tracked!=cursor:{op['op']}{quals}", idx,
                                 {"tracked": tracked, "cursor": true_cur, "size": [w, h], "step": idx, "op": op}))
            if prints_placeholder(op, case) and err == "ok" and op.get("rows") is not None and op.get("cols") is not None \
                    and (st0["top"], st0["bot"]) == (0, h - 1) and (st["top"], st["bot"]) == (0, h - 1):
                exp = expected_rect(op, st0["cx"], st0["cy"], w, h)
                fg = str(op["id"] & 0xFFFFFF)
                cells = {p: v for p, v in spec_cells(d, w, h, after).items() if v[0] == fg}
                got = {}
                for p, (_, marks) in cells.items():
                    i = diac.index(marks[0]) if len(marks) > 0 and marks[0] in diac else None
                    j = diac.index(marks[1]) if len(marks) > 1 and marks[1] in diac else None
                    # a cell without a column diacritic (columns >= 297) inherits its column from the left neighbour
                    got[p] = (i, j if j is not None else exp.get(p, (None, None))[1])
                if stats:
                    ctx.count("put:cells-expected", len(exp))
                    if exp:
                        pc, pr = op["cols"], op["rows"]
                        ctx.count("put:" + ("clipped-cols" if pc > w - st0["cx"] else "full-cols"))
                        ctx.count("put:" + ("rows-do-not-fit" if pr > h - st0["cy"] else "rows-fit")
                                  + ("-C" if op.get("C") else ""))
                        if st0["cx"] + min(pc, w - st0["cx"]) >= w and not op.get("C"):
                            ctx.count("put:right-edge-NEL")
                    else:
                        ctx.count("put:nothing-to-print")
                if got != exp and not any(x[0].startswith("placement") for x in viol):
                    missing = sorted(set(exp) - set(got))[:4]
                    extra = sorted(set(got) - set(exp))[:4]
                    wrong = sorted(p for p in set(got) & set(exp) if got[p] != exp[p])[:4]
                    viol.append((f"placement-misplaced:{op['op']}", idx,
                                 {"cursor_before": [st0["cx"], st0["cy"]], "tracked_before": "see previous step", "size": [w, h],
                                  "missing": missing, "extra": extra, "wrong_cell_content": wrong, "op": op}))
            if len(viol) >= 2 and not stats:
                break
        if backend == "pty":
            if not pt.wait_seen():
                raise ToolFailure("pty master did not receive everything that was written")
            if bytes(pt.seen) != bytes(pt.log):
                raise ToolFailure("pty altered the byte stream (not in raw mode?)")
    finally:
        if backend != "tmux":
            pt.close()
    return mism, viol


def ddmin(ops, fails):
    """Delta debugging on the op list: a 1-minimal sub-sequence on which `fails` still holds."""
    n = 2
    while len(ops) >= 2:
        chunk = max(1, len(ops) // n)
        subsets = [ops[i:i + chunk] for i in range(0, len(ops), chunk)]
        reduced = False
        for i in range(len(subsets)):
            comp = [o for j, s in enumerate(subsets) if j != i for o in s]
            if comp and fails(comp):
                ops = comp
                n = max(n - 1, 2)
                reduced = True
                break
        if not reduced:
            if chunk == 1:
                break
            n = min(len(ops), n * 2)
    return ops


def minimise(ctx, case, key_of, key):
    """key_of(mism, viol) -> set of keys."""
    def fails(ops):
        c = dict(case, ops=ops)
        try:
            m, v = eval_case(ctx, c)
        except ToolFailure:
            return False
        return key in key_of(m, v)

    # cut after the failing step first
    ops = list(case["ops"])
    ops = ddmin(ops, fails)
    return dict(case, ops=ops)


def _report(ctx, case, mism, viol, minimise_it=True):
    for key, idx, detail in viol[:1]:
        c = case
        if minimise_it and len(case["ops"]) > 1:
            c = minimise(ctx, case, lambda m, v: {x[0] for x in v}, key)
            m2, v2 = eval_case(ctx, c)
            detail = next((x[2] for x in v2 if x[0] == key), detail)
        what = ("tracked cursor position differs from the terminal's cursor" if key.startswith("tracked")
                else "placeholder for a classic placement is not clipped/positioned against the true cursor")
        ctx.violation(what, c, detail, key=key)
    for what, idx, detail in mism[:1]:
        c = case
        if minimise_it and len(case["ops"]) > 1 and not viol:
            c = minimise(ctx, case, lambda m, v: {x[0] for x in m}, what)
            m2, _ = eval_case(ctx, c)
            detail = next((x[2] for x in m2 if x[0] == what), detail)
        ctx.mismatch(what, c, detail.get("impl") if isinstance(detail, dict) else detail,
                     detail.get("model", detail.get("spec")) if isinstance(detail, dict) else None)


def check_case(ctx: Ctx, case: dict):
    mism, viol = eval_case(ctx, case, stats=True)
    ctx.count(f"size:{case['w']}x{case['h']}")
    ctx.count("backend:" + case.get("backend", "pty"))
    ctx.count("calls", len(case["ops"]))
    _report(ctx, case, mism, viol)


# ---------------------------------------------------------------------------------------------
# generators
# ---------------------------------------------------------------------------------------------
def _vals(rng, w, h):
    return [0, 0, 1, 1, 2, 3, w - 1, w, w + 1, h - 1, h, h + 1, 100, 1000, rng.randrange(0, max(w, h) + 2)]


# what may sit in the input queue in front of a cursor position report: keys with and without modifiers (CSI 1;5A = Ctrl+Up),
# function keys, a focus event, a bracketed paste marker, a mouse report, text that looks like a report, a truncated CSI
NOISE = [b"\x1b[1;5A", b"\x1b[A", b"x", b"\x1b[1;2B\x1b[1;2B", b"\x1bOP", b"\x1b[15~", b"\x1b[I", b"\x1b[200~", b"\x1b[<0;3;4M", b"7;9", b"\x1b[3;4",
         b"\x1b[1;5A\x1b[1;3C"]

WRITE_VOCAB = [
    b"a", b"hello", b"\r", b"\n", b"\r\n", b"\x1bE", b"\x1bD", b"\x1bM", b"\x1b7", b"\x1b8", b"\x1b[s", b"\x1b[u",
    b"\x1b[0m", b"\x1b[38;5;7m", b"\x1b[H", b"\x1b[r", b"\x1b[2K", b"\xc3\xa9", b"\xe2\x82\xac", b"\x1b[A", b"\x1b[B",
    b"\x1b[C", b"\x1b[D", b"\x1b_Ga=d\x1b\\",
    # printable text whose cell count differs from its code point count (combining marks of the placeholder table,
    # which every conforming terminal — and Spec.Term — treats as zero-width)
    "e\u0305".encode(), "ab\u030d\u0305c".encode(), "x\u0305\u030d\u030e".encode(), "o\u033d\u0346k".encode(),
]


def gen_text(rng, w):
    """Printable text (no control characters) shorter than the line, with combining marks on some letters."""
    n = rng.randint(1, max(1, min(w - 1, 6)))
    out = ""
    for _ in range(n):
        out += rng.choice("abcxyz")
        for _ in range(rng.choice([0, 0, 1, 1, 2])):
            out += rng.choice("\u0305\u030d\u030e\u0310\u0312\u033d\u033e\u033f\u0346")
    return out.encode()


def gen_write(rng, w, h):
    parts = []
    for _ in range(rng.randint(1, 4)):
        r = rng.random()
        if r < 0.25:
            parts.append(b"x" * rng.choice([1, 2, w - 1, w, w + 1, 2 * w, max(1, w // 2)]) if w > 1 else b"x" * rng.randint(1, 3))
        elif r < 0.35:
            parts.append(b"\x1b[%d;%dH" % (rng.choice([1, 2, h, h + 1, rng.randint(1, h)]), rng.choice([1, 2, w, w + 1, rng.randint(1, w)])))
        elif r < 0.45:
            a, b = sorted([rng.randint(1, h), rng.randint(1, h)])
            parts.append(b"\x1b[%d;%dr" % (a, b))
        elif r < 0.5:
            parts.append(b"\x1b[%d%s" % (rng.choice([1, 2, w, h, 50]), rng.choice([b"A", b"B", b"C", b"D", b"G", b"d", b"S", b"T"])))
        else:
            parts.append(rng.choice(WRITE_VOCAB))
    return b"".join(p for p in parts if p)


def gen_put(rng, w, h, k, send=False):
    rows = rng.choice([1, 1, 2, 3, h - 1, h, h + 1, h + 3, rng.randint(1, max(1, min(h, 12)))])
    cols = rng.choice([1, 2, 3, w - 1, w, w + 1, rng.randint(1, max(1, min(w, 30)))])
    if rng.random() < 0.06:
        rows = rng.choice([0, -1, None])
    if rng.random() < 0.06:
        cols = rng.choice([0, -2, None])
    if rows is not None and rows > 40:
        rows = rng.choice([h + 1, 5]) if h < 40 else min(rows, 40)
    if cols is not None and rows is not None and cols * rows > 900:
        cols = max(1, 900 // max(rows, 1))
    op = {"op": "put", "id": 0x010000 * (k + 1) + 0x0203, "pid": rng.choice([None, 0, 5, 0x10203]),
          "rows": rows, "cols": cols, "C": rng.choice([None, False, True, True])}
    if rng.random() < 0.03:
        op["id"] = None
    if send:
        op["op"] = "send"
        op["kind"] = rng.choice(["put", "put", "transmit", "transmit", "transmit0", "delete"])
        op["virtual"] = rng.choice([None, False, True])
        op["force"] = rng.choice([None, True, True, False])
        op["rand"] = rng.randint(1, 2 ** 24 - 1)
        if op["id"] is None:
            op["id"] = 0x010000 * (k + 1) + 0x0203
        if op["rows"] is None or op["cols"] is None:
            op["rows"], op["cols"] = 2, 2
    return op


def gen_ph(rng, w, h, k):
    sc = rng.choice([0, 0, 0, 1, 3])
    sr = rng.choice([0, 0, 0, 1, 2])
    ec = sc + rng.choice([1, 2, 3, min(w, 20), rng.randint(1, max(1, min(w, 20)))])
    er = sr + rng.choice([1, 2, 3, rng.randint(1, max(1, min(h, 8)))])
    if rng.random() < 0.08:
        ec = sc  # invalid
    style = rng.random()
    op = {"op": "ph", "id": 0x010000 * (k + 1) + 0x0203 + (0x05000000 if rng.random() < 0.2 else 0), "pid": rng.choice([0, 0, 7]),
          "sc": sc, "sr": sr, "ec": ec, "er": er, "pos": None, "save": True, "lf": False,
          "mode": rng.choice(["default", "default", "complete", "minimal"]), "fmt": None}
    if style < 0.2:
        op["pos"] = [rng.choice([0, 1, w - 1, rng.randrange(w)]), rng.choice([0, 1, h - 1, rng.randrange(h)])]
        if rng.random() < 0.15:
            op["lf"] = True  # ValueError
    elif style < 0.4:
        op["save"] = False
    elif style < 0.6:
        op["lf"] = True
    if rng.random() < 0.1:
        op["fmt"] = rng.choice([b"\x1b[48;5;1m", b"\x1b[1m"]).hex()
    if op["id"] == 0:
        op["id"] = 1
    return op


def gen_op(rng, w, h, k):
    V = _vals(rng, w, h)
    r = rng.random()
    if r < 0.22:
        op = {"op": "mv"}
        names = rng.choice([["right"], ["left"], ["up"], ["down"], ["right", "down"], ["left", "up"], ["right", "up"],
                            ["left", "down"], [], ["up", "down"], ["left", "right"]])
        for n in names:
            v = rng.choice(V)
            if rng.random() < 0.1:
                v = -v
            op[n] = v
        return op
    if r < 0.37:
        op = {"op": "mva"}
        c = rng.random()
        if c < 0.3:
            op["col"] = rng.choice(V)
        elif c < 0.55:
            op["row"] = rng.choice(V)
        elif c < 0.8:
            op["col"] = rng.choice(V)
            op["row"] = rng.choice(V)
        elif c < 0.95:
            op["pos"] = [rng.choice(V), rng.choice(V)]
        elif c < 0.98:
            op["pos"] = [rng.choice(V), rng.choice(V)]
            op["col"] = 1
        return op
    if r < 0.43:
        return {"op": "reset", "rbs": rng.random() < 0.4}
    if r < 0.48:
        a, b = rng.choice(V), rng.choice(V)
        if rng.random() < 0.7 and h > 1:
            a, b = sorted([rng.randrange(h), rng.randrange(h)])
        return {"op": "margins", "top": a, "bottom": b}
    if r < 0.52:
        return {"op": rng.choice(["su", "sd"]), "n": rng.choice(V)}
    if r < 0.62:
        if rng.random() < 0.3:
            return {"op": "write", "hex": gen_text(rng, w).hex(), "str": True}
        o = {"op": rng.choice(["write", "write", "writecmd"]), "hex": gen_write(rng, w, h).hex()}
        if o["op"] == "write" and rng.random() < 0.5:
            try:
                bytes.fromhex(o["hex"]).decode("utf-8")
                o["str"] = True
            except UnicodeDecodeError:
                pass
        return o
    if r < 0.66:
        return {"op": rng.choice(["cl", "cs"])}
    if r < 0.72:
        return gen_ph(rng, w, h, k)
    if r < 0.84:
        return gen_put(rng, w, h, k)
    if r < 0.90:
        return gen_put(rng, w, h, k, send=True)
    return {"op": rng.choice(["getpos", "getposT", "getposT"])}


def structured(w, h):
    """Hand-written histories aimed at each mechanism (and each candidate defect)."""
    W = b"x" * w
    ID = 0x030203
    out = []

    def case(name, ops, **kw):
        out.append(dict({"w": w, "h": h, "name": name, "ops": ops}, **kw))

    mid_c, mid_r = min(3, w - 1), min(2, h - 1)
    case("abs-zero-col", [{"op": "reset", "rbs": False}, {"op": "mva", "col": mid_c, "row": mid_r}, {"op": "mva", "col": 0}])
    case("abs-zero-row", [{"op": "reset", "rbs": False}, {"op": "mva", "col": mid_c, "row": mid_r}, {"op": "mva", "row": 0}])
    case("abs-zero-pos", [{"op": "getpos"}, {"op": "mva", "pos": [mid_c, mid_r]}, {"op": "mva", "pos": [0, 0]}])
    case("abs-beyond", [{"op": "reset", "rbs": True}, {"op": "mva", "col": w}, {"op": "mva", "row": h}, {"op": "mva", "col": w + 5, "row": h + 5},
                        {"op": "mv", "left": 1, "up": 1}])
    case("abs-untracked", [{"op": "write", "hex": b"ab".hex()}, {"op": "mva", "col": 1}, {"op": "mva", "row": 1}, {"op": "mva", "col": 0, "row": 0}])
    case("rel-past-left-top", [{"op": "reset", "rbs": False}, {"op": "mva", "col": mid_c, "row": mid_r}, {"op": "mv", "left": 100},
                               {"op": "mv", "right": 1}, {"op": "mv", "up": 100}, {"op": "mv", "down": 1}])
    case("rel-past-right-bottom", [{"op": "reset", "rbs": False}, {"op": "mv", "right": w + 5}, {"op": "mv", "down": h + 5},
                                   {"op": "mv", "left": 1, "up": 1}, {"op": "mv", "right": 0, "down": 0}, {"op": "mv"}])
    case("rel-negative-args", [{"op": "reset", "rbs": False}, {"op": "mv", "right": -2}, {"op": "mv", "left": -2, "up": -1},
                               {"op": "mv", "down": -5}, {"op": "mv", "up": 1, "down": 1}, {"op": "mv", "left": 1, "right": 1}])
    case("placeholder-then-move", [{"op": "reset", "rbs": False},
                                   {"op": "ph", "id": ID, "pid": 0, "sc": 0, "sr": 0, "ec": min(2, w), "er": min(2, h), "pos": None,
                                    "save": True, "lf": False, "mode": "default", "fmt": None},
                                   {"op": "mv", "right": 1}, {"op": "put", "id": ID + 0x10000, "pid": 0, "rows": 1, "cols": 2, "C": None}])
    for style in (dict(save=False), dict(lf=True), dict(pos=[0, 0])):
        o = {"op": "ph", "id": ID, "pid": 3, "sc": 0, "sr": 0, "ec": min(3, w), "er": min(3, h), "pos": None, "save": True, "lf": False,
             "mode": "complete", "fmt": None}
        o.update(style)
        case("placeholder-style", [{"op": "reset", "rbs": False}, {"op": "mva", "col": mid_c, "row": mid_r}, o, {"op": "getposT"}])
    if h >= 4:
        case("margins-rel-down", [{"op": "reset", "rbs": False}, {"op": "margins", "top": 1, "bottom": h - 2}, {"op": "getpos"},
                                  {"op": "mv", "down": h}, {"op": "mv", "up": h}])
        case("margins-via-write", [{"op": "reset", "rbs": False}, {"op": "write", "hex": (b"\x1b[2;%dr" % (h - 1)).hex()}, {"op": "getpos"},
                                   {"op": "mv", "down": h}, {"op": "mv", "up": h}, {"op": "mv", "right": 1}])
        case("margins-put", [{"op": "reset", "rbs": False}, {"op": "margins", "top": 0, "bottom": h - 2}, {"op": "mva", "col": 0, "row": h - 2},
                             {"op": "put", "id": ID, "pid": 0, "rows": 2, "cols": 2, "C": None}, {"op": "getposT"}])
        case("margins-reset-clears", [{"op": "margins", "top": 1, "bottom": h - 2}, {"op": "reset", "rbs": True}, {"op": "mv", "down": h},
                                      {"op": "margins", "top": 1, "bottom": h - 2}, {"op": "reset", "rbs": False}, {"op": "mv", "down": h}])
    case("pending-wrap-query", [{"op": "reset", "rbs": False}, {"op": "write", "hex": W.hex()}, {"op": "getpos"}, {"op": "mv"},
                                {"op": "mv", "left": 1}])
    case("pending-wrap-abs-row", [{"op": "reset", "rbs": False}, {"op": "write", "hex": W.hex()}, {"op": "getpos"}, {"op": "mva", "row": min(1, h - 1)},
                                  {"op": "mv", "left": 1}])
    case("pending-wrap-moves", [{"op": "write", "hex": W.hex()}, {"op": "getposT"}, {"op": "mv", "down": 1}, {"op": "mv", "left": 2},
                                {"op": "write", "hex": W.hex()}, {"op": "getposT"}, {"op": "mv", "right": 1}, {"op": "mv", "up": 1}])
    case("pending-wrap-put", [{"op": "reset", "rbs": False}, {"op": "write", "hex": W.hex()},
                              {"op": "put", "id": ID, "pid": 0, "rows": 1, "cols": 1, "C": None}, {"op": "getposT"}])
    case("clear-keeps-position", [{"op": "reset", "rbs": False}, {"op": "mva", "col": mid_c, "row": mid_r}, {"op": "cs"}, {"op": "cl"},
                                  {"op": "mv", "left": 1}, {"op": "write", "hex": W.hex()}, {"op": "getpos"}, {"op": "cl"}, {"op": "cs"},
                                  {"op": "mv", "left": 1}])
    case("scroll-forgets", [{"op": "reset", "rbs": False}, {"op": "su", "n": 1}, {"op": "getposT"}, {"op": "sd", "n": 2}, {"op": "mv", "down": 1},
                            {"op": "su", "n": 0}, {"op": "getposT"}])
    case("reset-by-scrolling", [{"op": "write", "hex": b"abc\r\n".hex()}, {"op": "reset", "rbs": True}, {"op": "mv", "right": 2, "down": 1},
                                {"op": "reset", "rbs": False}, {"op": "mv", "right": 1}])
    for txt in ("a\u0305b", "e\u0305\u030d", "abc", "\u00e9t\u00e9"):
        if len(txt) < w:
            case("write-str-text", [{"op": "reset", "rbs": False}, {"op": "mva", "col": 0, "row": min(2, h - 1)},
                                    {"op": "write", "hex": txt.encode().hex(), "str": True}, {"op": "getposT"}, {"op": "mv", "right": 1},
                                    {"op": "getpos"}, {"op": "write", "hex": txt.encode().hex(), "str": True}, {"op": "mv", "down": 1}])
    # typed-ahead input in front of the reply to a position query: whatever the object makes of it (it may raise), it must not
    # claim a position the cursor is not at
    for nz in NOISE:
        case("typed-ahead-before-report", [{"op": "reset", "rbs": False}, {"op": "mva", "col": min(9, w - 1), "row": min(2, h - 1)},
                                           {"op": "write", "hex": b"ab".hex()}, {"op": "getpos"}, {"op": "mv", "right": 1}, {"op": "getposT"},
                                           {"op": "mv", "down": 1}], noise=[nz.hex(), ""])
    case("nel-after-write", [{"op": "write", "hex": b"ab\x1bE".hex()}, {"op": "getposT"}, {"op": "mv", "up": 1}, {"op": "writecmd", "hex": b"\x1bE".hex()},
                             {"op": "put", "id": ID, "pid": 0, "rows": 1, "cols": 1, "C": None}])
    # forced-placeholder puts: every branch
    k = 0
    for (x, y) in [(0, 0), (mid_c, mid_r), (w - 1, h - 1), (max(0, w - 2), max(0, h - 2)), (0, h - 1), (w - 1, 0)]:
        for (pc, pr) in [(1, 1), (2, 2), (w, 1), (w + 1, 2), (1, h), (2, h + 1), (w, h), (0, 1), (1, 0)]:
            for C in (None, True):
                if pc * pr > 1200 or pr > 45:
                    continue
                k += 1
                case("put-branches", [{"op": "reset", "rbs": False}, {"op": "mva", "col": x, "row": y},
                                      {"op": "put", "id": 0x010000 * (k % 200 + 1) + 0x0203, "pid": 0, "rows": pr, "cols": pc, "C": C},
                                      {"op": "getposT"}, {"op": "mv", "left": 1, "up": 1}])
    case("put-untracked", [{"op": "write", "hex": b"ab".hex()}, {"op": "put", "id": ID, "pid": 0, "rows": min(2, h), "cols": 2, "C": None},
                           {"op": "put", "id": ID + 0x10000, "pid": 9, "rows": 1, "cols": 1, "C": True}])
    case("put-missing-args", [{"op": "reset", "rbs": False}, {"op": "put", "id": ID, "pid": 0, "rows": None, "cols": 2, "C": None},
                              {"op": "put", "id": None, "pid": 0, "rows": 1, "cols": 2, "C": None}, {"op": "mv", "right": 1}])
    for kind in ("put", "transmit"):
        for virtual in (None, True):
            for force in (None, True, False):
                case("send-command", [{"op": "reset", "rbs": False}, {"op": "mva", "col": mid_c, "row": mid_r},
                                      {"op": "send", "kind": kind, "virtual": virtual, "force": force, "id": ID, "pid": None, "rand": 4242,
                                       "rows": min(2, h), "cols": 2, "C": None}, {"op": "mv", "left": 1}], force=(force is None and virtual is None))
    case("send-other", [{"op": "reset", "rbs": False}, {"op": "send", "kind": "transmit0", "virtual": None, "force": True, "id": ID, "pid": None,
                                                        "rows": 1, "cols": 1, "C": None},
                        {"op": "send", "kind": "delete", "virtual": None, "force": True, "id": ID, "pid": None, "rows": 1, "cols": 1, "C": None},
                        {"op": "mv", "right": 1}])
    return out


def error_calls(w, h, ID=0x050203):
    """Every argument-error path of the public calls, each as (label, op); every one of them must raise ValueError.
    A conflicting pair on one axis comes with the OTHER axis absent / given either way / conflicting as well / zero, and with
    zero and negative values in the pair itself; `pos` comes with col, row and both; a put comes without rows / cols / both /
    image id (alone and through send_command, where the graphics command itself is written before the rejection)."""
    E = []
    pairs = [(1, 1), (2, 3), (0, 0), (3, 0), (0, 2), (-1, 1)]
    for i, (a, b) in enumerate(pairs):
        for j, other in enumerate([{}, {"right": 2}, {"left": 1}, {"left": 1, "right": 2}, {"right": 0}, {"left": -1}]):
            if (i + j) % 2 and i >= 2 and j >= 1:
                continue
            E.append(("mv:up+down" + ("+" + "+".join(sorted(other)) if other else ""), dict({"op": "mv", "up": a, "down": b}, **other)))
        for j, other in enumerate([{}, {"down": 3}, {"up": 1}, {"up": 2, "down": 1}, {"down": 0}, {"up": -2}]):
            if (i + j) % 2 and i >= 2 and j >= 1:
                continue
            E.append(("mv:left+right" + ("+" + "+".join(sorted(other)) if other else ""), dict({"op": "mv", "left": a, "right": b}, **other)))
    c1, r1 = min(1, w - 1), min(1, h - 1)
    for pos in ([0, 0], [c1, r1], [w - 1, h - 1]):
        E.append(("mva:pos+col", {"op": "mva", "pos": pos, "col": c1}))
        E.append(("mva:pos+row", {"op": "mva", "pos": pos, "row": 0}))
        E.append(("mva:pos+col+row", {"op": "mva", "pos": pos, "col": 0, "row": r1}))
    for C in (None, True):
        E.append(("put:no-rows", {"op": "put", "id": ID, "pid": 0, "rows": None, "cols": 2, "C": C}))
        E.append(("put:no-cols", {"op": "put", "id": ID, "pid": 0, "rows": 2, "cols": None, "C": C}))
        E.append(("put:no-rows-no-cols", {"op": "put", "id": ID, "pid": 0, "rows": None, "cols": None, "C": C}))
        E.append(("put:no-image-id", {"op": "put", "id": None, "pid": 0, "rows": 1, "cols": 2, "C": C}))
    for kind in ("put", "transmit"):
        for rows, cols in ((None, 2), (2, None)):
            E.append((f"send-{kind}:no-" + ("rows" if rows is None else "cols"),
                      {"op": "send", "kind": kind, "virtual": None, "force": True, "id": ID, "pid": None, "rand": 4242, "rows": rows, "cols": cols,
                       "C": None}))
    ph = {"op": "ph", "id": ID, "pid": 0, "sc": 0, "sr": 0, "ec": min(2, w), "er": min(2, h), "pos": None, "save": True, "lf": False,
          "mode": "default", "fmt": None}
    E.append(("ph:pos+linefeeds", dict(ph, pos=[c1, r1], lf=True)))
    E.append(("ph:pos+linefeeds+formatting", dict(ph, pos=[0, 0], lf=True, fmt=b"\x1b[1m".hex())))
    for style in (dict(), dict(save=False), dict(lf=True), dict(pos=[c1, r1])):
        E.append(("ph:empty-rectangle", dict(ph, ec=0, **style)))
    return E


def structured_errors(w, h):
    """A call that RAISES must leave the object right about the terminal: whatever it wrote before it raised counts as written.
    Histories on one object: the position is made known, then groups of [erroring call, ordinary relative move, re-anchoring]
    (each step is judged), ended by calls that USE the tracked position (a forced-placeholder put clipped against it, a query
    of the tracked position, one more relative move).  Three object states: position known; position known with the
    scroll-margin flag raised (write(), then a query); position unknown."""
    out = []
    mid_c, mid_r = min(3, w - 1), min(2, h - 1)
    E = error_calls(w, h)
    follow = [{"op": "mv", "right": 1, "down": 1}, {"op": "mv", "left": 1, "up": 1}, {"op": "mv", "right": 1}, {"op": "mv", "down": 1},
              {"op": "getposT"}, {"op": "mv", "up": 1}]
    tail = [{"op": "put", "id": 0x060203, "pid": 0, "rows": 2, "cols": 2, "C": None}, {"op": "getposT"}, {"op": "mv", "left": 1, "up": 1}]
    anchor = {"op": "mva", "col": mid_c, "row": mid_r}
    per = 6
    for g in range(0, len(E), per):
        ops = [{"op": "reset", "rbs": False}, anchor]
        for k, (label, e) in enumerate(E[g:g + per]):
            ops += [e, follow[(g + k) % len(follow)], anchor]
        out.append({"w": w, "h": h, "name": "error-paths", "ops": ops + tail})
    # the scroll-margin flag raised (write), the position known again (query): vertical moves then forget the position
    mv = [x for x in E if x[0].startswith(("mv:", "mva:"))]
    for g in range(0, len(mv), 2 * per):
        ops = [{"op": "reset", "rbs": False}, {"op": "write", "hex": b"ab".hex()}, {"op": "getpos"}]
        for k, (label, e) in enumerate(mv[g:g + 2 * per:2]):
            ops += [e, follow[(2 + 2 * k) % len(follow)], {"op": "getpos"}]
        out.append({"w": w, "h": h, "name": "error-paths-margin-flag", "ops": ops + tail})
    # position unknown: nothing is claimed, but the bytes of an erroring call are still compared with the model
    ops = [{"op": "write", "hex": b"ab".hex()}]
    for k, (label, e) in enumerate(E[1::7]):
        ops += [e, follow[k % 4]]
    out.append({"w": w, "h": h, "name": "error-paths-untracked", "ops": ops + [{"op": "getposT"}, E[3][1], {"op": "mv", "right": 1}]})
    return out


def random_errors(rng):
    """a random history in which about every third call is one of the erroring calls (random arguments)"""
    w, h = rng.choice(SIZES)
    E = error_calls(w, h)
    V = [0, 1, 1, 2, 3, h - 1, h, w, -1, -2]
    ops = []
    if rng.random() < 0.7:
        ops.append({"op": "reset", "rbs": rng.random() < 0.3})
    for k in range(rng.choice([4, 8, 16, 30])):
        r = rng.random()
        if r < 0.3:
            e = dict(rng.choice(E)[1])
            if e["op"] == "mv":
                for n in ("right", "down", "left", "up"):
                    if n in e and rng.random() < 0.7:
                        e[n] = rng.choice(V)
            ops.append(e)
        elif r < 0.45:
            ops.append(rng.choice([{"op": "mva", "col": rng.randrange(w), "row": rng.randrange(h)}, {"op": "getpos"}, {"op": "getposT"}]))
        else:
            ops.append(gen_op(rng, w, h, k))
    case = {"w": w, "h": h, "name": "random-errors", "force": rng.random() < 0.3, "ops": ops[:60]}
    if rng.random() < 0.2:
        case["buffered"] = True
    return case


RESIZE_PAIRS = [((20, 10), (40, 20)), ((40, 20), (20, 10)), ((80, 24), (10, 5)), ((10, 5), (80, 24)), ((2, 2), (1, 1)), ((1, 1), (3, 300)),
                ((300, 3), (3, 300)), ((3, 300), (300, 3)), ((80, 24), (80, 24)), ((80, 24), (100, 24)), ((80, 24), (80, 30)),
                ((80, 24), (60, 30))]


def structured_resize():
    """The window is resized between calls: `resize` = TIOCSWINSZ to the new size, then reset() (RIS).  Every use the
    object makes of the terminal size (clamping of tracked moves on all four sides, the pending-wrap test of a queried
    position, clipping / scrolling of a forced-placeholder put, reset by scrolling) must follow the CURRENT size."""
    out = []
    ID = 0x040203
    R0 = {"op": "reset", "rbs": False}
    for (w, h), (w2, h2) in RESIZE_PAIRS:
        rz = {"op": "resize", "w": w2, "h": h2}
        back = {"op": "resize", "w": w, "h": h}
        mw, mh = max(w, w2), max(h, h2)
        nw, nh = min(w, w2), min(h, h2)

        def case(name, ops, **kw):
            out.append(dict({"w": w, "h": h, "name": name, "ops": ops}, **kw))

        case("resize-abs", [R0, {"op": "mva", "col": w - 1, "row": h - 1}, rz, {"op": "mva", "col": w2 - 1, "row": h2 - 1},
                            {"op": "mv", "left": 1, "up": 1}, {"op": "mva", "col": mw + 3, "row": mh + 3}, {"op": "mv", "left": 1}, {"op": "getposT"}])
        case("resize-rel", [R0, {"op": "mv", "right": w + 5, "down": h + 5}, rz, {"op": "mv", "right": mw + 5}, {"op": "mv", "down": mh + 5},
                            {"op": "mv", "left": 1, "up": 1}, {"op": "getposT"}])
        case("resize-old-corner", [R0, {"op": "mv", "right": 1}, rz, {"op": "mva", "col": w - 1, "row": h - 1}, {"op": "mv", "right": 1},
                                   {"op": "mv", "down": 1}, {"op": "getposT"}, {"op": "mv", "left": 1}])
        case("resize-first-use", [rz, {"op": "mva", "col": w2 - 1, "row": h2 - 1}, {"op": "mv", "right": 1, "down": 1}, {"op": "mv", "left": 1}])
        case("resize-twice", [R0, {"op": "mva", "col": w - 1, "row": h - 1}, rz, {"op": "mva", "col": w2 - 1, "row": h2 - 1}, back,
                              {"op": "mva", "col": mw, "row": mh}, {"op": "mv", "left": 1, "up": 1}, {"op": "getposT"}])
        case("resize-pending-wrap", [R0, {"op": "write", "hex": (b"x" * w).hex()}, {"op": "getpos"}, rz, {"op": "write", "hex": (b"x" * w2).hex()},
                                     {"op": "getpos"}, {"op": "mv"}, {"op": "mv", "left": 1}, {"op": "write", "hex": (b"x" * nw).hex()},
                                     {"op": "getpos"}, {"op": "mv", "left": 1}])
        case("resize-reset-by-scrolling", [R0, {"op": "mv", "down": 1}, rz, {"op": "write", "hex": b"abc\r\n".hex()}, {"op": "reset", "rbs": True},
                                           {"op": "mv", "right": 2, "down": 1}, {"op": "getposT"}])
        k = 0
        for C in (None, True):
            for (x, y, pc, pr) in [(max(0, w2 - 2), max(0, h2 - 2), 4, 3), (max(0, nw - 1), max(0, nh - 1), 3, 2), (0, 0, mw, 1),
                                   (0, 0, 2, min(mh, 30)), (max(0, w - 1), max(0, h - 1), 2, 2)]:
                k += 1
                case("resize-put", [R0, {"op": "mva", "col": w - 1, "row": h - 1}, rz, {"op": "mva", "col": x, "row": y},
                                    {"op": "put", "id": ID + 0x10000 * k, "pid": 0, "rows": pr, "cols": pc, "C": C}, {"op": "getposT"},
                                    {"op": "mv", "left": 1, "up": 1}])
        case("resize-send", [R0, {"op": "mv", "right": w + 1, "down": h + 1}, rz, {"op": "mva", "col": max(0, w2 - 2), "row": max(0, h2 - 1)},
                             {"op": "send", "kind": "put", "virtual": None, "force": True, "id": ID, "pid": None, "rand": 4242, "rows": 2, "cols": 3,
                              "C": None}, {"op": "getposT"}], force=True)
        # the size changes and the application does NOT reset: the next absolute move (both coordinates), and every move
        # after it, must be clamped by the size in force now, not by the one seen at an earlier call
        wz = {"op": "winch", "w": w2, "h": h2}
        wback = {"op": "winch", "w": w, "h": h}
        case("winch-abs", [R0, {"op": "mv", "right": 1, "down": 1}, wz, {"op": "mva", "col": mw + 3, "row": mh + 3}, {"op": "getposT"},
                           {"op": "mv", "left": 1, "up": 1}, {"op": "mva", "col": max(0, nw - 1), "row": max(0, nh - 1)}, {"op": "mv", "right": 2, "down": 2}])
        case("winch-rel", [R0, {"op": "mva", "col": w - 1, "row": h - 1}, wz, {"op": "mva", "col": 0, "row": 0}, {"op": "mv", "right": mw + 5},
                           {"op": "mv", "down": mh + 5}, {"op": "getposT"}, {"op": "mv", "left": 1, "up": 1}])
        case("winch-twice", [R0, {"op": "mv", "right": w + 2}, wz, {"op": "mva", "col": w2 - 1, "row": h2 - 1}, {"op": "mv", "right": 1, "down": 1}, wback,
                             {"op": "mva", "pos": [mw, mh]}, {"op": "mv", "left": 1}, {"op": "getposT"}])
        case("winch-put", [R0, {"op": "mv", "right": 1}, wz, {"op": "mva", "col": max(0, w2 - 2), "row": max(0, h2 - 2)},
                           {"op": "put", "id": ID + 0x770000, "pid": 0, "rows": 3, "cols": 4, "C": None}, {"op": "getposT"}], force=True)
        case("resize-buffered", [R0, {"op": "mv", "right": 1}, {"op": "write", "hex": b"ab".hex()}, rz, {"op": "mva", "col": w2 - 1, "row": h2 - 1}, {"op": "getpos"},
                                 {"op": "mv", "right": 1, "down": 1}], buffered=True)
    return out


RESIZE_SIZES = SIZES + [(20, 10), (40, 20), (5, 3), (81, 25), (79, 23)]


def random_resize(rng):
    """a random history in 2..5 segments, the window resized (and reset) between them; ops drawn for the size in force"""
    w, h = rng.choice(RESIZE_SIZES)
    case = {"w": w, "h": h, "name": "random-resize", "force": rng.random() < 0.3}
    ops = []
    if rng.random() < 0.6:
        ops.append({"op": "reset", "rbs": rng.random() < 0.3})
    k = 0
    nseg = rng.choice([2, 2, 3, 4, 5])
    for seg in range(nseg):
        for _ in range(rng.choice([1, 2, 4, 8, 12])):
            ops.append(gen_op(rng, w, h, k))
            k += 1
        if seg < nseg - 1:
            w, h = rng.choice(RESIZE_SIZES) if rng.random() < 0.7 else (max(1, w + rng.choice([-1, 1, 0])), max(1, h + rng.choice([-1, 1, 0])))
            ops.append({"op": "resize", "w": w, "h": h})
    case["ops"] = ops[:60]
    if rng.random() < 0.2:
        case["buffered"] = True
    return case


def cases(ctx: Ctx):
    rng = ctx.rng
    # the histories with a resized window draw from their own generator (a function of VERIF_SEED), so that the histories
    # on a fixed size are the same as before these were added
    import random as _random
    rrng = _random.Random(ctx.seed * 1000003 + 16)
    erng = _random.Random(ctx.seed * 1000003 + 1616)
    for (w, h) in SIZES:
        for c in structured(w, h):
            yield c
        for c in structured_errors(w, h):
            yield c
    for c in structured_resize():
        yield c
    # buffered display stream distinct from the command stream: unflushed output must not be overtaken by a query
    for (w, h) in [(80, 24), (10, 5)]:
        for pre in ([{"op": "write", "hex": b"abc".hex()}],
                    [{"op": "ph", "id": 7, "pid": 0, "sc": 0, "sr": 0, "ec": 3, "er": 2, "mode": "default", "save": True, "lf": False}],
                    [{"op": "write", "hex": b"ab\r\ncd".hex()}]):
            yield {"w": w, "h": h, "name": "buffered-query", "force": False, "buffered": True,
                   "ops": [{"op": "reset", "rbs": False}] + list(pre) + [{"op": "getpos"}, {"op": "mv", "right": 1}]}
    n_random = 0
    while True:
        n_random += 1
        if n_random % 4 == 0:
            yield random_resize(rrng)
        if n_random % 5 == 0:
            yield random_errors(erng)
        if n_random % 7 == 0:
            # typed-ahead input in front of the replies (own generator: the other histories stay what they were)
            nw, nh = erng.choice(SIZES)
            nops = [{"op": "reset", "rbs": False}] + [gen_op(erng, nw, nh, k) if erng.random() < 0.6 else {"op": erng.choice(["getpos", "getposT", "mv"])}
                                                       for k in range(erng.choice([4, 8, 16]))]
            yield {"w": nw, "h": nh, "name": "random-typed-ahead", "force": erng.random() < 0.3, "ops": nops,
                   "noise": [erng.choice(NOISE).hex() if erng.random() < 0.7 else "" for _ in range(3)]}
        w, h = rng.choice(SIZES)
        n = rng.choice([3, 6, 12, 25, 40, 60])
        ops = [gen_op(rng, w, h, k) for k in range(n)]
        if rng.random() < 0.6:
            ops.insert(0, {"op": "reset", "rbs": rng.random() < 0.3})
        yield {"w": w, "h": h, "name": "random", "force": rng.random() < 0.3, "ops": ops[:60],
               **({"buffered": True} if rng.random() < 0.3 else {})}


def run(ctx: Ctx):
    ctx.rule = ("a case is a history of <= 60 public calls on one terminal size from {1x1,2x2,80x24,300x3,3x300,10x5}: structured histories "
                "per mechanism (absolute moves to 0 / beyond the edges, relative moves past every edge and with negative/zero/conflicting "
                "arguments, placeholder styles, margins set by set_margins and by write, pending-wrap queries, clears, scrolls, both "
                "resets, every branch of the forced-placeholder put at 6 cursor positions x 9 sizes x C, send_command variants), histories of "
                "RAISING calls on one object (every argument-error path: up+down / left+right with 6 value pairs incl. zero and negative x the "
                "other axis absent, given either way, conflicting too, zero; pos with col / row / both; put without rows / cols / both / image "
                "id, alone and through send_command; print_placeholder with pos+line feeds or an empty rectangle) each followed by an ordinary "
                "move and a re-anchoring, in three object states (position known, known with the scroll-margin flag raised, unknown), ended by "
                "a forced-placeholder put and a tracked query; histories "
                "in which the window is RESIZED between calls (op resize = TIOCSWINSZ then reset(): 12 size pairs grow/shrink/mixed/same x "
                "absolute and relative moves to the old and new corners, first use of the size after the resize, resizing back, "
                "pending-wrap queries, reset by scrolling, forced-placeholder puts clipped at the new edges, buffered display), followed by "
                "random histories (every 4th with 1..4 resizes between segments, every 5th with about a third of its calls raising, every 7th with typed-ahead input in front of the position reports); typed-ahead input (12 kinds: modified keys, function keys, focus / paste / mouse reports, report look-alikes) in front of a queried report; window size changes WITHOUT reset followed by an absolute move; distinct = canonical JSON; non-trivial = the history leaves the position known after at least one call")
    budget = 105 if ctx.quick else 330
    if CORPUS.is_dir():
        for f in sorted(CORPUS.glob("*.json")):
            c = json.load(open(f))
            check_case(ctx, c)
            ctx.case(c)
            ctx.count("corpus")
    seen_keys = set()
    try:
        for c in cases(ctx):
            if ctx.elapsed() > budget:
                break
            n_v = len(ctx.violations)
            mism, viol = eval_case(ctx, c, stats=True)
            ctx.count(f"size:{c['w']}x{c['h']}")
            ctx.count("backend:pty")
            ctx.count("kind:" + c.get("name", "?"))
            ctx.count("calls", len(c["ops"]))
            keys = {v[0] for v in viol} | {m[0] for m in mism}
            fresh = keys - seen_keys
            seen_keys |= keys
            # minimise only the first occurrence of each failure shape (delta debugging is the expensive part)
            if fresh:
                _report(ctx, c, [m for m in mism if m[0] in fresh], [v for v in viol if v[0] in fresh])
            else:
                for key, idx, detail in viol[:1]:
                    ctx.count("F-repeat:" + key)
                for what, idx, detail in mism[:1]:
                    ctx.count("K-repeat:" + what)
            ctx.case(c, nontrivial=True)
        if not ctx.quick:
            # the same histories against a real tmux pane
            tb = 700
            rng = ctx.rng
            gens = []
            for (w, h) in SIZES:
                gens += structured(w, h)
            rng.shuffle(gens)

            def tmux_cases():
                # (histories with a resized window run on the pty backend only)
                for c in gens:
                    if not c.get("noise"):          # typed-ahead input can only be injected on the pty backend
                        yield c
                for c in cases(ctx):
                    if c.get("name") == "random" and not c.get("noise"):
                        yield c

            for c in tmux_cases():
                if ctx.elapsed() > tb:
                    break
                c = dict(c, backend="tmux")
                mism, viol = eval_case(ctx, c, stats=True)
                ctx.count(f"size:{c['w']}x{c['h']}")
                ctx.count("backend:tmux")
                ctx.count("calls", len(c["ops"]))
                keys = {v[0] for v in viol} | {m[0] for m in mism}
                fresh = keys - seen_keys
                seen_keys |= keys
                if fresh:
                    _report(ctx, c, [m for m in mism if m[0] in fresh], [v for v in viol if v[0] in fresh])
                ctx.case(c, nontrivial=True)
    finally:
        close_tmux()
    ctx.assumptions += [
        "terminal = Tup.Spec.Term with tmux-like parameters (cubFromW, pending wrap reported as column w+1); strict equality of positions",
        "write()/writecmd() arguments are drawn from complete control functions and text (no unterminated sequences, no DSR, BS, HT)",
        "absolute coordinates, scroll counts and margins are non-negative (negative ones make the code emit malformed CSI)",
        "replies to CSI 6 n always arrive (timeouts are not exercised)",
        "placement check (cells) is skipped while scroll margins are set",
        "a window resize is always followed by reset() (RIS): from there the terminal is a fresh one of the new size (reflow of "
        "the old screen content on resize is not modelled); positions are judged on the bytes written since that reset",
    ]
