"""C11 — tmux pass-through wrapping is exactly invertible; tmux is auto-detected only from TMUX + TERM.

K: GraphicsTerminal.get_graphics_command_template / to_bytes / send with n layers, GraphicsTerminal.detect_tmux and the
   auto-detection in TupimageTerminal.__init__ (hosted in a pty child, it opens /dev/tty)  vs  Tup.Model.Command.
F: Tup.Spec.TmuxUnwrap on the implementation's bytes: every one of the n wrappers is `ESC P tmux; body ESC \\` with all
   ESCs of the body paired, and unwrapping n times gives byte for byte what the implementation emits with 0 layers;
   detection compared with the rule of the statement (TMUX non-empty and TERM contains "screen" or "tmux").
"""
from __future__ import annotations

import io
import os
import pty
import select
import shutil
import subprocess
import tempfile

from .common import Ctx, hx
from . import c06
from .c05 import real_template, Rec, make_data
from .c06 import build, tokens, data_bytes, gcmod

DRIVERS = ["drv_cmd"]
EVIDENCE = dict(
    level="proof",
    trusted=[
        "Spec.TmuxUnwrap is a transcription of tmux's pass-through convention (validated against tmux 3.3a in the thorough tier)",
        "os.environ / str `in` (mirrored by hasSub; compared on the environment table)",
        "the pty layer hosting TupimageTerminal (it opens /dev/tty)",
    ],
)

ENV_KEYS = ["TMUX", "TERM"]
# other clone_with keyword arguments that leave the commands used here as they are (force_placeholders=True rewrites placements)
CLONE_ARGS = [{"force_placeholders": False}, {"force_direct_transmission": False}, {"force_direct_transmission": True},
              {"force_placeholders": False, "force_direct_transmission": True}]


def _optb(v):
    return "_" if v is None else hx(v.encode())


# variables that must NOT matter to the detection (what a program started from a tmux / screen pane, or a terminal window started
# from such a pane, finds in its environment besides TMUX and TERM); a case names some of them with a value or None (= unset)
OTHER_VARS = ["TERM_PROGRAM", "TERM_PROGRAM_VERSION", "TMUX_PANE", "STY", "TMUX_TMPDIR", "COLORTERM", "LC_TERMINAL", "TERMINFO",
              "TERMCAP", "WINDOW", "TMUX_PLUGIN_MANAGER_PATH", "TERM_SESSION_ID"]


class _env:
    def __init__(self, tmux, term, other=None):
        self.set = {"TMUX": tmux, "TERM": term}
        if other is not None:
            self.set.update({k: None for k in OTHER_VARS})
            self.set.update(other)

    def __enter__(self):
        self.old = {k: os.environ.get(k) for k in self.set}
        for k, v in self.set.items():
            if v is None:
                os.environ.pop(k, None)
            else:
                os.environ[k] = v

    def __exit__(self, *a):
        for k, v in self.old.items():
            if v is None:
                os.environ.pop(k, None)
            else:
                os.environ[k] = v


def site_terminal(tmux, term, cur, other=None):
    """GraphicsTerminal.detect_tmux with the given environment; returns the resulting num_tmux_layers."""
    from tupimage import graphics_terminal as gt
    t = gt.GraphicsTerminal(out_command=io.BytesIO(), out_display=io.BytesIO(), in_response=io.BytesIO(), in_userinput=io.BytesIO(),
                            num_tmux_layers=cur)
    with _env(tmux, term, other):
        t.detect_tmux()
    return t.num_tmux_layers


def site_config_seq(settings):
    """SEVERAL TupimageTerminal(num_tmux_layers='auto') objects made one after another in ONE pty child, the environment
    (TMUX, TERM) changed before each.  Returns the list of GraphicsTerminal.num_tmux_layers, or an error string."""
    r, w = os.pipe()
    td = tempfile.mkdtemp(prefix="vc11s")
    pid, master = pty.fork()
    if pid == 0:
        res = "child-failed"
        try:
            os.close(r)
            for k in list(os.environ):
                if k.startswith("TUPIMAGE") or k in ("SSH_CLIENT", "SSH_TTY", "SSH_CONNECTION"):
                    del os.environ[k]
            os.environ["HOME"] = td
            os.environ["XDG_CONFIG_HOME"] = td
            from tupimage import tupimage_terminal as tt
            out = []
            for j, (tmux, term) in enumerate(settings):
                for k, v in (("TMUX", tmux), ("TERM", term)):
                    if v is None:
                        os.environ.pop(k, None)
                    else:
                        os.environ[k] = v
                t = tt.TupimageTerminal(config="DEFAULT", id_database=os.path.join(td, f"ids{j}.db"), terminal_name="vt", terminal_id="vt-1",
                                        session_id="s-1", out_display=io.BytesIO())
                out.append(str(t.term.num_tmux_layers))
            res = "ok " + " ".join(out)
        except BaseException as e:  # noqa
            res = "child-exception " + repr(e).replace("\n", " ")[:300]
        try:
            os.write(w, res.encode())
        finally:
            os._exit(0)
    os.close(w)
    buf = b""
    try:
        while True:
            rl, _, _ = select.select([r, master], [], [], 60)
            if not rl:
                break
            if master in rl:
                try:
                    os.read(master, 4096)
                except OSError:
                    pass
            if r in rl:
                chunk = os.read(r, 65536)
                if not chunk:
                    break
                buf += chunk
    finally:
        os.close(r)
        try:
            os.close(master)
        except OSError:
            pass
        os.waitpid(pid, 0)
        shutil.rmtree(td, ignore_errors=True)
    return buf.decode("utf-8", "replace")


def site_config(tmux, term, cfg, other=None):
    """TupimageTerminal(num_tmux_layers=cfg) constructed in a pty child (it opens /dev/tty).
    Returns (config value after construction, GraphicsTerminal.num_tmux_layers, template hex) or an error string."""
    r, w = os.pipe()
    td = tempfile.mkdtemp(prefix="vc11")
    pid, master = pty.fork()
    if pid == 0:
        res = "child-failed"
        try:
            os.close(r)
            for k in list(os.environ):
                if k.startswith("TUPIMAGE") or k in ("SSH_CLIENT", "SSH_TTY", "SSH_CONNECTION"):
                    del os.environ[k]
            os.environ["HOME"] = td
            os.environ["XDG_CONFIG_HOME"] = td
            others = [] if other is None else [(k, other.get(k)) for k in sorted(set(OTHER_VARS) | set(other))]
            for k, v in [("TMUX", tmux), ("TERM", term)] + others:
                if v is None:
                    os.environ.pop(k, None)
                else:
                    os.environ[k] = v
            from tupimage import tupimage_terminal as tt
            kw = {}
            if cfg != "auto":
                kw["num_tmux_layers"] = cfg
            # the name/id overrides keep detect_terminal from depending on a running tmux server
            t = tt.TupimageTerminal(config="DEFAULT", id_database=os.path.join(td, "ids.db"), terminal_name="vt", terminal_id="vt-1",
                                    session_id="s-1", out_display=io.BytesIO(), **kw)
            res = f"{t.num_tmux_layers} {t.term.num_tmux_layers} {t.term.get_graphics_command_template().hex()}"
        except BaseException as e:  # noqa
            res = "child-exception " + repr(e).replace("\n", " ")[:300]
        try:
            os.write(w, res.encode())
        finally:
            os._exit(0)
    os.close(w)
    buf = b""
    try:
        while True:
            rl, _, _ = select.select([r, master], [], [], 30)
            if not rl:
                break
            if master in rl:
                try:
                    if not os.read(master, 4096):
                        pass
                except OSError:
                    pass
            if r in rl:
                chunk = os.read(r, 65536)
                if not chunk:
                    break
                buf += chunk
    finally:
        os.close(r)
        try:
            os.close(master)
        except OSError:
            pass
        try:
            os.waitpid(pid, 0)
        except ChildProcessError:
            pass
        shutil.rmtree(td, ignore_errors=True)
    return buf.decode("utf-8", "replace")


def check_case(ctx: Ctx, c: dict):
    gc = gcmod()
    d = ctx.driver("drv_cmd")
    k = c["k"]
    ctx.count("kind:" + k)
    if k == "wrap":
        desc = c["cmd"]
        n = c["layers"]
        ctx.count("layers:%d" % n)
        ctx.count("type:" + desc["type"])
        data = data_bytes(desc.get("data"))
        tok = tokens(desc, data)
        tn, t0 = real_template(n), real_template(0)
        ctx.eq("template", {"k": "template", "layers": n}, hx(tn), d.ask(f"template {n}"))
        obj = build(desc)
        try:
            en, e0 = obj.to_bytes(tn), obj.to_bytes(t0)
        except Exception as e:  # the model has no error path here
            ctx.mismatch("to_bytes raised", c, repr(e)[:200], "no error")
            return
        ctx.eq("to_bytes with n layers", c, hx(en), d.ask(f"tobytes {n} {tok}"))
        _check_pair(ctx, d, c, n, en, e0, "to_bytes")
    elif k == "wrapsend":
        # chunked transmission: every chunk (callback object) emitted through n layers must unwrap to the same chunk
        # emitted through 0 layers; with limits shifted by the template growth the two streams correspond chunk by chunk
        desc = c["cmd"]
        n = c["layers"]
        ctx.count("layers:%d" % n)
        data = data_bytes(desc.get("data"))
        tok = tokens(desc, data)
        tn, t0 = real_template(n), real_template(0)
        dobj, cleanup = make_data(c.get("stream", "bytes"), data)
        obj = build(desc, data_override=dobj)
        mx0 = c["max"]
        mxn = mx0 + (len(tn) - len(t0))
        outn, out0 = Rec(), Rec()
        chunks = []
        rn = r0 = False
        try:
            try:
                obj.send(outn, tn, max_size=mxn, callback=lambda x: chunks.append(x))
            except ValueError:
                rn = True
            except Exception as e:
                rn = True
                ctx.mismatch("send raised something other than ValueError", c, repr(e)[:200], "ValueError or success")
            try:
                obj.send(out0, t0, max_size=mx0)
            except ValueError:
                r0 = True
            except Exception:
                r0 = True
        finally:
            if cleanup:
                cleanup[0].close()
                os.unlink(cleanup[1])
        model = d.ask(f"send {n} {mxn} {tok}")
        ctx.eq("send raises", c, rn, model == "err")
        if model != "err" and not rn:
            ctx.eq("command stream with n layers", c, hx(outn.getvalue()), "".join(model.split(" ")))
        if rn != r0:
            ctx.violation("the same payload budget is accepted with one template and rejected with the other", c,
                          {"n_layers_raised": rn, "0_layers_raised": r0}, key="c11-budget-differs")
        ctx.count("chunks:%s" % (len(chunks) if len(chunks) < 4 else "4+"))
        ctx.last_nontrivial = len(chunks) >= 2 and n >= 1
        if not rn:
            if len(outn.writes) != len(chunks):
                ctx.mismatch("one write per chunk", c, len(outn.writes), len(chunks))
            sp = d.ask(f"spec_splitstream {hx(outn.getvalue())}")
            escs_n = [] if sp in ("empty",) else None if sp in ("none", "bad") else [bytes.fromhex(x) for x in sp.split(" ")]
            sp0 = d.ask(f"spec_splitstream {hx(out0.getvalue())}")
            escs_0 = [] if sp0 in ("empty",) else None if sp0 in ("none", "bad") else [bytes.fromhex(x) for x in sp0.split(" ")]
            if escs_n is None or escs_0 is None or len(escs_n) != len(escs_0):
                ctx.violation("streams with n and with 0 layers do not consist of the same number of escape codes", c,
                              {"n": None if escs_n is None else len(escs_n), "0": None if escs_0 is None else len(escs_0)},
                              key="c11-stream-shape")
            else:
                for i, (en, e0) in enumerate(zip(escs_n, escs_0)):
                    if not _check_pair(ctx, d, dict(c, chunk=i), n, en, e0, "send"):
                        break
    elif k == "reconf":
        # the terminal object's layer count changes between commands (assignment, detect_tmux(), clone_with):
        # every command must be wrapped with the count configured at the moment it is sent
        from tupimage import graphics_terminal as gt
        # optional features of the terminal object that share the send path (the same on both terminals; only the layer
        # count differs): shell-script logging, forced placeholders, forced direct transmission
        feat = c.get("feat") or {}
        for fk in feat:
            if fk not in ("shellscript", "fp", "fd"):
                raise ValueError(fk)
            ctx.count("reconf:feature:%s=%s" % (fk, feat[fk]))

        def _term(o, n):
            kw = {}
            if feat.get("shellscript"):
                kw["shellscript_out"] = io.StringIO()
            if "fp" in feat:
                kw["force_placeholders"] = feat["fp"]
            if "fd" in feat:
                kw["force_direct_transmission"] = feat["fd"]
            return gt.GraphicsTerminal(out_command=o, out_display=io.BytesIO(), in_response=io.BytesIO(), in_userinput=io.BytesIO(),
                                       num_tmux_layers=n, max_command_size=c.get("max"), **kw)

        out = Rec()
        t = _term(out, c["initial"])
        ref_out = Rec()
        ref = _term(ref_out, 0)
        cur = t
        # the layer count the CALLER configured (never read back from the object): constructor argument, assigned value,
        # clone_with argument (0 is a count; None keeps the parent's), detection = max(1, configured) exactly when the rule of
        # the statement holds (Spec.TmuxUnwrap.detectSpec), else 0
        intended = c["initial"]
        hist = [str(c["initial"]), "none"]
        for step in c["steps"]:
            how = step["how"]
            if how == "assign":
                cur.num_tmux_layers = step["n"]
                intended = step["n"]
                hist.append("alayers:%d" % step["n"])
            elif how == "detect":
                with _env(step["tmux"], step["term"]):
                    cur.detect_tmux()
                intended = max(1, intended) if d.ask(f"spec_detect {_optb(step['tmux'])} {_optb(step['term'])}") == "1" else 0
                hist.append(f"detect:{_optb(step['tmux'])}:{_optb(step['term'])}")
            elif how == "clone":
                cur = cur.clone_with(num_tmux_layers=step["n"], **(step.get("args") or {}))
                ref = ref.clone_with(**(step.get("args") or {}))          # the 0-layer terminal follows everything but the count
                if step["n"] is not None:
                    intended = step["n"]
                hist.append("clone:" + ("_" if step["n"] is None else str(step["n"])))
            elif how != "same":
                raise ValueError(how)
            ctx.count("reconf:%s:%s" % (how, "to-0" if intended == 0 else "to-n"))
            ctx.eq("num_tmux_layers of the object after " + how, dict(c, at=step), str(cur.num_tmux_layers),
                   d.ask("termcfg " + " ".join(hist)).split(" ")[0])
            n = intended
            desc = _materialise(step["cmd"])
            call = step.get("call") or {}                  # per-call force_placeholders / force_direct_transmission
            for ck in call:
                ctx.count("reconf:call-arg:%s=%s" % (ck, call[ck]))
            pos, rpos = len(out.getvalue()), len(ref_out.getvalue())
            growth = len(real_template(n)) - len(real_template(0))
            if c.get("max") is not None:
                cur.max_command_size = c["max"] + growth
            if (call.get("force_placeholders", cur.force_placeholders) or call.get("force_placeholders", ref.force_placeholders)) \
                    and not _no_placeholder_needed(desc):
                raise ValueError("case asks for a placeholder to be printed (needs a tty): not part of this family")
            try:
                cur.send_command(build(desc), **call)
                ref.send_command(build(desc), **call)
            except io.UnsupportedOperation:
                raise
            except ValueError:
                ctx.count("reconf:too-small")
                continue
            en_all, e0_all = out.getvalue()[pos:], ref_out.getvalue()[rpos:]
            ctx.count("reconf:layers:%d" % n)
            sp = d.ask(f"spec_splitstream {hx(en_all)}")
            sp0 = d.ask(f"spec_splitstream {hx(e0_all)}")
            escs_n = None if sp in ("none", "bad") else [] if sp == "empty" else [bytes.fromhex(x) for x in sp.split(" ")]
            escs_0 = None if sp0 in ("none", "bad") else [] if sp0 == "empty" else [bytes.fromhex(x) for x in sp0.split(" ")]
            if escs_n is None or escs_0 is None or len(escs_n) != len(escs_0):
                ctx.violation("after reconfiguring the layer count the stream is not the expected number of wrapped escape codes", dict(c, at=step),
                              {"layers_now": n, "emitted": en_all[:200].hex()}, key="c11-stream-shape")
                break
            ok = True
            for en, e0 in zip(escs_n, escs_0):
                if not _check_pair(ctx, d, dict(c, at=step), n, en, e0, "send_command after reconfiguration"):
                    ok = False
                    break
            if not ok:
                break
    elif k == "env":
        tmux, term, cur, cfg = c["tmux"], c["term"], c["cur"], c["cfg"]
        # the rest of the environment (None = as the harness found it): the outcome is the function of TMUX and TERM alone
        other = c.get("other")
        if other is not None:
            for name, v in sorted(other.items()):
                ctx.count("other-env:%s:%s" % (name, "unset" if v is None else "names-tmux-or-screen" if ("tmux" in v.lower() or "screen" in v.lower()) else "set"))
        spec = d.ask(f"spec_detect {_optb(tmux)} {_optb(term)}") == "1"
        model = d.ask(f"detect {_optb(tmux)} {_optb(term)} {cur} {cfg}").split(" ")
        ctx.count("spec-detects:%s" % spec)
        ctx.count("TMUX:" + ("unset" if tmux is None else "empty" if tmux == "" else "set"))
        # site 1: GraphicsTerminal.detect_tmux
        a = site_terminal(tmux, term, cur, other)
        ctx.eq("GraphicsTerminal.detect_tmux", c, str(a), model[1])
        if (a > 0) != spec:
            ctx.violation("GraphicsTerminal.detect_tmux disagrees with the rule TMUX set and TERM names screen or tmux", c,
                          {"layers": a, "spec": spec}, key="c11-detect-terminal")
        if spec and a != max(1, cur):
            ctx.violation("detect_tmux lost the configured number of layers", c, {"layers": a, "configured": cur}, key="c11-detect-layers")
        # site 2: TupimageTerminal.__init__
        if c.get("site2", True):
            r = site_config(tmux, term, cfg, other)
            parts = r.split(" ")
            if len(parts) != 3 or not parts[0].isdigit():
                from .common import ToolFailure
                raise ToolFailure(f"pty-hosted TupimageTerminal failed: {r!r}")
            b_cfg, b_term, tmpl = int(parts[0]), int(parts[1]), parts[2]
            ctx.eq("TupimageTerminal num_tmux_layers", c, f"{b_cfg} {b_term}", f"{model[2]} {model[2]}")
            ctx.eq("TupimageTerminal template", c, tmpl, d.ask(f"template {model[2]}"))
            if cfg == "auto":
                if b_term != (1 if spec else 0):
                    ctx.violation("TupimageTerminal auto-detection disagrees with the rule TMUX set and TERM names screen or tmux", c,
                                  {"layers": b_term, "spec": spec}, key="c11-detect-config")
            elif b_term != cfg:
                ctx.violation("explicitly configured number of tmux layers is not used", c, {"layers": b_term, "configured": cfg},
                              key="c11-config-explicit")
    elif k == "envseq":
        # several terminal objects in one process, the environment changed in between: each auto-detection must follow the
        # environment in force when THAT object is made
        r = site_config_seq([(x[0], x[1]) for x in c["settings"]])
        parts = r.split(" ")
        if parts[0] != "ok" or len(parts) != 1 + len(c["settings"]):
            from .common import ToolFailure
            raise ToolFailure(f"pty-hosted TupimageTerminal sequence failed: {r!r}")
        for j, ((tmux, term), got) in enumerate(zip(c["settings"], parts[1:])):
            spec = d.ask(f"spec_detect {_optb(tmux)} {_optb(term)}") == "1"
            ctx.count("envseq:objects")
            if int(got) != (1 if spec else 0):
                ctx.violation("TupimageTerminal auto-detection disagrees with the rule TMUX set and TERM names screen or tmux "
                              "(an object made after the environment changed)", c,
                              {"object": j, "TMUX": tmux, "TERM": term, "layers": int(got), "spec": spec}, key="c11-detect-config-sequence")
    elif k == "tmux":
        _real_tmux(ctx, d, c)
    else:
        raise ValueError(k)


def _materialise(desc):
    """a command whose payload is the NAME of a real file: {"data": {"tmpfile": <payload description>}} -> the file is
    created (contents as described) and its name becomes the payload"""
    dd = desc.get("data")
    if not isinstance(dd, dict) or "tmpfile" not in dd:
        return desc
    from .c05 import _tmpdir
    fd, path = tempfile.mkstemp(dir=_tmpdir(), suffix=".bin")
    os.write(fd, data_bytes(dd["tmpfile"]))
    os.close(fd)
    return dict(desc, data={"text": path})


def _no_placeholder_needed(desc) -> bool:
    """force_placeholders leaves the command as it is (nothing is printed, no tty is needed): no classic placement in it"""
    f = desc.get("f") or {}
    if desc["type"] == "T":
        return f.get("placement") is None or bool(f["placement"].get("virtual"))
    if desc["type"] == "P":
        return bool(f.get("virtual"))
    return True


def _check_pair(ctx, d, c, n, en: bytes, e0: bytes, where) -> bool:
    """F: n wrappers, each well formed, unwrap to the 0-layer emission."""
    r = d.ask(f"spec_layers {n} {hx(en)}")
    if r != "ok":
        ctx.violation(f"{where}: emitted bytes are not {n} well-formed tmux wrappers ({r})", c, {"emitted": en[:300].hex(), "reason": r},
                      key="c11-" + r.rsplit("-", 1)[0])
        return False
    u = d.ask(f"spec_unwrap {n} {hx(en)}")
    if u != hx(e0):
        ctx.violation(f"{where}: removing {n} tmux layers does not give the bytes sent with no tmux configured", c,
                      {"unwrapped": u[:600], "zero_layers": e0[:300].hex()}, key="c11-unwrap-differs")
        return False
    if n == 0 and en != e0:
        ctx.violation("0 layers differ from 0 layers", c, key="c11-unwrap-differs")
        return False
    return True


# ---------------------------------------------------------------------------------------
# supporting (thorough): a real tmux server forwards the pass-through body; what arrives at the outer
# terminal must be the 0-layer emission.  Validates Spec.TmuxUnwrap, not the property itself.
# ---------------------------------------------------------------------------------------
def _real_tmux(ctx, d, c):
    if not shutil.which("tmux"):
        ctx.count("tmux:unavailable")
        return
    desc = c["cmd"]
    data = data_bytes(desc.get("data"))
    obj = build(desc)
    e1, e0 = obj.to_bytes(real_template(1)), obj.to_bytes(real_template(0))
    sock = "vc11-%d" % os.getpid()
    td = tempfile.mkdtemp(prefix="vc11t")
    fifo = os.path.join(td, "in")
    os.mkfifo(fifo)
    master, slave = pty.openpty()
    import fcntl
    import struct
    import termios
    fcntl.ioctl(slave, termios.TIOCSWINSZ, struct.pack("HHHH", 24, 80, 0, 0))
    env = dict(os.environ, TERM="xterm-256color")
    env.pop("TMUX", None)
    try:
        subprocess.run(["tmux", "-L", sock, "-f", "/dev/null", "new-session", "-d", "-x", "80", "-y", "24",
                        f"stty raw -echo; cat {fifo}; sleep 2"], env=env, check=True, timeout=20)
        subprocess.run(["tmux", "-L", sock, "set", "-g", "allow-passthrough", "on"], env=env, check=True, timeout=20)
        client = subprocess.Popen(["tmux", "-L", sock, "attach"], stdin=slave, stdout=slave, stderr=slave, env=env, start_new_session=True)
        import time
        got = b""
        deadline = time.time() + 3
        while time.time() < deadline:     # let the client draw its first screen
            rl, _, _ = select.select([master], [], [], 0.3)
            if rl:
                got += os.read(master, 65536)
            elif got:
                break
        got = b""
        with open(fifo, "wb") as f:
            f.write(e1)
        deadline = time.time() + 5
        while time.time() < deadline and e0 not in got:
            rl, _, _ = select.select([master], [], [], 0.3)
            if rl:
                try:
                    got += os.read(master, 65536)
                except OSError:
                    break
        client.kill()
        ctx.count("tmux:ran")
        if e0 not in got:
            # the oracle (tmux) did not forward what Spec.TmuxUnwrap predicts: report as a note, never as a violation
            ctx.notes.append(f"real tmux did not forward the expected inner sequence for {desc!r}: saw {got[-200:]!r}")
            ctx.count("tmux:unexpected")
        else:
            ctx.count("tmux:forwarded-inner-sequence")
    except (subprocess.SubprocessError, OSError) as e:
        ctx.count("tmux:failed")
        ctx.notes.append(f"tmux oracle could not run: {e!r}")
    finally:
        subprocess.run(["tmux", "-L", sock, "kill-server"], env=env, stdout=subprocess.DEVNULL, stderr=subprocess.DEVNULL)
        os.close(master)
        os.close(slave)
        shutil.rmtree(td, ignore_errors=True)


# ---------------------------------------------------------------------------------------
def cases(ctx: Ctx):
    rng = ctx.rng
    quick = ctx.quick
    # (1) every command type through 0..4 layers
    ts = c06.t_slots()
    for n in range(0, 5):
        for _ in range(500 if quick else 8000):
            typ = rng.choice(["T", "T", "M", "P", "D"])
            if typ == "T":
                present = [s for s in ts if rng.random() < rng.choice([0.1, 0.5, 0.9])]
                desc = c06.t_desc(rng, present, c06.rnd_data(rng, 60))
            else:
                flds = {"P": c06.PUT_FIELDS, "D": c06.D_FIELDS, "M": c06.M_FIELDS}[typ]
                desc = c06.simple_desc(rng, typ, flds, [s for s in flds if rng.random() < 0.5], c06.rnd_data(rng, 60))
            yield {"k": "wrap", "cmd": desc, "layers": n}
        # payloads made of ESC / ST / the tmux prefix itself
        for pat in ["esc", "ff", "zero"]:
            for L in [1, 2, 3, 10, 33]:
                yield {"k": "wrap", "cmd": {"type": rng.choice(["T", "M"]), "f": {"image_id": 1}, "data": {"len": L, "pat": pat}}, "layers": n}
        yield {"k": "wrap", "cmd": {"type": "T", "f": {"omit_action": True}, "data": None}, "layers": n}
        yield {"k": "wrap", "cmd": {"type": "P", "f": {}}, "layers": n}
        yield {"k": "wrap", "cmd": {"type": "D", "f": {}}, "layers": n}
    # (2) chunked transmissions through n layers vs 0 layers with the same payload budget
    from .c05 import HEADERS, hdr_len
    for n in range(0, 5):
        for f in HEADERS:
            hl = hdr_len(ctx, f)
            for extra in ([-1, 0, 4, 13] if quick else [-1, 0, 1, 3, 4, 5, 8, 13, 40, 400]):
                mx0 = 7 + hl + 8 + extra
                if mx0 < 0:
                    continue
                mp = max(1, (mx0 - 7 - hl - 4) // 4 * 3)
                for L in sorted(set([0, 1, mp, mp + 1, 2 * mp, 3 * mp + 2] + ([] if quick else [2, 3, mp - 1, 2 * mp - 1, 2 * mp + 1, 5 * mp]))):
                    yield {"k": "wrapsend", "cmd": {"type": "T", "f": f, "data": {"len": L, "pat": rng.choice(["rand", "esc"]), "seed": rng.randrange(99)}},
                           "layers": n, "max": mx0, "stream": rng.choice(["bytes", "bytesio", "file"]) if rng.random() < 0.2 else "bytes"}
    # (3) environment table through both detection sites
    tmuxes = [None, "", "/tmp/tmux-1000/default,3186,0", "x"]
    terms = [None, "", "xterm", "xterm-256color", "screen", "screen-256color", "tmux", "tmux-256color", "xterm-tmux", "my-screen.x",
             "scree", "tmu", "SCREEN", "Tmux", "screentmux", "tmuxscreen", "scr een", "xtmu x", "linux", "é-tmux-中"]
    i = 0
    for _ in range(40 if ctx.quick else 400):
        steps = []
        for _j in range(rng.randrange(2, 6)):
            how = rng.choice(["assign", "detect", "clone", "same"])
            st = {"how": how, "cmd": {"type": rng.choice(["T", "P", "D"]), "f": {"image_id": rng.randrange(1, 99)},
                                      "data": ({"len": rng.randrange(0, 200), "pat": "rand", "seed": rng.randrange(99)})}}
            if st["cmd"]["type"] != "T":
                st["cmd"]["data"] = None
            if how in ("assign", "clone"):
                st["n"] = rng.randrange(0, 4)
            if how == "clone":
                if rng.random() < 0.25:
                    st["n"] = None
                if rng.random() < 0.5:
                    st["args"] = rng.choice(CLONE_ARGS)
            if how == "detect":
                st["tmux"], st["term"] = rng.choice([(None, "xterm"), ("/tmp/tmux-0/default,1,0", "tmux-256color"), ("/t,1,0", "screen"), ("", "tmux")])
            steps.append(st)
        cse = {"k": "reconf", "initial": rng.randrange(0, 4), "max": rng.choice([None, None, 150, 400]), "steps": steps}
        ft = rng.choice([None, None, {"shellscript": True}, {"fd": True}, {"shellscript": True, "fd": True}])
        if ft:
            cse["feat"] = ft
        yield cse
    # every way of (re)configuring the count x every start count x every target count incl. 0: one command before, two after
    def _cmd():
        t = rng.choice(["T", "T", "P", "D"])
        return {"type": t, "f": {"image_id": rng.randrange(1, 99)}, "data": {"len": rng.randrange(0, 300), "pat": "rand", "seed": rng.randrange(99)} if t == "T" else None}
    envs = [(None, "xterm"), ("/tmp/tmux-0/default,1,0", "tmux-256color"), ("/t,1,0", "screen"), ("", "tmux"), ("x", "linux"), ("x", None)]
    for a in range(0, 5):
        changes = [{"how": h, "n": b} for h in ("assign", "clone") for b in range(0, 5)] + [{"how": "clone", "n": None}] + \
                  [{"how": "clone", "n": b, "args": A} for b in (None, 0, 2) for A in CLONE_ARGS] + \
                  [{"how": "detect", "tmux": tm, "term": te} for tm, te in envs]
        for ch in changes:
            yield {"k": "reconf", "initial": a, "max": rng.choice([None, 150, 400]),
                   "steps": [dict({"how": "same"}, cmd=_cmd()), dict(ch, cmd=_cmd()),
                             dict({"how": "clone", "n": None, "args": rng.choice([{}] + CLONE_ARGS)}, cmd=_cmd())]}
    # the same with the optional features of the terminal object that share the send path switched on (alone and together),
    # at construction / through clone_with / per call: shell-script logging, forced placeholders (commands that need no
    # placeholder printed: no placement, virtual placements, deletions), forced direct transmission of a real file
    def _fcmd(fp):
        t = rng.choice(["T", "T", "T", "P", "D"])
        if t == "T":
            f = {"image_id": rng.randrange(1, 99)}
            r = rng.random()
            if r < 0.4:
                f["medium"] = rng.choice(["FILE", "TEMP_FILE"])
                data = {"tmpfile": {"len": rng.choice([0, 1, 50, 300, 1000]), "pat": rng.choice(["rand", "esc"]), "seed": rng.randrange(99)}}
            else:
                if r < 0.6:
                    f["medium"] = "DIRECT"
                data = {"len": rng.randrange(0, 300), "pat": rng.choice(["rand", "esc"]), "seed": rng.randrange(99)}
            if rng.random() < 0.5:
                f["placement"] = {"virtual": True, "rows": rng.randrange(1, 5), "cols": rng.randrange(1, 9)}
                if rng.random() < 0.5:
                    f["placement"]["placement_id"] = rng.randrange(1, 2**24)
            elif not fp and rng.random() < 0.3:
                f["placement"] = {"rows": 2, "cols": 3}
            return {"type": "T", "f": f, "data": data}
        if t == "P":
            f = {"image_id": rng.randrange(1, 99), "rows": 1, "cols": 2, "placement_id": rng.randrange(1, 99)}
            if fp or rng.random() < 0.5:
                f["virtual"] = True
            return {"type": "P", "f": f}
        return {"type": "D", "f": {"image_id": rng.randrange(1, 99), "what": rng.choice(c06.enum_names("what"))}}

    feats = [{"shellscript": True}, {"fp": True}, {"fd": True}, {"fd": False, "fp": False}, {"shellscript": True, "fd": True},
             {"shellscript": True, "fp": True}, {"shellscript": True, "fp": True, "fd": True}]
    for feat in feats:
        fp = bool(feat.get("fp"))
        for a in range(0, 4):
            changes = [{"how": "same"}, {"how": "assign", "n": (a + 1) % 4}, {"how": "clone", "n": rng.choice([None, 0, 2, 3])},
                       {"how": "clone", "n": None, "args": {"force_direct_transmission": not feat.get("fd", False)}},
                       {"how": "detect", "tmux": "/t,1,0", "term": "screen"}]
            for ch in changes:
                for mx in ([None, 400] if quick else [None, 150, 400]):
                    st2 = dict(ch, cmd=_fcmd(fp))
                    r = rng.random()
                    if r < 0.25:
                        st2["call"] = {"force_direct_transmission": rng.random() < 0.5}
                    elif r < 0.6 and _no_placeholder_needed(st2["cmd"]):
                        st2["call"] = {"force_placeholders": rng.random() < 0.5}
                    yield {"k": "reconf", "initial": a, "max": mx, "feat": feat,
                           "steps": [dict({"how": "same"}, cmd=_fcmd(fp)), st2, dict({"how": "same"}, cmd=_fcmd(fp))]}
    for tm in tmuxes:
        for te in terms:
            for cur, cfg in ([(0, "auto"), (3, 2)] if not quick else [((0, "auto") if i % 3 else (2, 0))]):
                i += 1
                yield {"k": "env", "tmux": tm, "term": te, "cur": cur, "cfg": cfg, "site2": True}
            yield {"k": "env", "tmux": tm, "term": te, "cur": rng.choice([1, 2, 4]), "cfg": "auto", "site2": False}
    # the same table crossed with the variables that must not matter: each alone naming tmux / screen, typical inherited sets
    # (a kitty / xterm window started from a tmux >= 3.2 pane keeps TMUX, TMUX_PANE, TERM_PROGRAM=tmux and sets its own TERM;
    # a screen window has STY and TERM=screen*), everything at once, and everything unset
    tmv = "/tmp/tmux-1000/default,3186,0"
    singles = [{"TERM_PROGRAM": "tmux"}, {"TERM_PROGRAM": "screen"}, {"TERM_PROGRAM": "tmux-256color"}, {"TERM_PROGRAM": "WezTerm"},
               {"TERM_PROGRAM": ""}, {"TERM_PROGRAM_VERSION": "tmux 3.4"}, {"TMUX_PANE": "%3"}, {"TMUX_PANE": "tmux"},
               {"STY": "1234.pts-0.screen"}, {"TMUX_TMPDIR": "/tmp/tmux-1000"}, {"COLORTERM": "tmux"}, {"COLORTERM": "truecolor"},
               {"LC_TERMINAL": "tmux-256color"}, {"LC_TERMINAL": "screen"}, {"TERMINFO": "/usr/share/terminfo/s/screen"},
               {"TERMCAP": "SC|screen|VT 100/ANSI X3.64 virtual terminal"}, {"WINDOW": "0"}, {"TMUX_PLUGIN_MANAGER_PATH": "/home/u/.tmux/plugins"},
               {"TERM_SESSION_ID": "tmux-screen"}]
    sets = [{}, {"TMUX_PANE": "%3", "TERM_PROGRAM": "tmux", "TERM_PROGRAM_VERSION": "3.4"},
            {"STY": "4242.tty1.host", "WINDOW": "2", "TERMCAP": "SC|screen-256color|tmux", "TERM_PROGRAM": "screen"},
            {"TERM_PROGRAM": "WezTerm", "COLORTERM": "truecolor", "TERM_PROGRAM_VERSION": "20240203"},
            {k: "tmux screen" for k in OTHER_VARS}]
    terms2 = [None, "", "xterm-256color", "xterm-kitty", "screen", "screen-256color", "tmux", "tmux-256color", "linux"]
    for other in sets + singles:
        full = other in sets
        for tm in [None, "", tmv]:
            tes = terms2 if not quick else [None, "", "xterm-256color", "xterm-kitty", "screen-256color", "tmux"] if full else \
                [rng.choice([None, "xterm-kitty", "xterm-256color", "linux"]), rng.choice(["screen-256color", "tmux-256color", "screen", "tmux"])]
            for te in tes:
                both = True
                yield {"k": "env", "tmux": tm, "term": te, "cur": rng.choice([0, 0, 1, 3]), "cfg": "auto", "site2": both, "other": dict(other)}
        # explicitly configured layer counts stay what they are
        yield {"k": "env", "tmux": tmv, "term": rng.choice(["xterm-kitty", "tmux-256color"]), "cur": rng.choice([0, 2]), "cfg": rng.choice([0, 1, 2, 4]),
               "site2": True, "other": dict(other)}
    # (3b) several terminal objects in ONE process with the environment changed in between (an answer remembered from an
    #      earlier object's environment must not be reused): sequences over the TMUX x TERM values, same TERM with TMUX
    #      appearing / disappearing and the reverse
    seq_vals = [(None, "xterm-kitty"), ("/tmp/tmux-0/default,1,0", "xterm-kitty"), ("/tmp/tmux-0/default,1,0", "tmux-256color"),
                (None, "tmux-256color"), ("/tmp/tmux-0/default,1,0", "screen"), (None, "screen"), ("", "tmux"), ("/tmp/tmux-0/default,1,0", "tmux")]
    for a_ in seq_vals:
        for b_ in seq_vals:
            if a_ != b_ and (a_[1] == b_[1] or a_[0] == b_[0]):
                yield {"k": "envseq", "settings": [list(a_), list(b_), list(a_)]}
    for _ in range(6 if quick else 60):
        yield {"k": "envseq", "settings": [list(rng.choice(seq_vals)) for _ in range(rng.randrange(2, 6))]}
    # (4) supporting: real tmux as an oracle of the unwrapping specification
    if not quick:
        for desc in [{"type": "T", "f": {"image_id": 5, "medium": "DIRECT"}, "data": {"hex": "00ff1b1b5c"}},
                     {"type": "P", "f": {"image_id": 5, "rows": 2, "cols": 3}},
                     {"type": "D", "f": {"what": "IMAGE_OR_PLACEMENT_BY_ID", "delete_data": True, "image_id": 5}}]:
            yield {"k": "tmux", "cmd": desc}


def run(ctx: Ctx):
    ctx.rule = ("cases: random commands of all four types (presence lattice, boundary values, ESC/ST/tmux-prefix payloads) through "
                "0..4 layers (to_bytes); chunked transmissions for 8 header shapes x limits around the first accepted one x payload "
                "lengths around the chunk size through n layers against 0 layers with the same payload budget; environment table "
                "TMUX in {unset, empty, value} x 20 TERM values x configured layers through GraphicsTerminal.detect_tmux and a "
                "pty-hosted TupimageTerminal; the same table crossed with variables that must not matter (TERM_PROGRAM, TERM_PROGRAM_VERSION, "
                "TMUX_PANE, STY, TMUX_TMPDIR, COLORTERM, LC_TERMINAL, TERMINFO, TERMCAP, WINDOW ... each alone naming tmux / screen, typical "
                "inherited sets, all at once, all unset) at both sites; send_command sequences with the layer count reconfigured in between (assignment, "
                "detect_tmux, clone_with incl. 0 and None) from every start count to every target count, each emission judged against "
                "the count the caller configured; the same sequences with the optional features sharing the send path on (shell-script "
                "logging to a StringIO, force_placeholders with commands that need no placeholder printed, force_direct_transmission of "
                "real files; at construction, through clone_with, per call). distinct = canonical JSON; non-trivial = n >= 1 layers (wrap), >= 2 chunks and n >= 1 "
                "(wrapsend), every environment row")
    c06.run_corpus(ctx, "C11", check_case)
    for c in cases(ctx):
        if ctx.time_left() < 0:
            ctx.count("skipped-over-budget")
            continue
        ctx.last_nontrivial = None
        check_case(ctx, c)
        nt = ctx.last_nontrivial if ctx.last_nontrivial is not None else (c.get("layers", 1) >= 1)
        ctx.case(c, nontrivial=nt)
    ctx.assumptions += ["layers are configured at construction (changing num_tmux_layers through the TupimageTerminal property "
                        "setter afterwards does not reach the GraphicsTerminal: outside the quantifier)"]
    from . import c05
    if c05._TMP is not None:
        c05._TMP.cleanup()
        c05._TMP = None
