"""C01 — allocated image IDs always lie in the requested ID space and subspace.

Oracle (F): Tup.Spec.Layout.member (four byte projections + the feature table of the statement, written
independently of the code's predicate, generator and SQL filter) applied to EVERY id returned by
IDManager.get_id and by TupimageTerminal.assign_id — fresh, found again, recycled from a full subspace,
drawn by rejection sampling, drawn after a clean-up — and `row-outside-its-space` on every table dump.
K: shared with C02 (harness/dbutil.run_history): the same histories run on the Lean model, tables compared
after every step.
TupimageTerminal always opens /dev/tty, so the assign_id histories run in a `pty.fork()` child with a
temporary id_database and config="DEFAULT"; the child runs the same history runner with its own driver.
`objects_history`: one child hosts SEVERAL terminal objects (own database and own configured space / subspace each, through
different configuration channels), asked in turns - what one object was configured with must not reach another.
`cfgint_history`: the configured id_space as a native integer through every layer that can carry one (refusals counted).
`kept_history`: kept ImageInstance objects, with or WITHOUT an id, through upload / upload_and_display with per-call spaces.
"""
from __future__ import annotations

import json
import os
import pty
import tempfile

from . import dbutil
from .c02 import DESCS, SUBS_BY_SPACE, gen_history as gen02, report, run_corpus
from .common import Ctx, Driver
from .dbutil import SPACES, run_history

DRIVERS = ["drv_db"]
PROP = "C01"
EVIDENCE = dict(
    level="proof",
    trusted=[
        "Spec.Layout.member is a transcription of the property statement (validated against the code's own predicate by C10)",
        "sqlite `&`/BETWEEN semantics (victim selection), observed by K after every step",
        "pty hosting of TupimageTerminal: the OS tty layer",
    ],
)

BOUND = [0, 1, 2, 3, 127, 128, 254, 255]


def boundary_subs():
    return [(b, e) for b in BOUND for e in [2, 3, 4, 128, 129, 255, 256] if b < e]


def sweep_history(rng, pairs, max_ids, descs_per_sub=2, via="idman") -> dict:
    """one or more get_id per (space, subspace) pair, then a second pass that hits / recycles"""
    ops = []
    for (sp, su) in pairs:
        for k in range(descs_per_sub):
            ops.append({"op": "get", "sp": list(sp), "su": list(su), "d": f"{'' if via == 'idman' else ':v:'}{rng.choice(DESCS[:12])}{k}", "dt": rng.choice([0, 1, 1000]),
                        **({"strform": True} if via == "terminal" and rng.random() < 0.5 else {})})
    return {"max_ids": max_ids, "seed": rng.randrange(1 << 30), "start": dbutil.T0, "profile": "sweep", "via": via,
            "ops": [dict(o, n=i) for i, o in enumerate(ops)]}


# the documented textual / integer names of the five spaces (IDSpace.from_string; an int argument is read as its decimal text):
# the number names the bits of an ID that may be non-zero, "d"/"_diacritic" the third diacritic, "256" the 256-colour index
ALIASES = {
    (24, True): ["32", "32bit", 32],
    (24, False): ["24", "24bit", 24],
    (0, True): ["8d", "8bit_diacritic"],
    (8, False): ["8", "8bit", "256", 8, 256],
    (8, True): ["16", "16d", "16bit", "16bit_diacritic", 16],
}
CFG_VIAS = ["kwargs", "overrides", "env", "toml", "property", "cfgobj"]


def _space_form(rng, sp, allow_int=True, allow_obj=True):
    al = [a for a in ALIASES[tuple(sp)] if allow_int or isinstance(a, str)]
    if allow_obj and rng.random() < 0.25:
        return {"t": "obj", "v": [sp[0], bool(sp[1])]}
    a = rng.choice(al)
    return {"t": "int" if isinstance(a, int) else "str", "v": a}


def _sub_form(rng, su, allow_obj=True):
    if allow_obj and rng.random() < 0.4:
        return {"t": "obj", "v": list(su)}
    return {"t": "str", "v": "" if tuple(su) == (0, 256) and rng.random() < 0.3 else f"{su[0]}:{su[1]}"}


def forms_history(rng, subs, n_ops=14, max_ids=1024) -> dict:
    """ONE long-lived TupimageTerminal with a configured non-default id_space / id_subspace (given as object or text, through a
    keyword, config_overrides, the environment, a config file, the property, or a TupimageConfig object); assign_id calls that
    mix explicit spaces/subspaces in every accepted form (object, text alias, int) with calls that rely on the configured
    default (None); the default is changed through the properties in between. Oracle: Spec.member for the space/subspace that
    applies to each call."""
    via = rng.choice(CFG_VIAS)
    text_only = via in ("env", "toml")
    cur_sp = rng.choice(SPACES)
    cur_su = rng.choice(subs)
    tconfig = {"via": via}
    if rng.random() < 0.85:
        f = _space_form(rng, cur_sp, allow_int=(via == "cfgobj"), allow_obj=not text_only)
        tconfig["id_space"] = f
    else:
        cur_sp = (24, True)          # the library default
    if rng.random() < 0.85:
        tconfig["id_subspace"] = _sub_form(rng, cur_su, allow_obj=not text_only)
    else:
        cur_su = (0, 256)
    ops = []
    for k in range(n_ops):
        r = rng.random()
        if r < 0.12 and k > 0:
            o = {"op": "setcfg", "dt": 0}
            if rng.random() < 0.6:
                cur_sp = rng.choice(SPACES)
                o["id_space"] = _space_form(rng, cur_sp, allow_int=False)
            else:
                cur_su = rng.choice(subs)
                o["id_subspace"] = _sub_form(rng, cur_su)
            ops.append(o)
            continue
        o = {"op": "get", "d": f":v:{rng.choice(DESCS[14:26])}", "dt": rng.choice([1, 1, 1000])}
        if rng.random() < 0.5:
            sp = cur_sp
            o["spa"] = {"t": "none"}
        else:
            sp = rng.choice(SPACES)
            f = _space_form(rng, sp)
            o["spa"] = {"t": "obj"} if f["t"] == "obj" else f
        if rng.random() < 0.5:
            su = cur_su
            o["sua"] = {"t": "none"}
        else:
            su = rng.choice(subs)
            f = _sub_form(rng, su)
            o["sua"] = {"t": "obj"} if f["t"] == "obj" else f
        o["sp"], o["su"] = [sp[0], bool(sp[1])], list(su)
        ops.append(o)
    return {"max_ids": max_ids, "seed": rng.randrange(1 << 30), "start": dbutil.T0, "profile": "forms", "via": "terminal",
            "tconfig": tconfig, "ops": [dict(o, n=i) for i, o in enumerate(ops)]}


def _object_config(rng, via, sp, su) -> dict:
    """tconfig of one terminal object: its default space `sp` / subspace `su` (None = not configured: the library default) through `via`"""
    text_only = via in ("env", "toml")
    tc = {"via": via}
    if sp is not None:
        tc["id_space"] = _space_form(rng, sp, allow_int=(via == "cfgobj"), allow_obj=not text_only)
    if su is not None:
        tc["id_subspace"] = _sub_form(rng, su, allow_obj=not text_only)
    return tc


def channel_sequences(rng, n_cases, lo=2, hi=4) -> list:
    """sequences of configuration channels, one per object of a case, chosen so that every ORDERED pair (earlier object's channel,
    later object's channel) - the same channel twice included - occurs in some case as early as possible (greedy cover over random
    candidates; up to 8 more than `n_cases` sequences if that is what the cover takes); once all 36 pairs are covered the sequences are random"""
    todo = {(a, b) for a in CFG_VIAS for b in CFG_VIAS}
    out = []
    while len(out) < n_cases or (todo and len(out) < n_cases + 8):
        cands = [[rng.choice(CFG_VIAS) for _ in range(rng.randint(lo, hi) if not todo else hi)] for _ in range(40 if todo else 1)]
        pairs = lambda s: {(s[i], s[j]) for i in range(len(s)) for j in range(i + 1, len(s))}
        best = max(cands, key=lambda s: len(pairs(s) & todo))
        todo -= pairs(best)
        out.append(best)
    return out


def objects_history(rng, vias, subs, max_ids=1024, n_ops=None) -> dict:
    """SEVERAL TupimageTerminal objects created one after another in ONE process (one pty child), each with its own database file
    and its own default id_space / id_subspace - pairwise different spaces, pairwise disjoint subspaces, some left unconfigured -
    given through its own channel (`vias[k]`: keyword, config_overrides, environment, config file, property, TupimageConfig
    object). Then every object is asked for ids, mostly WITHOUT per-call arguments (some with explicit ones in every form), the
    objects taking turns; a default changed through the properties of one object must not reach the others. Oracle: Spec.member for
    the space / subspace the ASKED object was configured with. "obj" on an op names the object; "create": all objects up front, or
    each right before its first use."""
    n = len(vias)
    spaces = rng.sample(SPACES, min(n, len(SPACES))) + [rng.choice(SPACES) for _ in range(max(0, n - len(SPACES)))]
    # disjoint subspaces: cut points in 1..255
    cuts = sorted(rng.sample(range(1, 256), 2 * n))
    dis = [(cuts[2 * i], cuts[2 * i + 1]) for i in range(n)]
    rng.shuffle(dis)
    objects, cur = [], []
    for k, via in enumerate(vias):
        sp = spaces[k] if rng.random() < 0.85 else None
        su = (dis[k] if rng.random() < 0.75 else rng.choice(subs)) if rng.random() < 0.85 else None
        if sp is None and su is None and rng.random() < 0.7:
            sp = spaces[k]
        objects.append(_object_config(rng, via, sp, su))
        cur.append([sp or (24, True), su or (0, 256)])
    # who is asked when: every object in creation order first, then turns at random
    turns = list(range(n)) + [rng.randrange(n) for _ in range(rng.randint(0, n + 1))]
    ops = []
    for k in turns:
        for _ in range(n_ops or rng.randint(2, 5)):
            r = rng.random()
            if r < 0.06 and ops:
                o = {"op": "setcfg", "dt": 0, "obj": k}
                if rng.random() < 0.6:
                    cur[k][0] = rng.choice(SPACES)
                    o["id_space"] = _space_form(rng, cur[k][0], allow_int=False)
                else:
                    cur[k][1] = rng.choice(subs)
                    o["id_subspace"] = _sub_form(rng, cur[k][1])
                ops.append(o)
                continue
            o = {"op": "get", "d": f":v:{rng.choice(DESCS[14:30])}", "dt": rng.choice([1, 1, 1000]), "obj": k}
            sp, su = cur[k]
            o["spa"] = o["sua"] = {"t": "none"}
            if rng.random() < 0.2:
                sp = rng.choice(SPACES)
                f = _space_form(rng, sp)
                o["spa"] = {"t": "obj"} if f["t"] == "obj" else f
            if rng.random() < 0.2:
                su = rng.choice(subs)
                f = _sub_form(rng, su)
                o["sua"] = {"t": "obj"} if f["t"] == "obj" else f
            o["sp"], o["su"] = [sp[0], bool(sp[1])], list(su)
            ops.append(o)
    return {"max_ids": max_ids, "seed": rng.randrange(1 << 30), "start": dbutil.T0, "profile": "objects", "via": "terminal",
            "create": rng.choice(["upfront", "lazy"]), "objects": objects, "ops": [dict(o, n=i) for i, o in enumerate(ops)]}


# what an INTEGER names as an ID space, by the documented convention of IDSpace.from_string applied to its decimal text
INT_NAMES = {8: (8, False), 256: (8, False), 16: (8, True), 24: (24, False), 32: (24, True)}
# every configuration layer that can carry a native integer (the environment is text only)
INT_VIAS = ["kwargs", "overrides", "property", "cfgobj", "toml", "cfgdict", "cfgkw", "tomlstr"]
NEAR = [(30, 40), (100, 200), (1, 2), (0, 2), (255, 256), (0, 256), (1, 256), (5, 9), (40, 100), (200, 256)]


def cfgint_history(rng, pairs, subs, max_ids=1024) -> dict:
    """the configured default id_space given as a NATIVE INTEGER (8, 16, 24, 32, 256) through every layer that can carry one: the
    constructor keyword, config_overrides, the `id_space` property (assigned after ids were already handed out under another
    configured space), a TupimageConfig built in code, one told through override_from_dict / override(**kw) /
    override_from_toml_string, and a config file with a native toml integer. `pairs` = [(layer, int)], one fresh terminal (own
    database) per pair in one pty child. A layer may REFUSE the integer (ValueError / TypeError: no terminal, or the property keeps
    what it had) - that is counted, and whatever was configured before stays the space that applies. If the layer accepts it, ids
    are requested WITHOUT a per-call id_space (the subspace configured, per call, or default) and every id must be a member of
    the space the integer NAMES (IDSpace.from_string of its decimal text: 8 -> 8bit, 16 -> 16bit, 24 -> 24bit, 32 -> 32bit,
    256 -> 8bit) and of the subspace that applies. Oracle: Spec.member (`spec_member`)."""
    layers = []
    for via, n in pairs:
        text_only = via in ("toml", "tomlstr")
        tc = {"via": via, "id_space": {"t": "int", "v": n}}
        su = (0, 256)
        if rng.random() < 0.6:
            su = rng.choice(subs)
            tc["id_subspace"] = _sub_form(rng, su, allow_obj=not text_only)
        layer = {"tconfig": tc, "sp": list(INT_NAMES[n]), "su": list(su)}
        if via == "property":
            bsp = rng.choice([s_ for s_ in SPACES if tuple(s_) != INT_NAMES[n]])
            layer["before"] = {"id_space": _space_form(rng, bsp, allow_int=False), "sp": [bsp[0], bool(bsp[1])]}
        reqs = []
        for k in range(rng.randint(2, 4)):
            q = {"d": f":v:{rng.choice(DESCS[14:30])}{k}", "sua": {"t": "none"}, "su": list(su)}
            if rng.random() < 0.35:
                qsu = rng.choice(subs)
                f = _sub_form(rng, qsu)
                q["sua"], q["su"] = f, list(qsu)
            reqs.append(q)
        layer["reqs"] = reqs
        layers.append(layer)
    return {"via": "terminal", "cfgint": True, "name": "configured-int-space", "profile": "cfgint", "max_ids": max_ids,
            "seed": rng.randrange(1 << 30), "layers": layers, "ops": []}


def outside_history(rng, subs_by_space, max_ids) -> dict:
    """a description already bound to an id just OUTSIDE the requested subspace (same space, subspace byte
    begin-1 / end / 0) must not be handed out for the request: force-set such ids, then request."""
    ops = []
    k = 0
    for sp, subs in subs_by_space:
        cb, u3 = sp
        off = 24 if u3 else (16 if cb == 24 else 0)
        for (b, e) in subs:
            for outside in {b - 1, e, 0 if (cb == 24 and not u3) else 1} - set(range(b, e)):
                if not (0 <= outside <= 255):
                    continue
                i = outside << off
                if cb == 8 and u3:
                    i |= rng.randrange(1, 256)
                elif cb == 24:
                    i |= (rng.randrange(1, 256) << 8) | rng.randrange(256)
                    if u3:
                        i |= rng.randrange(256) << 16 if False else 0
                if u3 and outside == 0:
                    continue          # high byte 0 would be another space
                if not u3 and cb == 8 and outside == 0:
                    continue
                if i == 0:
                    continue
                k += 1
                d = f"o{k}"
                ops.append({"op": "set", "id": i, "d": d, "dt": 1})
                ops.append({"op": "get", "sp": list(sp), "su": [b, e], "d": d, "dt": 1})
    return {"max_ids": max_ids, "seed": rng.randrange(1 << 30), "start": dbutil.T0, "profile": "outside", "via": "idman",
            "ops": [dict(o, n=i) for i, o in enumerate(ops)]}


def fill_history(rng, sp, su, max_ids, size, via="idman") -> dict:
    """fill an enumerable subspace completely, keep going (every further id is a recycled one), with hits,
    deletes and an overlapping subspace in between"""
    ops = []
    n = size + rng.randint(1, size + 3)
    pre = "" if via == "idman" else ":v:"
    for k in range(n):
        ops.append({"op": "get", "sp": list(sp), "su": list(su), "d": f"{pre}f{k}", "dt": rng.choice([0, 1, 1, 5])})
        r = rng.random()
        if r < 0.15:
            ops.append({"op": "get", "sp": list(sp), "su": list(su), "d": f"{pre}f{rng.randrange(k + 1)}", "dt": 1})
        elif r < 0.22 and via == "idman":
            ops.append({"op": "del", "id": {"ref": rng.randrange(len(ops))}, "dt": 1})
        elif r < 0.30:
            b, e = su
            wide = (max(0, b - 1), min(256, e + 1))
            ops.append({"op": "get", "sp": list(sp), "su": list(wide), "d": f"{pre}w{k}", "dt": 1})
    return {"max_ids": max_ids, "seed": rng.randrange(1 << 30), "start": dbutil.T0, "profile": "fill", "via": via,
            "ops": [dict(o, n=i) for i, o in enumerate(ops)]}


# -------------------------------------------------------------------------------------------------
def _child(case: dict, out_path: str):
    """runs inside the pty child: a TupimageTerminal on the pty, the history through assign_id"""
    for k in list(os.environ):
        if k.startswith("TUPIMAGE"):
            del os.environ[k]
    os.environ.pop("TMUX", None)
    from tupimage.tupimage_terminal import TupimageTerminal
    d = tempfile.mkdtemp(prefix="vc01", dir="/dev/shm" if os.path.isdir("/dev/shm") else None)
    drv = Driver("drv_db")
    res = {"error": None}
    try:
        if case.get("objects"):
            res.update(_run_objects(TupimageTerminal, drv, case, d))
        elif case.get("kept"):
            res.update(_run_kept(TupimageTerminal, drv, case, d))
        elif case.get("cfgint"):
            res.update(_run_cfgint(TupimageTerminal, drv, case, d))
        else:
            term = _make_terminal(TupimageTerminal, case, d)
            fd = run_history(drv, case, terminal=term)
            res.update(mismatches=fd.mismatches, violations=fd.violations, stats=fd.stats)
    except BaseException as e:          # noqa: BLE001
        import traceback
        res["error"] = f"{type(e).__name__}: {e}\n{traceback.format_exc()[-1500:]}"
    finally:
        drv.close()
        import shutil
        shutil.rmtree(d, ignore_errors=True)
    with open(out_path, "w") as f:
        json.dump(res, f, default=repr)


class _ResumingDriver:
    """the driver of a run that continues on a database which already has rows (an object asked again later): right after the
    runner's `reset` the model is handed the id tables as they are in the file (`bulk` = mirror of rows put there directly)"""

    def __init__(self, drv, database_file: str):
        self._drv = drv
        self._file = database_file

    def __getattr__(self, name):
        return getattr(self._drv, name)

    def ask(self, line: str):
        r = self._drv.ask(line)
        if line.startswith("reset "):
            import sqlite3
            conn = sqlite3.connect(self._file, isolation_level=None)
            try:
                dump = dbutil.dump_tables(conn)
            finally:
                conn.close()
            for spi, rows in enumerate(dump["ids"]):
                if rows and self._drv.ask(f"bulk {dbutil.sp_tok(SPACES[spi])} {dbutil.enc_table(rows)}") != "ok":
                    raise RuntimeError("driver rejected the tables of a resumed object")
        return r


def _run_objects(TupimageTerminal, drv, case: dict, d: str) -> dict:
    """several terminal objects in this one process (case["objects"][k] = tconfig of object k, each with its own directory and
    database); the ops are cut into maximal runs with the same "obj", each run is one run_history on that object's terminal
    (the model session restarts from the object's current tables, the clock moves on an hour per run)"""
    objs = case["objects"]
    terms: dict = {}

    def create(k):
        # what the environment said for an earlier object is gone before the next one is made
        for name in [name for name in os.environ if name.startswith("TUPIMAGE")]:
            del os.environ[name]
        dk = os.path.join(d, f"obj{k}")
        os.makedirs(dk, exist_ok=True)
        terms[k] = _make_terminal(TupimageTerminal, dict(case, tconfig=objs[k]), dk)

    out = {"mismatches": [], "violations": [], "stats": {}}
    try:
        if case.get("create", "upfront") == "upfront":
            for k in range(len(objs)):
                create(k)
        runs = []
        for o in case["ops"]:
            k = int(o.get("obj", 0))
            if runs and runs[-1][0] == k:
                runs[-1][1].append(o)
            else:
                runs.append((k, [o]))
        for i, (k, ops) in enumerate(runs):
            if k not in terms:
                for j in range(k + 1):          # objects come into being in their order
                    if j not in terms:
                        create(j)
            fd = run_history(_ResumingDriver(drv, terms[k].id_manager.database_file),
                             dict(case, ops=ops, start=case.get("start", dbutil.T0) + i * 3_600_000_000), terminal=terms[k])
            out["mismatches"] += [(f"object {k} ({objs[k].get('via')}): {m[0]}",) + tuple(m[1:]) for m in fd.mismatches]
            out["violations"] += [(v[0], v[1], {"object": k, "configured": objs[k], "detail": v[2]}) for v in fd.violations]
            for key, val in fd.stats.items():
                out["stats"][key] = out["stats"].get(key, 0) + val
            out["stats"][f"object-runs:object#{min(k, 3)}{'+' if k > 3 else ''}:{objs[k].get('via')}"] = \
                out["stats"].get(f"object-runs:object#{min(k, 3)}{'+' if k > 3 else ''}:{objs[k].get('via')}", 0) + 1
    finally:
        for t in terms.values():
            try:
                t.id_manager.close()
            except Exception:          # noqa: BLE001
                pass
    return out


def _run_cfgint(TupimageTerminal, drv, case: dict, d: str) -> dict:
    """see cfgint_history: one fresh terminal per layer; a refused integer is counted and leaves what was configured before"""
    from tupimage import id_manager as im
    out = {"mismatches": [], "violations": [], "stats": {}}

    def count(k, by=1):
        out["stats"][k] = out["stats"].get(k, 0) + by

    def judge(li, layer, sp, su, iid, how):
        count("ids-judged-configured-int-space")
        r = drv.ask(f"spec_member {sp[0]} {1 if sp[1] else 0} {su[0]} {su[1]} {iid}")
        if r not in ("1", "0"):
            raise RuntimeError(f"driver answered {r!r} to spec_member")
        if r == "0":
            out["violations"].append(("id-not-member-of-requested-subspace", f"layer{li}:{layer['tconfig']['via']}",
                                      {"id": iid, "space": list(sp), "subspace": list(su), "how": how, "configured": layer["tconfig"]}))

    terms = []
    try:
        for li, layer in enumerate(case["layers"]):
            for name in [name for name in os.environ if name.startswith("TUPIMAGE")]:
                del os.environ[name]
            tc = layer["tconfig"]
            via, n = tc["via"], tc["id_space"]["v"]
            dk = os.path.join(d, f"layer{li}")
            os.makedirs(dk, exist_ok=True)
            sp = layer["sp"]
            term = None
            try:
                if via == "property":
                    # ids are handed out under another configured space first; then the integer is assigned to the property
                    before = layer.get("before") or {}
                    pre = {k: v for k, v in tc.items() if k == "id_subspace"}
                    if "id_space" in before:
                        pre["id_space"] = before["id_space"]
                    term = _make_terminal(TupimageTerminal, dict(case, tconfig=dict(pre, via="kwargs")), dk)
                    terms.append(term)
                    bsp = before.get("sp", [24, True])
                    inst = term.assign_id(f":v:before-{li}", cols=1, rows=1)
                    judge(li, layer, bsp, layer["su"], inst.id, "assign_id before the integer was assigned to the property")
                    sp = bsp
                    term.id_space = n
                    sp = layer["sp"]
                else:
                    term = _make_terminal(TupimageTerminal, dict(case, tconfig=tc), dk)
                    terms.append(term)
                count(f"config-int:{via}:accepted")
                count(f"config-int-accepted:{n}")
            except (ValueError, TypeError) as ex:
                count(f"config-int:{via}:refused:{type(ex).__name__}")
                if term is None:
                    continue          # no terminal: no id is handed out
            for q in layer["reqs"]:
                su_arg = None if q["sua"]["t"] == "none" else dbutil._cfg_value(im, "id_subspace", q["sua"])
                count("config-int-request-subspace:" + q["sua"]["t"])
                inst = term.assign_id(q["d"], cols=1, rows=1, id_subspace=su_arg)
                judge(li, layer, sp, q["su"], inst.id, f"assign_id without a per-call id_space, id_space={n!r} configured via {via}")
                count("op:get")
    finally:
        for t in terms:
            try:
                t.id_manager.close()
            except Exception:          # noqa: BLE001
                pass
    return out


def _run_kept(TupimageTerminal, drv, case: dict, d: str) -> dict:
    """KEPT ImageInstance objects on one terminal with a configured (mostly tiny) subspace: an instance is obtained, its id is
    then taken away (deleted, force-bound to something else, or recycled by further requests), and the instance is used again
    through upload() / upload_and_display().  Whatever id the library works with afterwards was handed out by a request on this
    terminal, so it must be a member of the terminal's space and subspace (Spec.member) — unless the caller forced the id."""
    from PIL import Image
    os.environ["TUPIMAGE_UPLOAD_METHOD"] = "direct"        # no temporary files: nothing on the other side consumes them
    import fcntl, struct, termios
    fcntl.ioctl(0, termios.TIOCSWINSZ, struct.pack("HHHH", 24, 80, 640, 384))     # the child's pty: an 80x24 window of 8x16 cells
    term = _make_terminal(TupimageTerminal, case, d)
    (cb, u3), (b, e) = case["sp"], case["su"]
    out = {"mismatches": [], "violations": [], "stats": {}}

    def count(k):
        out["stats"][k] = out["stats"].get(k, 0) + 1

    configured = ([cb, bool(u3)], [b, e])

    def judge(idx, step, iid, what, applies=None):
        """`applies` = (space, subspace) of the request that handed the id out (default: the configured ones)"""
        (jcb, ju3), (jb, je) = applies or configured
        count("ids-judged-kept-instance")
        if not isinstance(iid, int) or isinstance(iid, bool):
            out["violations"].append(("id-not-member-of-requested-subspace", f"{idx}:{step[0]}",
                                      {"id": repr(iid), "space": [jcb, ju3], "subspace": [jb, je], "how": what + " (not a number)", "step": step}))
            return
        r = drv.ask(f"spec_member {jcb} {1 if ju3 else 0} {jb} {je} {iid}")
        if r not in ("1", "0"):
            raise RuntimeError(f"driver answered {r!r} to spec_member")
        if r == "0":
            out["violations"].append(("id-not-member-of-requested-subspace", f"{idx}:{step[0]}",
                                      {"id": iid, "space": [jcb, ju3], "subspace": [jb, je], "how": what, "step": step}))

    from tupimage import id_manager as im_
    from tupimage.tupimage_terminal import ImageInstance
    # origin[name]: the (space, subspace) of the request that handed out the id the instance carries; None = the instance has NO id
    # (never assigned, or its id was set to None / 0): the library may refuse to upload it, or hand out an id for THAT call
    origin: dict = {}

    def use(idx, step, entry, spa=None, sua=None, applies=None):
        """upload / upload_and_display of a kept instance, optionally with a per-call id_space / id_subspace"""
        nm = step[1]
        inst = insts[nm]
        kw = {}
        if spa is not None and spa["t"] != "none":
            kw["id_space"] = dbutil._cfg_value(im_, "id_space", spa)
        if sua is not None and sua["t"] != "none":
            kw["id_subspace"] = dbutil._cfg_value(im_, "id_subspace", sua)
        had_id = origin.get(nm) is not None
        if not had_id:
            count(f"kept-no-id-instance:{entry}:space-{(spa or {'t': 'none'})['t']}:subspace-{(sua or {'t': 'none'})['t']}")
        try:
            res = term.upload(inst, **kw) if entry == "upload" else term.upload_and_display(inst, **kw)
        except (ValueError, TypeError) as ex:
            if had_id and isinstance(ex, TypeError):
                raise
            if not had_id:
                count("kept-no-id-instance-refused:" + type(ex).__name__)
            raise ValueError(str(ex)) from ex
        if nm in forced:
            return
        # an instance that carried an id keeps the space / subspace of the request that handed that id out; one without an id was
        # given an id by THIS call: the per-call space / subspace if given, else the configured ones
        app = origin[nm] if had_id else (applies or configured)
        if not had_id:
            count("kept-no-id-instance-got-an-id")
            if insts[nm].id:          # the kept object itself carries the new id from now on
                origin[nm] = app
        if entry == "upload":
            judge(idx, step, res.id, "upload(kept instance) returned" + ("" if had_id else " for an instance without an id"), app)
            if had_id or insts[nm].id:
                judge(idx, step, insts[nm].id, "kept instance after upload()", app)
        else:
            judge(idx, step, res.image_id, "upload_and_display(kept instance) placeholder" + ("" if had_id else " for an instance without an id"), app)

    def img(k):
        im_ = Image.new("RGB", (3, 2))
        im_.putdata([((k * 7 + j) % 256, (k >> 8) % 256, j) for j in range(6)])
        return im_

    insts: dict = {}
    forced: set = set()
    try:
        for idx, step in enumerate(case["steps"]):
            op = step[0]
            count("kept:" + op)
            try:
                if op == "assign":
                    insts[step[1]] = term.assign_id(img(step[2]))
                    origin[step[1]] = configured
                    judge(idx, step, insts[step[1]].id, "assign_id")
                elif op == "force":       # the caller picks the id: not judged, and neither is later use of that instance
                    insts[step[1]] = term.assign_id(img(step[2]), force_id=step[3])
                    forced.add(step[1])
                    origin[step[1]] = configured
                elif op == "noid":        # an instance that never had an id: ["noid", name, k, "build"|"direct", None|0]
                    bi = term.build_image_instance(img(step[2]), id=step[4], cols=1, rows=1)
                    if step[3] == "direct":
                        bi = ImageInstance(path=bi.path, mtime=bi.mtime, cols=bi.cols, rows=bi.rows, id=step[4], image=bi.image)
                    insts[step[1]] = bi
                    origin[step[1]] = None
                    forced.discard(step[1])
                elif op == "strip" and step[1] in insts:      # the id of a kept instance is taken off the object: ["strip", name, None|0]
                    insts[step[1]].id = step[2]
                    origin[step[1]] = None
                    forced.discard(step[1])
                elif op == "clone" and step[2] in insts:      # ["clone", name, source, None|0]: a copy of a kept instance without its id
                    insts[step[1]] = insts[step[2]].clone_with(id=step[3])
                    origin[step[1]] = None
                    forced.discard(step[1])
                elif op == "uploadx" and step[1] in insts:    # ["uploadx", name, "upload"|"display", space form, subspace form, space, subspace]
                    use(idx, step, step[2], step[3], step[4], (step[5], step[6]))
                elif op == "del" and step[1] in insts and insts[step[1]].id:
                    term.id_manager.del_id(insts[step[1]].id)
                elif op == "set" and step[1] in insts and insts[step[1]].id:
                    term.id_manager.set_id(insts[step[1]].id, step[2])
                elif op == "fill":
                    for j in range(step[1]):
                        r = term.assign_id(img(10_000 + 100 * idx + j))
                        judge(idx, step, r.id, "assign_id")
                elif op in ("upload", "display") and step[1] in insts:
                    use(idx, step, op)
            except (ValueError, RuntimeError, FileNotFoundError) as ex:
                count("kept-exc:" + type(ex).__name__ + ":" + str(ex)[:60])
    finally:
        term.id_manager.close()
    return out


def _call_forms(rng, sp, su, subs):
    """per-call id_space / id_subspace of an upload: each either left out or given (mostly ANOTHER space / subspace than the
    configured `sp` / `su`) as object, text or int; returns the two forms and the space / subspace that APPLY to the call"""
    spa = sua = {"t": "none"}
    asp, asu = sp, su
    r = rng.random()
    if r < 0.8:
        asp = rng.choice([s_ for s_ in SPACES if tuple(s_) != tuple(sp)]) if rng.random() < 0.85 else sp
        spa = _space_form(rng, asp)
    if r >= 0.8 or rng.random() < 0.6:
        asu = rng.choice([u for u in subs if tuple(u) != tuple(su)]) if rng.random() < 0.85 else su
        sua = _sub_form(rng, asu)
    return spa, sua, [asp[0], bool(asp[1])], list(asu)


def kept_history(rng, sp, su, max_ids, subs=None) -> dict:
    """see _run_kept. Besides kept instances whose id is taken away in the DATABASE, instances WITHOUT an id: built with
    build_image_instance(id=None / 0) or ImageInstance(...) directly, a clone of a kept one with id=None / 0, or a kept one whose
    `.id` was set to None / 0 - passed to upload / upload_and_display with and without a per-call id_space / id_subspace (object,
    text, int) that mostly differ from the configured ones. The library may refuse such a call (counted); an id it hands out
    must be a member of the space and subspace that apply to the call."""
    subs = subs or NEAR
    names = [f"i{j}" for j in range(rng.randint(1, 3))]
    steps = []
    k = 0
    for nm in names:
        k += 1
        steps.append(["assign", nm, k])
    noid = []

    def new_noid():
        nonlocal k
        k += 1
        nm = f"u{len(noid)}"
        r = rng.random()
        if r < 0.5 or not names:
            steps.append(["noid", nm, k + 200, rng.choice(["build", "direct"]), rng.choice([None, 0])])
        elif r < 0.75:
            steps.append(["clone", nm, rng.choice(names), rng.choice([None, 0])])
        else:
            nm = rng.choice(names)
            steps.append(["strip", nm, rng.choice([None, 0])])
        if nm not in noid:
            noid.append(nm)
        if nm not in names:
            names.append(nm)
        return nm

    def call(nm):
        if rng.random() < 0.8:
            spa, sua, asp, asu = _call_forms(rng, sp, su, subs)
            steps.append(["uploadx", nm, rng.choice(["upload", "display"]), spa, sua, asp, asu])
        else:
            steps.append([rng.choice(["upload", "display"]), nm])

    call(new_noid())
    for _ in range(rng.randint(2, 6)):
        nm = rng.choice(names)
        r = rng.random()
        if r < 0.25:
            steps.append(["del", nm])
        elif r < 0.45:
            steps.append(["set", nm, f"other-{rng.randrange(1000)}"])
        elif r < 0.65:
            steps.append(["fill", rng.choice([1, 2, 3, 6])])
        elif r < 0.8:
            call(new_noid())
        else:
            k += 1
            steps.append(["assign", nm + "b", k + 50])
            names.append(nm + "b")
        if rng.random() < 0.3:
            call(rng.choice(names))
        else:
            steps.append([rng.choice(["upload", "upload", "display"]), rng.choice(names)])
    for nm in names:
        if nm in noid or rng.random() < 0.25:
            call(nm)
        else:
            steps.append([rng.choice(["upload", "display"]), nm])
    tc = {"via": rng.choice(CFG_VIAS), "id_space": _space_form(rng, sp, allow_int=False), "id_subspace": _sub_form(rng, su)}
    return {"via": "terminal", "kept": True, "name": "kept-instance", "profile": "kept", "sp": list(sp), "su": list(su), "max_ids": max_ids,
            "seed": rng.randrange(1 << 30), "tconfig": tc, "steps": steps, "ops": []}


def _make_terminal(TupimageTerminal, case: dict, d: str):
    """the terminal of a history; case["tconfig"] = {"via": layer, "id_space": form?, "id_subspace": form?} configures the default
    space / subspace through one of the configuration layers (forms: {"t":"obj","v":[..]} | {"t":"str"|"int","v":..})"""
    from tupimage import id_manager as im
    from tupimage.tupimage_terminal import TupimageConfig
    tc = case.get("tconfig") or {}
    via = tc.get("via", "kwargs")
    vals = {k: dbutil._cfg_value(im, k, tc[k]) for k in ("id_space", "id_subspace") if k in tc}
    base = dict(id_database=os.path.join(d, "ids.db"), max_ids_per_subspace=int(case["max_ids"]), num_tmux_layers=0)
    if via == "kwargs":
        return TupimageTerminal(config="DEFAULT", **base, **vals)
    if via == "overrides":
        return TupimageTerminal(config="DEFAULT", config_overrides=dict(vals), **base)
    if via == "env":
        for k, v in vals.items():
            os.environ["TUPIMAGE_" + k.upper()] = str(v)
        return TupimageTerminal(config="DEFAULT", **base)
    if via == "toml":
        path = os.path.join(d, "config.toml")
        with open(path, "w") as f:
            for k, v in vals.items():
                f.write(_toml_line(k, v))
        return TupimageTerminal(config=path, **base)
    if via == "property":
        term = TupimageTerminal(config="DEFAULT", **base)
        for k, v in vals.items():
            setattr(term, k, v)
        return term
    if via == "cfgobj":
        # a TupimageConfig built in code keeps whatever it was given (the dataclass does not normalise)
        return TupimageTerminal(config=TupimageConfig(**vals), **base)
    if via in ("cfgdict", "cfgkw", "tomlstr"):
        # a TupimageConfig object that was told the values through its own override methods, then handed to the terminal
        cfg = TupimageConfig()
        if via == "cfgdict":
            cfg.override_from_dict(dict(vals))
        elif via == "cfgkw":
            cfg.override(**vals)
        else:
            cfg.override_from_toml_string("".join(_toml_line(k, v) for k, v in vals.items()))
        return TupimageTerminal(config=cfg, **base)
    raise ValueError(via)


def _toml_line(k, v) -> str:
    """a toml assignment: text quoted, an integer as a native toml integer"""
    return f"{k} = {v}\n" if type(v) is int else f'{k} = "{v}"\n'


def run_in_pty(case: dict) -> dict:
    fdo, out_path = tempfile.mkstemp(prefix="vc01res")
    os.close(fdo)
    pid, master = pty.fork()
    if pid == 0:
        code = 0
        try:
            _child(case, out_path)
        except BaseException:          # noqa: BLE001
            code = 3
        os._exit(code)
    try:
        while True:
            try:
                if not os.read(master, 65536):
                    break
            except OSError:
                break
    finally:
        os.close(master)
        _, status = os.waitpid(pid, 0)
    try:
        with open(out_path) as f:
            txt = f.read()
        res = json.loads(txt) if txt else {"error": f"pty child wrote nothing (status {status})"}
    finally:
        os.unlink(out_path)
    return res


class _FD:
    pass


def check_case(ctx: Ctx, case: dict):
    if case.get("via") == "terminal":
        res = run_in_pty(case)
        if res.get("error"):
            from .common import ToolFailure
            raise ToolFailure("pty-hosted TupimageTerminal run failed: " + res["error"])
        fd = _FD()
        fd.mismatches = [tuple(m) for m in res["mismatches"]]
        fd.violations = [tuple(v) for v in res["violations"]]
        fd.stats = res["stats"]
        ctx.count("assign_id-gets", fd.stats.get("op:get", 0))
        if case.get("objects"):
            vs = [o.get("via") for o in case["objects"]]
            ctx.count(f"objects-in-one-process:{len(vs)}")
            ctx.count("objects-created:" + case.get("create", "upfront"))
            for a, b in sorted({(vs[i], vs[j]) for i in range(len(vs)) for j in range(i + 1, len(vs))}):
                ctx.count(f"object-channels:{a}->{b}")
        report(ctx, dict(case, no_minimise=True), fd, PROP)
        return fd
    fd = run_history(ctx.driver("drv_db"), case)
    ctx.count("ids-judged", sum(v for k, v in fd.stats.items() if k.startswith("path:") and k != "path:exhausted"))
    report(ctx, case, fd, PROP, do_minimise=not case.get("minimised"))
    return fd


def cases(ctx: Ctx):
    rng = ctx.rng
    quick = ctx.quick
    subs = [(b, e) for b in range(256) for e in range(b + 1, 257) if e != 1]
    bsubs = boundary_subs()
    # 0. several terminal objects in ONE process, each configured through its own channel with its own space / subspace: every ordered
    #    pair of channels (earlier object -> later object); first, because it is the only family with more than one object per process
    near = list(NEAR)
    # 0a. the configured id_space as a native INTEGER through every layer that can carry one: every (layer, integer) pair, one fresh
    #     terminal each (short: a handful of requests per terminal), a refusal by the layer counted
    for _ in range(1 if quick else 4):
        pairs = [(via, n) for via in INT_VIAS for n in INT_NAMES]
        rng.shuffle(pairs)
        for i in range(0, len(pairs), 8):
            yield cfgint_history(rng, pairs[i:i + 8], near + rng.sample(subs, 4), rng.choice([1024, 1024, 2]))
    for vias in channel_sequences(rng, 10 if quick else 60):
        yield objects_history(rng, vias, near + rng.sample(subs, 4), rng.choice([1024, 1024, 2]))
    # 0b. kept ImageInstance objects whose id was taken away (in the database, or off the object: instances WITHOUT an id), used again
    #     on a terminal with a configured subspace, with and without a per-call id_space / id_subspace
    for sp in SPACES:
        for su in rng.sample(near, 2 if quick else 6) + [rng.choice(subs)]:
            yield kept_history(rng, sp, su, rng.choice([1024, 2, 1]), near + rng.sample(subs, 3))
    # 1. one request per (space, boundary subspace), both enumerable and large path, several max_ids
    for max_ids in (1024, 1, 10**6):
        for sp in SPACES:
            yield sweep_history(rng, [(sp, su) for su in bsubs], max_ids, 1 if max_ids != 1024 else 2)
    # 1b. same description bound just outside the requested subspace
    edge = [(1, 256), (0, 255), (1, 255), (2, 256), (0, 2), (1, 2), (254, 256), (127, 129), (5, 9)]
    yield outside_history(rng, [(sp, edge) for sp in SPACES], 1024)
    yield outside_history(rng, [(sp, rng.sample(subs, 12)) for sp in SPACES], rng.choice([2, 1024]))
    # 2. fill states: every enumerable boundary subspace of the 8-bit spaces filled past full (recycling)
    for sp in [(0, True), (8, False)]:
        for su in [(0, 2), (1, 2), (255, 256), (0, 3), (1, 4), (254, 256), (127, 129), (2, 5), (0, 4)]:
            size = (su[1] - 1) if su[0] == 0 else (su[1] - su[0])
            yield fill_history(rng, sp, su, rng.choice([size, size + 1, 1024]), size)
    yield fill_history(rng, (8, False), (0, 256), 1024, 255)
    yield fill_history(rng, (0, True), (1, 256), 255, 255)
    yield fill_history(rng, (8, True), (255, 256), 1024, 255)
    if not quick:
        yield fill_history(rng, (8, True), (1, 5), 1024, 1020)
        yield fill_history(rng, (8, True), (0, 5), 1020, 1020)
    # 3. TupimageTerminal.assign_id in a pty child
    yield sweep_history(rng, [(sp, su) for sp in SPACES for su in rng.sample(bsubs, 6)], 1024, 2, via="terminal")
    yield fill_history(rng, (8, False), (1, 4), 1024, 3, via="terminal")
    yield fill_history(rng, (0, True), (254, 256), 1, 2, via="terminal")
    yield sweep_history(rng, [(sp, su) for sp in SPACES for su in rng.sample(subs, 8)], 2, 1, via="terminal")
    # 3b. one long-lived terminal, configured non-default space/subspace, every argument form, defaults changed in between
    for _ in range(6 if quick else 40):
        yield forms_history(rng, near + rng.sample(subs, 4), rng.choice([8, 14, 24]))
    # 4. random subspaces of every space (thorough: all 5 x 32 895), sizes of every class; then mixed C02-style histories
    todo = [(sp, su) for sp in SPACES for su in (rng.sample(subs, 300) if quick else subs)]
    rng.shuffle(todo)
    k = 0
    while True:
        r = rng.random()
        if todo and r < 0.5:
            chunk, todo = todo[:150], todo[150:]
            yield sweep_history(rng, chunk, rng.choice([1, 3, 1024, 10**6]), 1)
        elif r < 0.62:
            sp = rng.choice([(0, True), (8, False)])
            b = rng.randrange(0, 250)
            w = rng.randint(1, 5)
            su = (b, b + w) if (b, b + w) != (0, 1) else (0, 2)
            size = (su[1] - 1) if su[0] == 0 else (su[1] - su[0])
            yield fill_history(rng, sp, su, rng.choice([1, 2, size, size + 1, 1024]), size)
        elif r < 0.70:
            k += 1
            yield dict(gen02(rng, "collide", rng.randint(5, 60)), profile="collide")
        elif r < 0.72:
            yield forms_history(rng, rng.sample(subs, 6) + [(0, 256), (1, 2)], rng.choice([6, 14, 30]), rng.choice([1, 2, 1024]))
        elif r < 0.73:
            yield objects_history(rng, [rng.choice(CFG_VIAS) for _ in range(rng.randint(2, 5))], rng.sample(subs, 6) + [(0, 256), (1, 2)],
                                  rng.choice([1, 2, 1024]))
        elif r < 0.75 and k % 3 == 0:
            k += 1
            yield sweep_history(rng, [(sp, su) for sp in SPACES for su in rng.sample(subs, 4)], rng.choice([1, 1024]), 1, via="terminal")
        elif r < 0.78 and not quick:
            yield gen02(rng, "bulk255", rng.randint(5, 40))
        else:
            yield gen02(rng, rng.choice(["small", "boundary", "mixed", "mixed"]), rng.choice([5, 20, 60, 150]))


def run(ctx: Ctx):
    ctx.rule = ("cases = histories; every id returned by get_id / assign_id is judged by Spec.member: one request per (space, "
                "subspace) over boundary subspaces x max_ids in {1, 1024, 10^6} and random (thorough: all 5 x 32 895) subspaces; "
                "subspaces filled past full (recycled ids) with hits/deletes/overlapping requests; large-path histories with steered "
                "collisions and clean-ups; TupimageTerminal.assign_id in a pty child, incl. one long-lived terminal with a configured non-default "
                "space/subspace (object / text alias, through keyword, config_overrides, environment, config file, property, TupimageConfig), "
                "explicit arguments in every accepted form (object, text alias, int) mixed with default (None) calls and property changes; "
                "SEVERAL terminal objects (2-5) created one after another in one process, each with its own database and its own default "
                "space / subspace (pairwise different spaces, disjoint subspaces, some unconfigured) through its own channel - every ordered "
                "pair of the six channels - created up front or lazily, asked in turns mostly without per-call arguments, properties of one "
                "changed in between: every id judged against the configuration of the object that was asked; "
                "the configured id_space as a NATIVE INTEGER (8, 16, 24, 32, 256) through every layer that can carry one (keyword, "
                "config_overrides, property after ids were handed out, TupimageConfig built in code / told through override_from_dict / "
                "override / override_from_toml_string, config file with a toml integer), every (layer, integer) pair: a refusal is counted, "
                "an accepted integer must yield ids of the space it NAMES (IDSpace.from_string of its decimal text); "
                "kept ImageInstance objects whose id was taken away in the database or off the object (instances WITHOUT an id: built "
                "with id None / 0, cloned, `.id` reset) passed to upload / upload_and_display with and without a per-call id_space / "
                "id_subspace (object, text, int) other than the configured ones: refused (counted) or the id is a member of what applies "
                "to that call; "
                "mixed histories alternate between 1-3 IDManager objects on the one file. distinct = canonical JSON; non-trivial = "
                "history with at least one returned id")
    run_corpus(ctx, PROP, check_case)
    budget = ctx.budget_s * (0.72 if ctx.quick else 0.85)
    for c in cases(ctx):
        if ctx.elapsed() > budget or len(ctx.violations) + len(ctx.mismatches) >= 40:
            break
        check_case(ctx, c)
        ctx.case(c, nontrivial=any(o.get("op") == "get" for o in c["ops"]) or bool(c.get("cfgint")))
        ctx.count("profile:" + c.get("profile", "?") + ("/terminal" if c.get("via") == "terminal" else ""))
        ctx.count(f"max_ids:{c['max_ids']}")
    ctx.assumptions += [
        "'whatever the database already contains' = whatever history of library operations produced it (DbInv)",
        "assign_id is exercised with named (non-file) images and explicit cols/rows, so PIL and the filesystem are not involved",
    ]
