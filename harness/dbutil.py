"""Shared helpers for the database-backed properties (C01, C02, C04; reused by C03 / C12).

Part 1 — plumbing that knows nothing about any property:
  * `ControlledClock`      replaces the name `datetime` inside `tupimage.id_manager`
  * `ScriptedSecrets`      replaces the name `secrets` inside `tupimage.id_manager` (all randomness
                           of the implementation then comes from a seeded `random.Random`)
  * `SqlTrace`             statement capture through `sqlite3.Connection.set_trace_callback`
  * `dump_tables` / `enc_*` direct SELECT of the six tables on a *second* connection + wire encoding
  * `Session`              temp database file + IDManager + second connection + patches, as a
                           context manager
Part 2 — the history runner shared by c01/c02/c04 (`run_history`): executes a JSON history on the
real code, mirrors every step into the Lean model session (`drv_db`), compares table dumps after
every step (K) and evaluates the independent specification on the implementation's dumps (F).

Times on the wire are integer microseconds since `datetime.min`.
"""
from __future__ import annotations

import os
import random
import re
import shutil
import sqlite3
import tempfile
from datetime import datetime as _real_datetime, timedelta

SPACES = [(0, True), (8, True), (24, True), (8, False), (24, False)]     # IDSpace.all_values() order
NS = ["ids_8bit_diacritic", "ids_16bit", "ids_32bit", "ids_8bit", "ids_24bit"]
EPOCH = _real_datetime.min
T0 = 63_839_000_000 * 1_000_000        # 2024-01-..: default start of the controlled clock (µs)


# ------------------------------------------------------------------------------------------------
# time
# ------------------------------------------------------------------------------------------------
def to_us(dt) -> int:
    d = dt - EPOCH
    return (d.days * 86400 + d.seconds) * 1_000_000 + d.microseconds


def from_us(n: int):
    return EPOCH + timedelta(microseconds=n)


def iso_to_us(s) -> int:
    if not isinstance(s, str):
        raise ValueError(f"timestamp column holds {type(s).__name__} {s!r}, expected ISO-8601 text")
    return to_us(_real_datetime.fromisoformat(s))


class ControlledClock:
    """`install(module)` rebinds `module.datetime` to a subclass whose `now()` is `self.us`."""

    def __init__(self, start_us: int = T0):
        self.us = start_us
        self.calls = 0
        clock = self

        class datetime(_real_datetime):          # noqa: N801  (must look like the real class)
            @classmethod
            def now(cls, tz=None):
                clock.calls += 1
                return cls.fromisoformat(from_us(clock.us).isoformat())

        self.cls = datetime
        self._saved = None

    def install(self, module):
        self._saved = (module, module.datetime)
        module.datetime = self.cls

    def uninstall(self):
        if self._saved:
            self._saved[0].datetime = self._saved[1]
            self._saved = None

    def advance(self, delta_us: int):
        self.us = max(1_000_000 * 86400 * 366 * 1000, self.us + delta_us)   # stay in 4-digit years >= 1000


# ------------------------------------------------------------------------------------------------
# randomness of the implementation
# ------------------------------------------------------------------------------------------------
class ScriptedSecrets:
    """Stands in for the `secrets` module inside tupimage.id_manager."""

    def __init__(self, seed):
        self.rng = random.Random(seed)
        self.log = []

    def reseed(self, seed):
        self.rng = random.Random(seed)

    def randbelow(self, n):
        d = self.rng.randrange(n)
        self.log.append(("randbelow", n, d))
        return d

    def choice(self, seq):
        x = seq[self.rng.randrange(len(seq))]
        self.log.append(("choice", len(seq), x))
        return x

    def token_hex(self, n=16):
        return "%0*x" % (2 * n, self.rng.getrandbits(8 * n))


# ------------------------------------------------------------------------------------------------
# SQL trace
# ------------------------------------------------------------------------------------------------
class SqlTrace:
    """Collects the statements a connection executes (parameters expanded by sqlite).
    `hook(stmt)` (optional) is called *before* each statement runs — the C03 interleaver and the
    C12 crash injector plug in there."""

    def __init__(self, conn: sqlite3.Connection):
        self.conn = conn
        self.stmts: list[str] = []
        self.hook = None
        conn.set_trace_callback(self._cb)

    def _cb(self, stmt: str):
        s = " ".join(stmt.split())
        self.stmts.append(s)
        if self.hook is not None:
            self.hook(s)

    def take(self) -> list[str]:
        out, self.stmts = self.stmts, []
        return out

    def close(self):
        self.conn.set_trace_callback(None)


_RX_SAMPLE = re.compile(r"^SELECT id FROM (\w+) WHERE id=(-?\d+)$")
_RX_DELETE_IN = re.compile(r"^DELETE FROM (\w+) WHERE id IN")


def blocks_of(stmts: list[str]) -> list[list[str]]:
    """Group a statement trace into atomic blocks: BEGIN…COMMIT/ROLLBACK groups and single
    autocommit statements."""
    out, cur = [], None
    for s in stmts:
        u = s.upper()
        if u.startswith("BEGIN"):
            cur = [s]
        elif cur is not None:
            cur.append(s)
            if u.startswith("COMMIT") or u.startswith("ROLLBACK") or u.startswith("END"):
                out.append(cur)
                cur = None
        else:
            out.append([s])
    if cur is not None:
        out.append(cur)
    return out


def get_id_trace_choices(stmts: list[str]):
    """From the trace of one `get_id` call: the candidate ids of each sampling round and the
    number of internal clean-ups (statements after the first block)."""
    blocks = blocks_of(stmts)
    rounds, cleanups = [], 0
    for b in blocks[1:]:
        if len(b) > 1 or b[0].upper().startswith("BEGIN"):
            samples = [int(m.group(2)) for s in b if (m := _RX_SAMPLE.match(s))]
            rounds.append(samples)
        elif _RX_DELETE_IN.match(b[0]):
            cleanups += 1
    return rounds, cleanups, blocks


# ------------------------------------------------------------------------------------------------
# dumps and wire encoding
# ------------------------------------------------------------------------------------------------
def hxs(s: str) -> str:
    b = s.encode("utf-8")
    return b.hex() if b else "-"


def dump_tables(conn: sqlite3.Connection) -> dict:
    """{'ids': [rows of the 5 tables, each [(id, desc, atime_us)] sorted by id], 'up': [(id, term,
    desc, size, time_us)] sorted by (id, term)} read by direct SELECT."""
    ids = []
    for ns in NS:
        rows = conn.execute(f"SELECT id, description, atime FROM {ns} ORDER BY id").fetchall()
        ids.append([(r[0], r[1], iso_to_us(r[2])) for r in rows])
    up = conn.execute("SELECT id, terminal, description, size, upload_time FROM upload").fetchall()
    up = sorted(((r[0], r[1], r[2], r[3], iso_to_us(r[4])) for r in up), key=lambda r: (r[0], r[1]))
    return {"ids": ids, "up": up}


_hexcache: dict[str, str] = {}


def _hx(s: str) -> str:
    h = _hexcache.get(s)
    if h is None:
        if len(_hexcache) > 200000:
            _hexcache.clear()
        h = _hexcache[s] = hxs(s)
    return h


def enc_table(rows) -> str:
    return ",".join(f"{i}:{_hx(d)}:{a}" for (i, d, a) in rows) or "-"


def enc_uploads(rows) -> str:
    return ",".join(f"{i}:{_hx(t)}:{_hx(d)}:{z}:{tm}" for (i, t, d, z, tm) in rows) or "-"


def enc_dump(d: dict) -> str:
    return " ".join([enc_table(t) for t in d["ids"]] + [enc_uploads(d["up"])])


def sp_tok(sp) -> str:
    return "* 0" if sp is None else f"{sp[0]} {1 if sp[1] else 0}"


# ------------------------------------------------------------------------------------------------
# session
# ------------------------------------------------------------------------------------------------
def _tmp_root():
    return "/dev/shm" if os.path.isdir("/dev/shm") and os.access("/dev/shm", os.W_OK) else None


class Session:
    """A fresh database file with an `IDManager` on it, a second read connection, the controlled
    clock, scripted randomness and a statement trace.

        with Session(max_ids=3, seed=7) as s:
            s.clock.us += 1;  s.man.get_id(...);  s.trace.take();  s.dump()
    """

    def __init__(self, max_ids: int = 1024, seed=0, start_us: int = T0, trace: bool = True):
        from tupimage import id_manager as im
        self.im = im
        self.dir = tempfile.mkdtemp(prefix="vdb", dir=_tmp_root())
        self.path = os.path.join(self.dir, "ids.db")
        self.clock = ControlledClock(start_us)
        self.secrets = ScriptedSecrets(seed)
        self._saved_secrets = im.secrets
        self.clock.install(im)
        im.secrets = self.secrets
        try:
            self.man = im.IDManager(self.path, max_ids_per_subspace=max_ids)
            self.conn2 = sqlite3.connect(self.path, isolation_level=None)
            self.trace = SqlTrace(self.man.conn) if trace else None
        except Exception:
            self._unpatch()
            raise

    def space(self, sp):
        return self.im.IDSpace(sp[0], sp[1])

    def sub(self, su):
        return self.im.IDSubspace(su[0], su[1])

    def dump(self) -> dict:
        return dump_tables(self.conn2)

    def bulk_insert(self, ns_index: int, rows):
        """rows [(id, desc, atime_us)] inserted by plain SQL (for pre-filling big subspaces)."""
        self.conn2.execute("BEGIN")
        self.conn2.executemany(
            f"INSERT INTO {NS[ns_index]} (id, description, atime) VALUES (?, ?, ?)",
            [(i, d, from_us(a).isoformat()) for (i, d, a) in rows],
        )
        self.conn2.execute("COMMIT")

    def _unpatch(self):
        self.clock.uninstall()
        self.im.secrets = self._saved_secrets

    def close(self):
        try:
            if self.trace:
                self.trace.close()
            self.man.close()
            self.conn2.close()
        finally:
            self._unpatch()
            shutil.rmtree(self.dir, ignore_errors=True)

    def __enter__(self):
        return self

    def __exit__(self, *a):
        self.close()


# ================================================================================================
# Part 2 — history runner (C01 / C02 / C04)
# ================================================================================================
# A history is {"max_ids": n, "seed": k, "start": us?, "via": "idman"|"terminal", "ops": [op…]}.
# Every op carries a stable label "n" (so that references survive minimisation) and "dt": clock
# advance in µs *before* the op (may be 0 or negative). Ops:
#   get      sp su d                       IDManager.get_id (or TupimageTerminal.assign_id)
#   set      id d            (id literal or {"ref": label})        set_id
#   del      id                                                    del_id
#   cleanup  sp su max|null                                        cleanup
#   get_all  sp|null su ; count sp|null su ; get_info id
#   bulk     sp su fill(0..1) tie(bool) [limit]   pre-fill by direct SQL (mirrored with `bulk`)
#   mark     id term size time(null|offset µs relative to the clock)    mark_uploaded
#   needs    id term mu mb mt      needs_uploading ; upinfo id term ; cleanup_uploads keep
#   upinfos  id                    get_upload_infos (the list of get_upload_info over the terminals that hold a record)
#   marks    ids{"hi":[a,b],"lo":[c,d]} term size step     one mark_uploaded per id (h<<24)|l, h in a..b-1, l in c..d-1, the clock
#            advancing `step` µs before each; mirrored call by call (model `mark`, ghost arrival), tables compared once at the end
#   collide  p      probability that gen_random_id is steered onto a taken id for the next gets
# Every op that calls the IDManager may carry "who": k (default 0): the call is made through the k-th IDManager
# OBJECT opened on the same database file (another process of the session, seen sequentially). The model and the
# specification are about the database, so they do not know who called.
# Terminal histories (C01, `terminal=`): `get` may carry "spa" / "sua" = the FORM in which the space / subspace is
# passed to assign_id: {"t":"none"} (rely on the configured default), {"t":"obj"}, {"t":"str","v":"8bit"},
# {"t":"int","v":8}; "sp"/"su" always name the space/subspace that APPLIES to the call (the oracle's view).
#   setcfg  id_space? id_subspace?   ({"t":"obj","v":[..]} | {"t":"str","v":".."})   terminal.id_space = … / .id_subspace = …
C01_CLAUSES = {"id-not-member-of-requested-subspace"}
C01_PREFIXES = ("row-outside-its-space", "table-keys-not-unique")
C04_CLAUSES = {"no-upload-although-terminal-may-have-lost-image", "reupload-although-image-still-there",
               "upload-op-changed-id-tables"}


def clause_property(cl: str) -> str:
    if cl in C01_CLAUSES or cl.startswith(C01_PREFIXES):
        return "C01"
    if cl in C04_CLAUSES or cl.startswith("equal-upload-timestamps"):
        return "C04"
    return "C02"


class Findings:
    def __init__(self):
        self.mismatches = []      # (what, step_label, impl, model)
        self.violations = []      # (clause, step_label, detail)
        self.stats = {}

    def count(self, k, n=1):
        self.stats[k] = self.stats.get(k, 0) + n

    def keys(self):
        return {("K", m[0]) for m in self.mismatches} | {("F", v[0]) for v in self.violations}


def _exc_kind(e: BaseException) -> str:
    if isinstance(e, ValueError):
        return "valueError"
    if isinstance(e, RuntimeError):
        return "runtimeError"
    if isinstance(e, KeyError):
        return "keyError"
    return type(e).__name__


def _member_ids(im, sp, su, limit):
    space = im.IDSpace(sp[0], sp[1])
    sub = im.IDSubspace(su[0], su[1])
    out = []
    for i in space.all_ids(sub):
        out.append(i)
        if len(out) >= limit:
            break
    return out


def run_history(drv, case: dict, *, terminal=None, stop_on_first: bool = False) -> Findings:
    """Run one history on the real code and on the model session of `drv` (a common.Driver on
    drv_db). `terminal`: a TupimageTerminal whose id_manager is to be used (C01's assign_id path);
    then `get` goes through `terminal.assign_id`."""
    f = Findings()
    max_ids = int(case.get("max_ids", 1024))
    seed = case.get("seed", 0)
    ops = case["ops"]
    results: dict = {}           # op label -> returned id
    collide_p = 0.0

    def ask(line):
        r = drv.ask(line)
        if r == "bad":
            raise RuntimeError(f"driver rejected request: {line[:200]}")
        return r

    if terminal is not None:
        sess = _TerminalSession(terminal, seed, case.get("start", T0))
    else:
        sess = Session(max_ids=max_ids, seed=seed, start_us=case.get("start", T0))
    with sess as s:
        im = s.im
        # further IDManager objects on the same file ("who": 1, 2, …), each with its own statement trace
        mans, traces = [s.man], [s.trace]
        nwho = 1 + max([int(o.get("who", 0)) for o in ops] or [0])
        if nwho > 1 and terminal is not None:
            raise ValueError("'who' is not supported in terminal histories")
        ask(f"reset {max_ids}")
        before = s.dump()
        ask("impl " + enc_dump(before))
        ask("impl " + enc_dump(before))
        # steer gen_random_id onto taken ids with probability collide_p (still a genuine output)
        orig_gen = im.IDSpace.gen_random_id

        def steered(self_space, subspace=im.IDSubspace()):
            cand = orig_gen(self_space, subspace)
            if collide_p > 0 and s.secrets.rng.random() < collide_p:
                ns = self_space.namespace_name()
                for _ in range(48):
                    if s.conn2.execute(f"SELECT 1 FROM {ns} WHERE id=?", (cand,)).fetchone():
                        return cand
                    cand = orig_gen(self_space, subspace)
            return cand

        im.IDSpace.gen_random_id = steered
        try:
            for _k in range(1, nwho):
                m2 = im.IDManager(s.path, max_ids_per_subspace=max_ids)
                mans.append(m2)
                traces.append(SqlTrace(m2.conn))
            for op in ops:
                lab = op.get("n")
                kind = op["op"]
                f.count("op:" + kind)
                who = int(op.get("who", 0))
                man, trace = mans[who], traces[who]
                if who:
                    f.count("op-by-other-manager")
                s.clock.advance(int(op.get("dt", 0)))
                now = s.clock.us
                s.secrets.reseed(f"{seed}:{lab}")
                if kind == "collide":
                    collide_p = float(op["p"])
                    continue

                def ref(x):
                    if isinstance(x, dict):
                        return results.get(x["ref"])
                    return x

                def viol(clauses: str, detail=None):
                    if clauses != "ok":
                        for cl in clauses.split(","):
                            f.violations.append((cl, lab, detail))

                def mism(what, impl, model):
                    f.mismatches.append((what, lab, impl, model))

                def sync(after):
                    """K on the tables + shift the implementation dump into the driver."""
                    enc = enc_dump(after)
                    model = ask("dump")
                    if model != enc:
                        mism("tables-after-" + kind, _dump_diff(enc, model, True), _dump_diff(enc, model, False))
                    ask("impl " + enc)
                    viol(ask("spec_wf"))

                for _t in traces:
                    if _t:
                        _t.take()
                if kind == "setcfg":
                    # terminal histories: change the configured default space / subspace through the public properties
                    for name in ("id_space", "id_subspace"):
                        if name in op:
                            setattr(terminal, name, _cfg_value(im, name, op[name]))
                            f.count("setcfg:" + name + ":" + op[name]["t"])
                    continue
                # ------------------------------------------------------------------ get
                if kind == "get":
                    sp, su, d = op["sp"], op["su"], op["d"]
                    exc = None
                    spi = SPACES.index((sp[0], bool(sp[1])))
                    # per-clean-up removed sets: snapshot the table's ids (second connection) right
                    # before each internal DELETE statement and at the next statement after it
                    snaps, pending = [], [None]

                    def hook(stmt, _ns=NS[spi]):
                        if pending[0] is not None:
                            post = {r[0] for r in s.conn2.execute(f"SELECT id FROM {_ns}")}
                            snaps.append(sorted(pending[0] - post))
                            pending[0] = None
                        if _RX_DELETE_IN.match(stmt):
                            pending[0] = {r[0] for r in s.conn2.execute(f"SELECT id FROM {_ns}")}

                    if trace:
                        trace.hook = hook
                    try:
                        if terminal is not None:
                            sp_arg, su_arg = s.space(sp), s.sub(su)
                            if op.get("strform"):
                                # the textual forms the configuration layers and the CLI use (`str(IDSpace)`, "begin:end")
                                sp_arg, su_arg = str(sp_arg), str(su_arg)
                            if "spa" in op:
                                sp_arg = _arg_form(op["spa"], sp_arg)
                                f.count("assign_id-space-form:" + op["spa"]["t"])
                            if "sua" in op:
                                su_arg = _arg_form(op["sua"], su_arg)
                                f.count("assign_id-subspace-form:" + op["sua"]["t"])
                            inst = terminal.assign_id(d, cols=1, rows=1, id_space=sp_arg, id_subspace=su_arg)
                            rid = inst.id
                            d = inst.get_description()
                        else:
                            rid = man.get_id(d, s.space(sp), subspace=s.sub(su))
                    except Exception as e:          # noqa: BLE001
                        exc, rid = _exc_kind(e), None
                    finally:
                        if trace:
                            trace.hook = None
                    if pending[0] is not None:
                        post = {r[0] for r in s.conn2.execute(f"SELECT id FROM {NS[spi]}")}
                        snaps.append(sorted(pending[0] - post))
                    stmts = trace.take() if trace else []
                    after = s.dump()
                    rounds, ncleanups, blocks = get_id_trace_choices(stmts)
                    removed = snaps
                    res = ask(f"get {sp_tok(sp)} {su[0]} {su[1]} {hxs(d)} {now} {rid if rid is not None else 0} "
                              f"{_enc_rounds(rounds)} {_enc_rounds(removed)}")
                    if rid is not None:
                        results[lab] = rid
                        impl_res = f"ok id {rid}"
                    elif exc == "runtimeError":
                        impl_res = "ok noid"
                    else:
                        impl_res = f"err {exc}"
                    toks = res.split(" ")
                    if " ".join(toks[:3] if toks[1] == "id" else toks[:2]) != impl_res:
                        mism("get_id-result", impl_res, res)
                    else:
                        f.count("path:" + (toks[3] if toks[1] == "id" else toks[2]))
                        if toks[1] == "id" and toks[3] == "sampled":
                            f.count(f"sampled-rounds:{len(rounds)}")
                            if toks[4] != "-":
                                f.count("sampled-after-cleanup")
                    f.count(f"blocks:{len(blocks)}")
                    sync(after)
                    if exc in (None, "runtimeError"):
                        probes = rounds[0] if rounds else []
                        viol(ask(f"spec_get {max_ids} {sp_tok(sp)} {su[0]} {su[1]} {hxs(d)} {now} "
                                 f"{rid if rid is not None else 'none'} {','.join(map(str, probes)) or '-'}"),
                             {"returned": rid})
                    else:
                        viol(ask("spec_unchanged"))
                # ------------------------------------------------------------------ set / del
                elif kind == "set":
                    i = ref(op["id"])
                    if i is None:
                        f.count("skipped-unresolved-ref")
                        continue
                    exc = None
                    try:
                        man.set_id(i, op["d"])
                    except Exception as e:          # noqa: BLE001
                        exc = _exc_kind(e)
                    after = s.dump()
                    res = ask(f"set {i} {hxs(op['d'])} {now}") if i >= 0 else "err valueError"
                    if res != ("ok" if exc is None else f"err {exc}"):
                        mism("set_id-result", exc or "ok", res)
                    sync(after)
                    if i >= 0:
                        viol(ask(f"spec_set {i} {hxs(op['d'])} {now} {1 if exc else 0}"))
                elif kind == "del":
                    i = ref(op["id"])
                    if i is None:
                        f.count("skipped-unresolved-ref")
                        continue
                    exc = None
                    try:
                        man.del_id(i)
                    except Exception as e:          # noqa: BLE001
                        exc = _exc_kind(e)
                    after = s.dump()
                    res = ask(f"del {i}") if i >= 0 else "err valueError"
                    if res != ("ok" if exc is None else f"err {exc}"):
                        mism("del_id-result", exc or "ok", res)
                    sync(after)
                    if i >= 0:
                        viol(ask(f"spec_del {i} {1 if exc else 0}"))
                # ------------------------------------------------------------------ cleanup
                elif kind == "cleanup":
                    sp, su = op["sp"], op["su"]
                    mx = op.get("max")
                    man.cleanup(s.space(sp), s.sub(su), max_ids=mx)
                    after = s.dump()
                    spi = SPACES.index((sp[0], bool(sp[1])))
                    gone = _gone(before["ids"][spi], after["ids"][spi], None)
                    eff = max_ids if mx is None else mx
                    res = ask(f"cleanup {sp_tok(sp)} {su[0]} {su[1]} {eff} {','.join(map(str, gone)) or '-'}")
                    if res != "ok":
                        mism("cleanup-result", "ok", res)
                    f.count("cleanup-removed:" + ("0" if not gone else "1" if len(gone) == 1 else "many"))
                    sync(after)
                    viol(ask(f"spec_cleanup {sp_tok(sp)} {su[0]} {su[1]} {eff}"))
                # ------------------------------------------------------------------ reads
                elif kind == "get_all":
                    sp, su = op.get("sp"), op["su"]
                    rows = man.get_all(None if sp is None else s.space(sp), s.sub(su))
                    impl = [(r.id, r.description, to_us(r.atime)) for r in rows]
                    after = s.dump()
                    model = ask(f"getall {sp_tok(sp)} {su[0]} {su[1]}")
                    canon = impl
                    if [r[2] for r in impl] == sorted((r[2] for r in impl), reverse=True):
                        canon = sorted(impl, key=lambda r: (-r[2], _space_rank(im, r[0]) if sp is None else 0, r[0]))
                    if enc_table(canon) != model:
                        mism("get_all-result", enc_table(canon)[:300], model[:300])
                    sync(after)
                    viol(ask("spec_unchanged"))
                    viol(ask(f"spec_listing {sp_tok(sp)} {su[0]} {su[1]} {enc_table(impl)}"))
                    f.count("get_all-ties" if len({r[2] for r in impl}) < len(impl) else "get_all-no-ties")
                elif kind == "count":
                    sp, su = op.get("sp"), op["su"]
                    n = man.count(None if sp is None else s.space(sp), s.sub(su))
                    after = s.dump()
                    model = ask(f"count {sp_tok(sp)} {su[0]} {su[1]}")
                    if str(n) != model:
                        mism("count-result", n, model)
                    sync(after)
                    viol(ask("spec_unchanged"))
                    viol(ask(f"spec_count {sp_tok(sp)} {su[0]} {su[1]} {n}") if isinstance(n, int) and n >= 0 else "count-not-number-of-live-assignments")
                elif kind == "get_info":
                    i = ref(op["id"])
                    if i is None or i < 0:
                        f.count("skipped-unresolved-ref")
                        continue
                    exc, info = None, None
                    try:
                        info = man.get_info(i)
                    except Exception as e:          # noqa: BLE001
                        exc = _exc_kind(e)
                    after = s.dump()
                    impl = (f"err {exc}" if exc else "none" if info is None
                            else f"row {info.id}:{hxs(info.description)}:{to_us(info.atime)}")
                    model = ask(f"info {i}")
                    if impl != model:
                        mism("get_info-result", impl, model)
                    sync(after)
                    viol(ask("spec_unchanged"))
                    viol(ask(f"spec_info {i} {impl[4:] if impl.startswith('row ') else 'none'} {1 if exc else 0}"))
                # ------------------------------------------------------------------ bulk prefill
                elif kind == "bulk":
                    sp, su = op["sp"], op["su"]
                    spi = SPACES.index((sp[0], bool(sp[1])))
                    have = {r[0] for r in before["ids"][spi]}
                    members = _member_ids(im, sp, su, int(op.get("limit", 70000)))
                    rng = random.Random(f"{seed}:{lab}:bulk")
                    want = int(len(members) * float(op["fill"]))
                    pick = [i for i in members if i not in have]
                    rng.shuffle(pick)
                    pick = pick[:max(0, want - len([i for i in members if i in have]))]
                    base = now - 10_000_000
                    rows = []
                    for k, i in enumerate(pick):
                        at = base + (k // 7 if op.get("tie") else k)
                        rows.append((i, f"bulk{lab}-{k}", at))
                    s.bulk_insert(spi, rows)
                    after = s.dump()
                    ask(f"bulk {sp_tok(sp)} {enc_table(rows)}")
                    f.count("bulk-rows", len(rows))
                    sync(after)
                # ------------------------------------------------------------------ uploads
                elif kind == "mark":
                    i = ref(op["id"])
                    if i is None or i < 0:
                        f.count("skipped-unresolved-ref")
                        continue
                    term, size = op["term"], int(op["size"])
                    t = now if op.get("time") is None else max(0, now + int(op["time"]))
                    exc = None
                    bound = _bound(before, i)
                    try:
                        if op.get("time") is None:
                            man.mark_uploaded(i, term, size=size)
                        else:
                            man.mark_uploaded(i, term, size=size, upload_time=s.clock.cls.fromisoformat(from_us(t).isoformat()))
                    except Exception as e:          # noqa: BLE001
                        exc = _exc_kind(e)
                    after = s.dump()
                    res = ask(f"mark {i} {hxs(term)} {size} {t}")
                    if res != ("ok" if exc is None else f"err {exc}"):
                        mism("mark_uploaded-result", exc or "ok", res)
                    sync(after)
                    viol(ask("spec_idsunchanged"))
                    if exc is None and bound is not None:
                        ask(f"ghost_arrive {hxs(term)} {i} {hxs(bound)} {size} {t}")
                        f.count("arrivals")
                elif kind == "marks":
                    rng_ids = op["ids"]
                    ids = [(h << 24) | l for h in range(*rng_ids["hi"]) for l in range(*rng_ids["lo"])]
                    term, size, step = op["term"], int(op["size"]), int(op.get("step", 1))
                    bound_of = {r[0]: r[1] for t in before["ids"] for r in t}
                    lines = []
                    for i in ids:
                        s.clock.advance(step)
                        man.mark_uploaded(i, term, size=size)
                        lines.append(f"mark {i} {hxs(term)} {size} {s.clock.us}")
                        if i in bound_of:
                            lines.append(f"ghost_arrive {hxs(term)} {i} {hxs(bound_of[i])} {size} {s.clock.us}")
                            f.count("arrivals")
                    bad = [r for r in drv.ask_many(lines) if r != "ok"]
                    if bad:
                        mism("mark_uploaded-result", "ok", bad[0])
                    f.count("bulk-marks", len(ids))
                    after = s.dump()
                    sync(after)
                    viol(ask("spec_idsunchanged"))
                elif kind == "cleanup_uploads":
                    n = int(op["keep"])
                    man.cleanup_uploads(n)
                    after = s.dump()
                    kept = ",".join(f"{r[0]}:{hxs(r[1])}" for r in after["up"]) or "-"
                    res = ask(f"cleanup_uploads {n} {kept}")
                    if res != "ok":
                        mism("cleanup_uploads-result", "ok", res)
                    f.count("cleanup_uploads-removed", len(before["up"]) - len(after["up"]))
                    sync(after)
                    viol(ask("spec_idsunchanged"))
                elif kind == "upinfo":
                    i = ref(op["id"])
                    if i is None or i < 0:
                        f.count("skipped-unresolved-ref")
                        continue
                    ui = man.get_upload_info(i, op["term"])
                    after = s.dump()
                    impl = ("none" if ui is None else
                            f"info {ui.id} {hxs(ui.description)} {to_us(ui.upload_time)} {hxs(ui.terminal)} {ui.size} {ui.bytes_ago} {ui.uploads_ago}")
                    model = ask(f"upinfo {i} {hxs(op['term'])}")
                    if impl != model:
                        mism("get_upload_info-result", impl, model)
                    sync(after)
                    viol(ask("spec_unchanged"))
                elif kind == "upinfos":
                    # the read over ALL terminals of an id: one entry per terminal that holds a record of it, each equal to what
                    # get_upload_info(id, that terminal) gives (model `upinfo`, asked for every terminal the history ever names);
                    # the order over terminals is not specified
                    i = ref(op["id"])
                    if i is None or i < 0:
                        f.count("skipped-unresolved-ref")
                        continue
                    uis = man.get_upload_infos(i)
                    after = s.dump()
                    impl = sorted(f"info {ui.id} {hxs(ui.description)} {to_us(ui.upload_time)} {hxs(ui.terminal)} {ui.size} {ui.bytes_ago} {ui.uploads_ago}"
                                  for ui in uis)
                    named = sorted({o["term"] for o in ops if isinstance(o.get("term"), str)})
                    model = sorted(r for r in (ask(f"upinfo {i} {hxs(t)}") for t in named) if r != "none")
                    f.count("upinfos-entries:" + str(min(len(model), 4)))
                    if impl != model:
                        mism("get_upload_infos-result", impl, model)
                    sync(after)
                    viol(ask("spec_unchanged"))
                elif kind == "needs":
                    i = ref(op["id"])
                    if i is None or i < 0:
                        f.count("skipped-unresolved-ref")
                        continue
                    term = op["term"]
                    mu, mb, mt = int(op["mu"]), int(op["mb"]), int(op["mt"])
                    exc, ans = None, None
                    try:
                        ans = man.needs_uploading(i, term, max_uploads_ago=mu, max_bytes_ago=mb,
                                                    max_time_ago=timedelta(microseconds=mt))
                    except Exception as e:          # noqa: BLE001
                        exc = _exc_kind(e)
                    after = s.dump()
                    impl = f"err {exc}" if exc else ("1" if ans else "0")
                    model = ask(f"needs {i} {hxs(term)} {mu} {mb} {mt} {now}")
                    if impl != model:
                        mism("needs_uploading-result", impl, model)
                    sync(after)
                    viol(ask("spec_unchanged"))
                    if exc is None:
                        bound = _bound(after, i)
                        present = any(r[0] == i and r[1] == term for r in after["up"])
                        j = ask(f"ghost_judge {hxs(term)} {i} {hxs(bound) if bound is not None else 'none'} "
                                f"{1 if present else 0} {mu} {mb} {mt} {now} {1 if ans else 0}").split(" ")
                        f.count(f"needs:{'unassigned' if bound is None else ('reupload' if ans else 'keep')}")
                        if bound is not None:
                            f.count("needs-spec-still-there:" + j[3])
                        if j[0] != "ok":
                            strict, nondecr = j[1] == "1", j[2] == "1"
                            for cl in j[0].split(","):
                                if cl == "no-upload-although-terminal-may-have-lost-image":
                                    if strict:
                                        f.violations.append((cl, lab, {"id": i, "term": term}))
                                    elif nondecr:
                                        f.violations.append(("equal-upload-timestamps", lab, {"id": i, "term": term}))
                                    else:
                                        f.count("not-judged:upload-times-decrease")
                                else:
                                    if nondecr:
                                        f.violations.append((cl, lab, {"id": i, "term": term}))
                                    else:
                                        f.count("not-judged:upload-times-decrease")
                else:
                    raise ValueError(f"unknown op {kind}")
                before = after
                if stop_on_first and (f.mismatches or f.violations):
                    break
        finally:
            im.IDSpace.gen_random_id = orig_gen
            for _t, _m in list(zip(traces, mans))[1:]:
                try:
                    _t.close()
                    _m.close()
                except Exception:          # noqa: BLE001
                    pass
    return f


def _arg_form(form: dict, obj):
    """the value passed to assign_id for a space / subspace given its FORM (see the op table above)"""
    t = form["t"]
    if t == "none":
        return None
    if t == "obj":
        return obj
    if t in ("str", "int"):
        return form["v"]
    raise ValueError(f"unknown argument form {form}")


def _cfg_value(im, name: str, form: dict):
    if form["t"] == "obj":
        return im.IDSpace(form["v"][0], bool(form["v"][1])) if name == "id_space" else im.IDSubspace(form["v"][0], form["v"][1])
    return form["v"]


class _TerminalSession:
    """Session-like wrapper around an existing TupimageTerminal (its IDManager and database)."""

    def __init__(self, terminal, seed, start_us):
        from tupimage import id_manager as im
        self.im = im
        self.man = terminal.id_manager
        self.clock = ControlledClock(start_us)
        self.secrets = ScriptedSecrets(seed)
        self._saved_secrets = im.secrets
        self.clock.install(im)
        im.secrets = self.secrets
        self.conn2 = sqlite3.connect(self.man.database_file, isolation_level=None)
        self.trace = SqlTrace(self.man.conn)

    space = Session.space
    sub = Session.sub
    dump = Session.dump
    bulk_insert = Session.bulk_insert

    def __enter__(self):
        return self

    def __exit__(self, *a):
        self.trace.close()
        self.conn2.close()
        self.clock.uninstall()
        self.im.secrets = self._saved_secrets


def _space_rank(im, i):
    try:
        s = im.IDSpace.from_id(i)
        return SPACES.index((s.color_bits, s.use_3rd_diacritic))
    except Exception:          # noqa: BLE001
        return 9


def _bound(dump, i):
    for t in dump["ids"]:
        for r in t:
            if r[0] == i:
                return r[1]
    return None


def _gone(before_rows, after_rows, rid):
    """ids whose row disappeared (or, for the returned id, whose old row was removed before the new
    one was inserted cannot be told apart from an overwrite — callers treat `rid` separately)."""
    after_ids = {r[0] for r in after_rows}
    return [r[0] for r in before_rows if r[0] not in after_ids]


def _enc_rounds(rounds):
    return "/".join(",".join(map(str, r)) or "-" for r in rounds) or "-"


def _dump_diff(impl_enc: str, model_enc: str, impl_side: bool):
    a, b = impl_enc.split(" "), model_enc.split(" ")
    out = {}
    names = NS + ["upload"]
    for k in range(min(len(a), len(b))):
        if a[k] != b[k]:
            sa = set(a[k].split(",")) - {"-"}
            sb = set(b[k].split(",")) - {"-"}
            only = sorted((sa - sb) if impl_side else (sb - sa))[:6]
            out[names[k]] = only
    return out


# ------------------------------------------------------------------------------------------------
# minimisation (delta debugging over the op list; references are by label so they survive)
# ------------------------------------------------------------------------------------------------
def minimise(drv, case: dict, key, *, max_runs: int = 150, terminal_factory=None) -> dict:
    """Shrink `case["ops"]` while the finding `key` (('K'|'F', name)) persists."""
    runs = [0]

    def fails(ops):
        if runs[0] >= max_runs:
            return False
        runs[0] += 1
        try:
            fd = run_history(drv, dict(case, ops=ops), stop_on_first=False)
        except Exception:          # noqa: BLE001
            return False
        return key in fd.keys()

    ops = list(case["ops"])
    n = 2
    while len(ops) >= 2 and runs[0] < max_runs:
        chunk = max(1, len(ops) // n)
        reduced = False
        for i in range(0, len(ops), chunk):
            cand = ops[:i] + ops[i + chunk:]
            if cand and fails(cand):
                ops = cand
                n = max(n - 1, 2)
                reduced = True
                break
        if not reduced:
            if chunk == 1:
                break
            n = min(len(ops), n * 2)
    return dict(case, ops=ops)
