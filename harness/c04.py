"""C04 — images are re-uploaded exactly when the terminal may have lost the current one.

K: IDManager.{mark_uploaded,get_upload_info,get_upload_infos,needs_uploading,cleanup_uploads} (+ the allocator ops that
   recycle / overwrite / delete / re-issue ids in between) vs Tup.Model.{UploadInfo,Alloc,Db} through
   drv_db; every query result, every UploadInfo field and all six tables after every step.
F: Tup.Spec.Retention — a ghost log of arrivals per terminal kept by the harness in the driver session
   (an arrival = a registered upload with the description bound to the id at that moment); the
   implementation's needs_uploading answers are judged against `holdsCurrent` in both directions.
   Hypotheses of the property made explicit: soundness is judged where the arrival times of the
   terminal are strictly increasing, and classified as the known shape `equal-upload-timestamps` (D16)
   where they are only non-decreasing; histories in which the clock runs backwards are compared with
   the model only.
"""
from __future__ import annotations

from . import dbutil
from .c02 import report, run_corpus
from .common import Ctx
from .dbutil import run_history

DRIVERS = ["drv_db", "drv_e2e"]
PROP = "C04"
EVIDENCE = dict(
    level="proof",
    trusted=[
        "sqlite: upsert / COUNT / SUM / ORDER BY … LIMIT semantics, text comparison of ISO-8601 timestamps (observed by K)",
        "Spec.Retention is a transcription of the property statement; 'other images' are counted per id with their latest copy",
        "an upload registered for an unassigned id is not an arrival (IDManager level; the caller-level pairing of transmit and mark is C08/C09)",
    ],
)

MIB20 = 20 * 2**20
TERMS = ["t1", "xterm-1", "T", "é term", "t2"]
SIZES = [0, 1, 2, 3, 1000, 2**20, MIB20]
MBS = [0, 1, 2, 3, 4, 5, 6, 999, 1000, 1001, 2000, MIB20 - 1, MIB20, MIB20 + 1, 2 * MIB20]
MUS = [0, 1, 2, 3, 1024]
MTS = [0, 1, 1_000_000, 3_600_000_000]
DTS_FWD = [0, 0, 1, 1, 1_000_000, 3_600_000_000, 3_600_000_001, 999_999]
DESCS = ["a", "b", "c", "d", "e", "A", "", "img.png", "é"]


def gen_history(rng, length: int, backwards: bool = False) -> dict:
    ops = []
    lab = [0]
    fine = rng.random() < 0.5          # fine: clock moves by 0..2 us, age thresholds of a few us
    dts = ([0, 1, 1, 2] if fine else DTS_FWD) + ([-1, -1_000_000] if backwards else [])
    strict = (not backwards) and rng.random() < 0.5      # no ties at all in half of the forward histories
    if strict:
        dts = [d for d in dts if d > 0]
    mts = [0, 1, 2, 3, 5, 8] if fine else MTS + [3_600_000_001, 7_200_000_000]
    big_sizes = rng.random() < 0.3
    sizes = SIZES if big_sizes else [0, 1, 1, 2, 3]
    mbs = MBS if big_sizes else [0, 1, 2, 3, 4, 5, 6, 7, 8]

    def add(**o):
        o["n"] = lab[0]
        lab[0] += 1
        o.setdefault("dt", rng.choice(dts))
        ops.append(o)
        return o["n"]

    max_ids = rng.choice([1, 2, 3, 10, 1024])
    style = rng.random()
    if style < 0.6:
        sp = rng.choice([(0, True), (8, False)])
        b = rng.choice([1, 9, 250])
        subs = [(sp, (b, b + rng.choice([1, 2, 3, 4])))]
        if rng.random() < 0.4:
            subs.append((sp, (b, b + 5)))
    else:
        subs = [(rng.choice(dbutil.SPACES), (0, 256))]
    terms = rng.sample(TERMS, rng.randint(1, 4))
    pool = rng.sample(DESCS, rng.randint(1, len(DESCS)))
    gets = []
    recent = []          # (id ref, term, size) of recent marks

    def an_id():
        if gets and rng.random() < 0.95:
            return {"ref": rng.choice(gets[-6:] if rng.random() < 0.8 else gets)}
        sp, su = subs[0]
        off = 24 if sp[1] else (16 if sp[0] == 24 else 0)
        i = (rng.randint(max(1, su[0]), su[1] - 1) << off) | (1 if sp[0] == 8 and sp[1] else 0) | (0x100 if sp[0] == 24 else 0)
        return rng.choice([i, i, 0, 2**32])

    def needs(i, term, z):
        mu, mb, mt = 1024, 2 * MIB20 + 9, 10**13
        r = rng.random()
        if r >= 0.2:
            probe = rng.sample(["mu", "mb", "mt"], 1 if r < 0.75 else 2)
            if "mu" in probe:
                mu = rng.choice(MUS)
            if "mb" in probe:
                mb = rng.choice(mbs + [max(0, z - 1), z, z + 1, 2 * z, 2 * z + 1])
            if "mt" in probe:
                mt = rng.choice(mts)
        add(op="needs", id=i, term=term, mu=mu, mb=mb, mt=mt)

    for _ in range(2):
        sp, su = rng.choice(subs)
        gets.append(add(op="get", sp=list(sp), su=list(su), d=rng.choice(pool)))
    for _ in range(length):
        r = rng.random()
        sp, su = rng.choice(subs)
        if r < 0.18:
            gets.append(add(op="get", sp=list(sp), su=list(su), d=rng.choice(pool)))
        elif r < 0.46:
            size = rng.choice(sizes)
            tm = None
            if rng.random() < (0.12 if not strict else 0.0):
                tm = rng.choice([0, 0, 1, 1_000_000] + ([-1, -1_000_000] if backwards else []))
            i, term = an_id(), rng.choice(terms)
            add(op="mark", id=i, term=term, size=size, time=tm)
            recent.append((i, term, size))
        elif r < 0.80:
            if recent and rng.random() < 0.85:
                i, term, z = rng.choice(recent[-5:])
                if rng.random() < 0.1:
                    term = rng.choice(terms)
            else:
                i, term, z = an_id(), rng.choice(terms), 1
            needs(i, term, z)
        elif r < 0.86:
            if rng.random() < 0.5:
                add(op="upinfo", id=an_id(), term=rng.choice(terms))
            else:
                add(op="upinfos", id=an_id())
        elif r < 0.89:
            add(op="cleanup_uploads", keep=rng.choice([0, 1, 2, 3, 5, 10, 1024]))
            # ask about old and new survivors right away, with a tight count threshold
            for _ in range(rng.randint(1, 3)):
                if recent:
                    i, term, z = rng.choice(recent)
                    add(op="needs", id=i, term=term, mu=rng.choice([1, 2, 3]), mb=2 * MIB20 + 9, mt=10**13, dt=rng.choice([d for d in dts if d >= 0]))
        elif r < 0.93:
            add(op="set", id=an_id(), d=rng.choice(pool))
        elif r < 0.96:
            add(op="del", id=an_id())
        else:
            add(op="cleanup", sp=list(sp), su=list(su), max=rng.choice([0, 1, None]))
    return {"max_ids": max_ids, "seed": rng.randrange(1 << 30), "start": dbutil.T0 + rng.choice([0, 1, 500_000]),
            "profile": "uploads-backwards" if backwards else ("uploads-strict" if strict else "uploads"), "ops": ops}


def structured_cases():
    S8 = [8, False]

    def h(ops, max_ids=1024):
        return {"max_ids": max_ids, "seed": 1, "start": dbutil.T0, "profile": "structured",
                "ops": [dict(o, n=k) for k, o in enumerate(ops)]}

    g = lambda d, su=(1, 4), dt=1: {"op": "get", "sp": S8, "su": list(su), "d": d, "dt": dt}
    mk = lambda k, term="t1", size=1, dt=1, tm=None: {"op": "mark", "id": {"ref": k}, "term": term, "size": size, "time": tm, "dt": dt}
    nd = lambda k, term="t1", mu=1024, mb=MIB20, mt=3_600_000_000, dt=1: {"op": "needs", "id": {"ref": k}, "term": term, "mu": mu, "mb": mb, "mt": mt, "dt": dt}
    # never uploaded -> needs; uploaded -> not; other terminal -> needs
    yield h([g("a"), nd(0), mk(0), nd(0), nd(0, term="t2"), {"op": "upinfo", "id": {"ref": 0}, "term": "t1", "dt": 0}])
    # the read over all terminals of an id: none, one, two terminals, after a re-upload, a deletion and an upload-table clean-up
    ui = lambda k, dt=0: {"op": "upinfos", "id": {"ref": k}, "dt": dt}
    yield h([g("a"), g("b"), ui(0), mk(0, term="t1", size=3), ui(0), mk(1, term="t1", size=5), mk(0, term="t2", size=7), ui(0), ui(1),
             mk(0, term="t1", size=9), ui(0), nd(0, term="t2"), {"op": "del", "id": {"ref": 0}, "dt": 1}, ui(0),
             {"op": "cleanup_uploads", "keep": 1, "dt": 1}, ui(0), ui(1)])
    # the repo's own 4-image example shape: thresholds on count and bytes, boundaries
    yield h([g("1", (0, 256)), g("2", (0, 256)), g("3", (0, 256)), g("4", (0, 256)), mk(0, size=100), mk(1, size=200), mk(2, size=300), mk(3, size=400),
             nd(0, mu=4), nd(0, mu=3), nd(0, mb=1000), nd(0, mb=999), nd(1, mb=900), nd(1, mb=899), nd(3, mu=1), nd(3, mu=0), nd(3, mb=400), nd(3, mb=399)])
    # age threshold boundary
    yield h([g("a"), mk(0), nd(0, mt=10, dt=10), nd(0, mt=10, dt=1), nd(0, mt=0, dt=0)])
    # recycled id: full 1-id subspace, new description under the same id
    yield h([g("a", (1, 2)), mk(0), nd(0), g("b", (1, 2)), nd(3), mk(3), nd(3), g("a", (1, 2)), nd(6)])
    # overwritten by set_id, deleted and re-issued with the same description
    yield h([g("a", (1, 2)), mk(0), {"op": "set", "id": {"ref": 0}, "d": "z", "dt": 1}, nd(0), {"op": "set", "id": {"ref": 0}, "d": "a", "dt": 1}, nd(0),
             {"op": "del", "id": {"ref": 0}, "dt": 1}, nd(0), g("a", (1, 2)), nd(8), mk(8, term="t2"), nd(8, term="t1"), nd(8, term="t2")])
    # re-upload of a later image counts once, with its latest size
    yield h([g("a"), g("b"), mk(0, size=5), mk(1, size=5), mk(1, size=50), nd(0, mu=2, mb=55), nd(0, mu=2, mb=54), nd(0, mu=1)])
    # upload-table clean-up
    yield h([g("a"), g("b"), g("c"), mk(0), mk(1), mk(2), {"op": "cleanup_uploads", "keep": 2, "dt": 1}, nd(0), nd(1), nd(2),
             {"op": "cleanup_uploads", "keep": 0, "dt": 1}, nd(2)])
    # clean-up must keep the newest records: the oldest survivor's later arrivals stay counted
    yield h([g("a", (1, 9)), g("b", (1, 9)), g("c", (1, 9)), mk(0), mk(1), mk(2), {"op": "cleanup_uploads", "keep": 1, "dt": 1},
             nd(0, mu=1), nd(0, mu=2), nd(2, mu=1), nd(1, mu=3)])
    # D16: equal upload timestamps — the later arrival is not counted
    yield h([g("a"), g("b"), mk(0, dt=1), mk(1, dt=0), nd(0, mu=1, dt=0)])
    # ISO text ordering of upload_time: whole second vs microseconds
    yield h([g("a"), g("b"), g("c"), mk(0, dt=0), mk(1, dt=1), mk(2, dt=999_999), nd(0, mu=2, dt=0), nd(0, mu=3, dt=0), nd(1, mu=1, dt=0), nd(1, mu=2, dt=0)])


def long_history_cases(rng, quick=True):
    """More later uploads to one terminal than any default (1024 images / 20 MiB): thresholds above 1024 must still be compared
    with the TRUE number of other images and bytes.  1275 (thorough: 2295) ids of the 16-bit space are pre-filled by SQL, image A is
    uploaded first, then every other id once (`marks`: real mark_uploaded calls), then the question is asked around every boundary."""
    S8 = [8, False]
    hi = [1, 6] if quick else [1, 10]
    n = (hi[1] - hi[0]) * 255
    z = rng.choice([1, 1000, 20000])
    for term2 in (False, True):
        ops = [{"op": "get", "sp": S8, "su": [1, 4], "d": "A", "dt": 1},
               {"op": "get", "sp": S8, "su": [1, 4], "d": "B", "dt": 1},
               {"op": "mark", "id": {"ref": 0}, "term": "t1", "size": z, "time": None, "dt": 1},
               {"op": "mark", "id": {"ref": 0}, "term": "t2", "size": z, "time": None, "dt": 1},
               {"op": "bulk", "sp": [8, True], "su": [hi[0], hi[1]], "fill": 1.0, "tie": False, "dt": 1},
               {"op": "marks", "ids": {"hi": hi, "lo": [1, 256]}, "term": "t1", "size": z, "step": rng.choice([1, 7]), "dt": 1}]
        if term2:
            # part of the traffic goes to another terminal of the session as well
            ops.append({"op": "marks", "ids": {"hi": [hi[0], hi[0] + 1], "lo": [1, 200]}, "term": "t2", "size": z, "step": 1, "dt": 1})
            ops.append({"op": "mark", "id": {"ref": 1}, "term": "t1", "size": z, "time": None, "dt": 1})
        others = n + (1 if term2 else 0)
        big = 10**13
        for term, k in (("t1", others), ("t2", 199 if term2 else 0)):
            mus = sorted({1, 1023, 1024, 1025, 1026, 1100, k - 1, k, k + 1, k + 2, 2 * k + 5, 5000} - {0, -1})
            for mu in mus:
                ops.append({"op": "needs", "id": {"ref": 0}, "term": term, "mu": mu, "mb": big, "mt": big, "dt": 0})
            for mb in sorted({z * 1025, z * 1026, z * 1100, z * k, z * (k + 1) - 1, z * (k + 1), z * (k + 1) + 1, z * 2 * (k + 1), 20 * 2**20}):
                ops.append({"op": "needs", "id": {"ref": 0}, "term": term, "mu": 10**6, "mb": mb, "mt": big, "dt": 0})
            ops.append({"op": "upinfo", "id": {"ref": 0}, "term": term, "dt": 0})
        ops.append({"op": "cleanup_uploads", "keep": 1350 if term2 else rng.choice([1100, 1200]), "dt": 1})
        # survivors of the clean-up: the pre-filled id that has exactly k later uploads on t1
        ids = [(h << 24) | l for h in range(*hi) for l in range(1, 256)]
        for k in (1050, 1026):
            i = ids[n - 1 - k]
            kk = k + (1 if term2 else 0)
            for mu in (1024, kk - 1, kk, kk + 1, kk + 2, 1100):
                ops.append({"op": "needs", "id": i, "term": "t1", "mu": mu, "mb": big, "mt": big, "dt": 0})
            ops.append({"op": "needs", "id": i, "term": "t1", "mu": 10**6, "mb": z * (kk + 1) - 1, "mt": big, "dt": 0})
            ops.append({"op": "needs", "id": i, "term": "t1", "mu": 10**6, "mb": z * (kk + 1), "mt": big, "dt": 0})
        ops.append({"op": "needs", "id": {"ref": 0}, "term": "t1", "mu": 10**6, "mb": big, "mt": big, "dt": 0})
        yield {"max_ids": 10**6, "seed": rng.randrange(1 << 30), "start": dbutil.T0, "profile": "long-history",
               "ops": [dict(o, n=k) for k, o in enumerate(ops)]}


NAME_STEMS = ["tmux-client-xterm-kitty-471", "tmux-client-xterm-256color-4", "T1", "T", "xterm-kitty-w", "é-9", "7"]


def key_collision_cases(rng, n: int):
    """Upload records are keyed by the PAIR (id, terminal).  Terminal names as the library generates them end in a number (the tmux
    client's pid, the X window id) and ids are numbers, so distinct pairs can agree in every flattened form of the pair: the names are
    P, P+d, P+d+d (d a digit string) and the ids int(d+d+s), int(d+s), s — all with the same `name ‖ id` — and, the other way round,
    `id ‖ name` for ids s, s+d and names d+Q, Q.  Two or three such records get uploads (with other images going to the same
    terminals), then the upload table is cleaned up with the cut BETWEEN them, and every record is asked about with tight count
    thresholds.  Judged like every C04 history (tables and answers vs the model, answers vs Spec.Retention)."""
    S8 = [8, False]
    for k in range(n):
        stem = rng.choice(NAME_STEMS)
        d = rng.choice(["1", "2", "7", "12", "10", "5"])
        s_ = str(rng.randrange(1, 26))
        m = rng.choice([2, 2, 3])
        if k % 4 == 3:
            # id first, then the name
            q = rng.choice(["-client", "x", ".0"])
            recs = [(int(s_ + d * j), d * (m - 1 - j) + q) for j in range(m)]
        else:
            recs = [(int(d * (m - 1 - j) + s_), stem + d * j) for j in range(m)]
        rng.shuffle(recs)
        ids = [i for i, _t in recs]
        terms = [t for _i, t in recs]
        fillers = rng.sample([i for i in range(30, 250) if i not in ids], rng.randrange(1, 5))
        ops = []

        def add(**o):
            o.setdefault("dt", rng.choice([1, 1, 1_000_000]))
            ops.append(o)

        for j, i in enumerate(sorted(set(ids)) + fillers):
            if i <= 255:
                add(op="get", sp=S8, su=[i, i + 1], d=f"img{j}")
            else:
                add(op="set", id=i, d=f"img{j}")
        # marks: the colliding records and the other images, on the colliding terminals
        marks = list(recs) + [(f, rng.choice(terms)) for f in fillers]
        if rng.random() < 0.5:
            # oldest colliding record first, then the other images to ITS terminal, the other colliding record(s) last
            marks = [recs[0]] + [(f, recs[0][1]) for f in fillers] + recs[1:]
        else:
            rng.shuffle(marks)
        for i, t in marks:
            add(op="mark", id=i, term=t, size=rng.choice([1, 1, 2, 1000]), time=None)
        # newest first: positions of the colliding records; cut between the newest and the oldest of them
        order = marks[::-1]
        posn = sorted(order.index(r) for r in recs)
        keep = rng.randrange(posn[0] + 1, posn[-1] + 1) if rng.random() < 0.8 else rng.randrange(0, len(marks) + 1)
        add(op="cleanup_uploads", keep=keep)
        asked = list(dict.fromkeys(marks))
        for i, t in asked:
            for mu in sorted({1, 2, len(fillers), len(fillers) + 1}):
                add(op="needs", id=i, term=t, mu=mu, mb=2 * MIB20 + 9, mt=10**13, dt=0)
            if rng.random() < 0.5:
                add(op="upinfo", id=i, term=t, dt=0)
        add(op="upinfos", id=ids[0], dt=0)
        if rng.random() < 0.5:
            # a second round on the cleaned table
            for i, t in rng.sample(marks, min(3, len(marks))):
                add(op="mark", id=i, term=t, size=1, time=None)
            add(op="cleanup_uploads", keep=rng.choice([1, 2, 3]))
            for i, t in asked:
                add(op="needs", id=i, term=t, mu=rng.choice([1, 2, 3]), mb=2 * MIB20 + 9, mt=10**13, dt=0)
        yield {"max_ids": 1024, "seed": rng.randrange(1 << 30), "start": dbutil.T0, "profile": "upload-key-collision",
               "ops": [dict(o, n=j) for j, o in enumerate(ops)]}


def check_case(ctx: Ctx, case: dict):
    if case.get("k") == "terminal-switch":
        # the "that terminal" clause through the high-level path (TupimageTerminal.upload, terminal re-detection)
        from .termid import check_terminal_switch
        return check_terminal_switch(ctx, case, PROP)
    fd = run_history(ctx.driver("drv_db"), case)
    seen = getattr(ctx, "_c04_seen", None)
    if seen is None:
        seen = ctx._c04_seen = {}
    # minimise only the first two examples of a clause per run; later ones are counted
    fresh = []
    for v in fd.violations:
        k = v[0]
        if dbutil.clause_property(k) != PROP:
            fresh.append(v)
            continue
        seen[k] = seen.get(k, 0) + 1
        if seen[k] <= 2 or case.get("profile") == "structured" or len(case["ops"]) <= 6:
            fresh.append(v)
        else:
            ctx.count("further-" + k)
    fd.violations = fresh
    report(ctx, case, fd, PROP, do_minimise=not case.get("minimised"))
    return fd


def cases(ctx: Ctx):
    rng = ctx.rng
    yield from structured_cases()
    yield from key_collision_cases(rng, 24 if ctx.quick else 200)
    from . import termid
    yield from termid.cases(rng, 36 if ctx.quick else 300)
    yield from long_history_cases(rng, ctx.quick)
    while True:
        r = rng.random()
        ln = rng.choice([3, 6, 10, 20, 40, 80, 150, 400 if ctx.quick else 1500])
        yield gen_history(rng, ln, backwards=(r < 0.12))


def run(ctx: Ctx):
    ctx.rule = ("cases = histories of get/set/del/cleanup interleaved with mark_uploaded(size, time), cleanup_uploads(n), "
                "needs_uploading / get_upload_info with thresholds from {0,1,2,3,1024} x {0..6, 999..1001, size-1..size+1, 20MiB-1..+1} x "
                "{0, 1us, 1s, 1h}; 1-4 terminals; clock advance per op in {0, 1us, ~1s, 1h, 1h+1us} (+ negative in K-only histories); "
                "ids recycled through tiny subspaces; long histories (1275+ later uploads to one terminal, thresholds around 1024, the true count "
                "and above); terminal-identity scenarios through the real upload() (WINDOWID switches, tmux clients behind a fake tmux, "
                "re-upload thresholds 0..3 through keywords / config_overrides; reupload_max_seconds_ago 1 / 60 / 3600 / default with clock advances "
                "just below, just above and far above the limit (also > 1 day) between two requests of one image on one terminal; forced uploads, per call "
                "and configured, right after a switch; tmux answering nothing / failing for all or some clients: refusals tolerated and counted); "
                "upload-key collisions: terminal names that are digit-suffixed prefixes of one another with ids whose decimal forms complete each other, "
                "uploads to all of them and an upload-table clean-up cutting between the colliding records. "
                "distinct = canonical JSON; non-trivial = at least one needs_uploading after a mark")
    run_corpus(ctx, PROP, check_case)
    budget = ctx.budget_s * (0.72 if ctx.quick else 0.85)
    for c in cases(ctx):
        if ctx.elapsed() > budget or len(ctx.violations) + len(ctx.mismatches) >= 40:
            break
        check_case(ctx, c)
        if c.get("k") == "terminal-switch":
            ctx.case(c, nontrivial=any(st["op"] == "win" for st in c["steps"]))
            ctx.count("profile:terminal-switch")
            continue
        kinds = [o["op"] for o in c["ops"]]
        ctx.case(c, nontrivial=("mark" in kinds and "needs" in kinds[kinds.index("mark"):]))
        ctx.count("profile:" + c.get("profile", "?"))
        ctx.count("history-len:" + ("<=10" if len(kinds) <= 10 else "11-100" if len(kinds) <= 100 else ">100"))
    ctx.assumptions += [
        "soundness judged only where the terminal's arrival times are strictly increasing (ties -> known shape equal-upload-timestamps); "
        "completeness where they are non-decreasing and the (id, terminal) record survived the upload-table clean-ups",
        "needs_uploading for an unassigned id is outside the statement ('for an assigned ID')",
        "sizes and thresholds are non-negative; terminal names and descriptions are valid UTF-8",
    ]
