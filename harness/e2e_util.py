"""Helpers for the end-to-end checks (C08, C09): TupimageTerminal objects hosted in-process.

`TupimageTerminal` always opens /dev/tty (it passes in_userinput=None to GraphicsTerminal), so
these checks are re-executed by harness/main.py as session leader of a fresh pty (NEEDS_TTY).
The command and display streams are capturing objects whose `fileno()` is the pty, so
`get_size()` works (TIOCGWINSZ), and which log every write/flush with a global sequence number.
"""
from __future__ import annotations

import errno
import io
import os
import sqlite3


class EventLog:
    def __init__(self):
        self.events = []  # (seq, stream_name, kind, payload)

    def add(self, stream, kind, payload=None):
        self.events.append((len(self.events), stream, kind, payload))


class CapStream(io.RawIOBase):
    """Capturing binary stream with fault injection at the k-th write/flush call."""

    def __init__(self, name: str, log: EventLog, tty_fd: int, sink=None):
        super().__init__()
        self.name_ = name
        self.log = log
        self.tty_fd = tty_fd
        self.sink = sink            # optional real file object (used by the crash variant)
        self.buf = bytearray()
        self.calls = 0              # completed write/flush calls
        self.flushed = 0            # bytes written and followed by a completed flush
        self.fault = None           # dict(at=int, kind='io'|'died'|'stall'|'eagain', after=bool[, partial=bool])
        self.armed = False
        self.eagain_fired = False   # the one-shot kind 'eagain' strikes once per stream (re-arm by resetting this)

    def fileno(self):
        return self.tty_fd

    def writable(self):
        return True

    def isatty(self):
        return False

    def _maybe_fault(self, phase: str, idx: int):
        f = self.fault
        if not (self.armed and f):
            return
        if f["kind"] == "stall":
            # a stalled non-blocking stream: from call `at` on, every call fails with EAGAIN before taking effect
            if idx >= f["at"] and phase == "before":
                raise BlockingIOError(errno.EAGAIN, "injected stall: resource temporarily unavailable")
            return
        if f["kind"] == "eagain":
            # ONE-SHOT EAGAIN (a non-blocking tty/pipe whose reader fell behind for a moment): BlockingIOError at call
            # `at` only — before the call took effect, or after it; a repetition of the call goes through.
            # (partial=True on a write call is handled in write(): a prefix of the data is accepted first.)
            after = bool(f.get("after")) and not f.get("partial")   # (partial on a flush call = before)
            if not self.eagain_fired and f["at"] == idx and ((phase == "before") != after):
                self.eagain_fired = True
                raise BlockingIOError(errno.EAGAIN, "injected one-shot EAGAIN: resource temporarily unavailable")
            return
        if f["at"] == idx and ((phase == "before") != bool(f.get("after"))):
            if f["kind"] == "died":
                if self.sink is not None:
                    self.sink.flush()
                os._exit(77)
            raise OSError(errno.EIO, "injected I/O error")

    def write(self, b):
        b = bytes(b)
        idx = self.calls
        f = self.fault
        if (self.armed and f and f.get("kind") == "eagain" and f.get("partial") and f["at"] == idx and not self.eagain_fired
                and len(b) >= 2):
            # short write reported the way a buffered writer over a non-blocking descriptor does: a prefix of the
            # data has been accepted, then BlockingIOError carrying characters_written (the call did not complete)
            n = len(b) // 2
            self.eagain_fired = True
            self.buf += b[:n]
            if self.sink is not None:
                self.sink.write(b[:n])
            self.log.add(self.name_, "write-partial", b[:n])
            raise BlockingIOError(errno.EAGAIN, "injected one-shot EAGAIN after a partial write", n)
        self._maybe_fault("before", idx)
        self.buf += b
        if self.sink is not None:
            self.sink.write(b)
        self.log.add(self.name_, "write", b)
        self.calls += 1
        self._maybe_fault("after", idx)
        return len(b)

    def flush(self):
        if self.closed:
            return
        idx = self.calls
        self._maybe_fault("before", idx)
        self.flushed = len(self.buf)
        if self.sink is not None:
            self.sink.flush()
        self.log.add(self.name_, "flush")
        self.calls += 1
        self._maybe_fault("after", idx)

    def value(self) -> bytes:
        return bytes(self.buf)


def scrub_env():
    for k in list(os.environ):
        if k.startswith("TUPIMAGE_") or k.startswith("SSH_") or k in ("TMUX", "WINDOWID"):
            del os.environ[k]
    os.environ["TERM"] = "xterm-kitty"


def open_tty() -> int:
    return os.open("/dev/tty", os.O_RDWR | os.O_NOCTTY)


def make_terminal(dbfile: str, terminal_id, log: EventLog, tty_fd: int, *, cmd_sink=None, terminal_name="xterm-kitty",
                  session_id="S", stream_name=None, **config):
    """terminal_id / terminal_name / session_id None = let the library detect them (WINDOWID, or tmux display-message);
    the capturing streams are then named after `stream_name`."""
    import tupimage

    sname = stream_name if stream_name is not None else terminal_id
    cmd = CapStream("cmd:" + sname, log, tty_fd, sink=cmd_sink)
    disp = CapStream("disp:" + sname, log, tty_fd)
    t = tupimage.TupimageTerminal(
        out_command=cmd,
        out_display=disp,
        in_response=None,
        id_database=dbfile,
        config="DEFAULT",
        terminal_id=terminal_id,
        terminal_name=terminal_name,
        session_id=session_id,
        **config,
    )
    return t, cmd, disp


def upload_rows(dbfile: str):
    con = sqlite3.connect(dbfile)
    try:
        return sorted(con.execute("SELECT id, terminal, description, size FROM upload").fetchall())
    finally:
        con.close()


def noise_image(w: int, h: int, seed: int, mode: str = "RGB"):
    import random
    from PIL import Image

    r = random.Random(seed)
    n = w * h * (3 if mode == "RGB" else 4)
    return Image.frombytes(mode, (w, h), bytes(r.getrandbits(8) for _ in range(n)))
