"""Hosting `tupimage.GraphicsTerminal` on a terminal the harness controls.

`PtyTerm`   the object's four streams are the slave side of an `os.openpty()` pair (raw mode,
            size set with TIOCSWINSZ).  A responder thread on the master side reads what the code
            writes and answers every `ESC [ 6 n` through a callback
            `responder(all_bytes_up_to_and_including_the_query) -> reply bytes` — in C16 the
            callback asks the Lean terminal model (`drv_trk term …`), so the model terminal answers
            *while* the real code is blocked in `get_cursor_position`.
`TmuxTerm`  the streams are the tty of a pane of a private tmux server: tmux answers the queries
            and holds the true cursor (`cursor()`).

Both record every byte the object writes, in call order, at the stream interface (`.log`),
so "bytes written so far" never depends on kernel buffering.  `mark()`/`since(mark)` give the
bytes of one call; `.read_log` holds what the object read back (the replies).  Nothing here is specific to a property; reuse it.
"""
from __future__ import annotations

import fcntl
import io
import os
import select
import struct
import subprocess
import termios
import threading
import time
import tty as _tty

QUERY = b"\x1b[6n"


class RecFile(io.RawIOBase):
    """Unbuffered writable stream on a tty fd that records what is written."""

    def __init__(self, fd: int, log: bytearray, name: str = "", per_stream: dict | None = None):
        super().__init__()
        self._fd = fd
        self._log = log
        self._name = name
        self._per = per_stream

    def writable(self):
        return True

    def fileno(self):
        return self._fd

    def write(self, data):
        data = bytes(data)
        self._log += data
        if self._per is not None:
            self._per.setdefault(self._name, bytearray()).extend(data)
        off = 0
        while off < len(data):
            off += os.write(self._fd, data[off:])
        return len(data)

    def flush(self):
        return None


class RecIn:
    """Readable tty stream that records what the object reads (the terminal's replies)."""

    def __init__(self, fd: int, log: bytearray):
        self._f = os.fdopen(fd, "rb", buffering=0)
        self._log = log

    def fileno(self):
        return self._f.fileno()

    def read(self, n=-1):
        b = self._f.read(n)
        if b:
            self._log += b
        return b

    def close(self):
        self._f.close()


class BufferedRecFile(RecFile):
    """Like RecFile but buffering: bytes reach the tty (and the arrival log) only on flush() —
    the behaviour of the default buffered display stream (sys.stdout.buffer) when it is distinct
    from the command stream.  `drain()` is the harness's own "eventually everything arrives"."""

    def __init__(self, *a, **kw):
        super().__init__(*a, **kw)
        self._pending = bytearray()

    def write(self, data):
        self._pending += bytes(data)
        return len(data)

    def flush(self):
        if self._pending:
            data, self._pending = bytes(self._pending), bytearray()
            RecFile.write(self, data)
        return None

    def drain(self):
        self.flush()


def set_winsize(fd: int, cols: int, rows: int, xpix: int = 0, ypix: int = 0):
    fcntl.ioctl(fd, termios.TIOCSWINSZ, struct.pack("HHHH", rows, cols, xpix, ypix))


class _Base:
    term = None
    log: bytearray

    def mark(self) -> int:
        return len(self.log)

    def since(self, mark: int) -> bytes:
        return bytes(self.log[mark:])

    def _make(self, fd_out: int, fd_in: int, buffered_display: bool = False, **kw):
        from tupimage.graphics_terminal import GraphicsTerminal

        self.streams: dict[str, bytearray] = {}
        self.out_command = RecFile(fd_out, self.log, "command", self.streams)
        self.out_display = (BufferedRecFile if buffered_display else RecFile)(fd_out, self.log, "display", self.streams)
        self.read_log = bytearray()   # bytes the object has read (replies)
        self.inp = RecIn(fd_in, self.read_log)
        self.term = GraphicsTerminal(
            out_command=self.out_command,
            out_display=self.out_display,
            in_response=self.inp,
            in_userinput=self.inp,
            **kw,
        )


class PtyTerm(_Base):
    def __init__(self, cols: int, rows: int, responder, **gt_kwargs):
        self.cols, self.rows = cols, rows
        self.responder = responder
        self.log = bytearray()
        self.master, self.slave = os.openpty()
        _tty.setraw(self.slave)
        set_winsize(self.slave, cols, rows)
        self.seen = bytearray()      # bytes as they arrived on the master side
        self.replies: list[bytes] = []
        self.errors: list[str] = []
        self._scan = 0
        self._stop = False
        self._thread = threading.Thread(target=self._serve, daemon=True)
        self._thread.start()
        self._make(self.slave, os.dup(self.slave), **gt_kwargs)

    def _serve(self):
        while not self._stop:
            try:
                r, _, _ = select.select([self.master], [], [], 0.05)
                if not r:
                    continue
                data = os.read(self.master, 1 << 16)
            except (OSError, ValueError):
                return
            if not data:
                return
            self.seen += data
            while True:
                i = self.seen.find(QUERY, max(0, self._scan - len(QUERY) + 1))
                if i < 0:
                    self._scan = len(self.seen)
                    break
                self._scan = i + len(QUERY)
                try:
                    reply = self.responder(bytes(self.seen[: self._scan]))
                except Exception as e:  # surfaced by the harness as a tool failure
                    self.errors.append(repr(e))
                    reply = b""
                self.replies.append(reply)
                if reply:
                    try:
                        os.write(self.master, reply)
                    except OSError:
                        return

    def resize(self, cols: int, rows: int):
        """the terminal window is resized (TIOCSWINSZ on the pty): what a later TIOCGWINSZ of the object must see"""
        set_winsize(self.slave, cols, rows)
        self.cols, self.rows = cols, rows

    def wait_seen(self, timeout: float = 5.0) -> bool:
        """Wait until the master side has received everything that was written."""
        end = time.time() + timeout
        while len(self.seen) < len(self.log):
            if time.time() > end:
                return False
            time.sleep(0.001)
        return True

    def close(self):
        self._stop = True
        for f in (self.inp,):
            try:
                f.close()
            except Exception:
                pass
        for fd in (self.slave, self.master):
            try:
                os.close(fd)
            except OSError:
                pass
        self._thread.join(timeout=1)


class TmuxTerm(_Base):
    """GraphicsTerminal on the tty of a tmux pane (tmux 3.3a).  The pane runs `sleep`, so nothing
    else reads the tty; `stty raw -echo` keeps the line discipline out of the way."""

    _n = 0

    def __init__(self, cols: int, rows: int, **gt_kwargs):
        TmuxTerm._n += 1
        self.cols, self.rows = cols, rows
        self.sock = f"verif-trk-{os.getpid()}-{TmuxTerm._n}"
        self._tmux("kill-server", check=False)
        self._tmux("-f", "/dev/null", "new-session", "-d", "-x", str(cols), "-y", str(rows + 1),
                   "stty raw -echo; exec sleep 100000")
        self._tmux("set", "-g", "status", "off")
        self._tmux("resize-window", "-x", str(cols), "-y", str(rows), check=False)
        end = time.time() + 5
        while True:
            size = self.query("#{pane_width}x#{pane_height}")
            if size == f"{cols}x{rows}":
                break
            if time.time() > end:
                self.kill()
                raise RuntimeError(f"tmux pane is {size}, wanted {cols}x{rows}")
            time.sleep(0.05)
        time.sleep(0.2)  # let `stty raw` run
        self.ttyname = self.query("#{pane_tty}")
        self.fd = os.open(self.ttyname, os.O_RDWR | os.O_NOCTTY)
        self.log = bytearray()
        self._make(self.fd, os.dup(self.fd), **gt_kwargs)

    def _tmux(self, *args, check=True):
        return subprocess.run(["tmux", "-L", self.sock, *args], check=check, capture_output=True, text=True)

    def query(self, fmt: str) -> str:
        return self._tmux("display-message", "-p", fmt, check=False).stdout.strip()

    def sync(self) -> bytes:
        """Round-trip through tmux (own `CSI 6 n`, not recorded): everything written before is processed."""
        os.write(self.fd, QUERY)
        buf = b""
        while not buf.endswith(b"R"):
            r, _, _ = select.select([self.fd], [], [], 5)
            if not r:
                raise RuntimeError(f"tmux did not answer the synchronisation query: {buf!r}")
            buf += os.read(self.fd, 1)
        return buf

    def raw_write(self, data: bytes):
        """Write to the pane without recording (harness housekeeping, e.g. a reset between cases)."""
        os.write(self.fd, data)

    def cursor(self):
        """(x, y, region_top, region_bottom) as tmux holds them; x == cols means pending wrap."""
        self.sync()
        s = self.query("#{cursor_x},#{cursor_y},#{scroll_region_upper},#{scroll_region_lower}")
        return tuple(int(v) for v in s.split(","))

    def fresh(self, **gt_kwargs):
        """Terminal back to its initial state (RIS), empty logs, a new GraphicsTerminal object."""
        try:
            self.inp.close()
        except Exception:
            pass
        os.write(self.fd, b"\x1bc")
        self.sync()
        del self.log[:]
        self._make(self.fd, os.dup(self.fd), **gt_kwargs)

    def kill(self):
        self._tmux("kill-server", check=False)

    def close(self):
        for f in (getattr(self, "inp", None),):
            try:
                if f is not None:
                    f.close()
            except Exception:
                pass
        try:
            os.close(self.fd)
        except OSError:
            pass
        self.kill()
