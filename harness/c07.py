"""C07 — printed Unicode placeholders decode to exactly the requested image cells.

K: ImagePlaceholder.to_lines / to_stream* / GraphicsTerminal.print_placeholder bytes vs
   Tup.Model.Placeholder through drv_ph (byte for byte, error kinds included).
F: the REAL bytes are fed to the specification terminal (Tup.Spec.Term, ECMA-48 as tmux does it)
   and its screen is decoded by the protocol rules (Tup.Spec.Decode, pinned diacritic table);
   every cell of the requested rectangle must decode to (id, placement id, row, col) at the
   position of DESIGN.md A.5 (scrolling included), no placeholder cell anywhere else, and the
   cursor must end where A.5 says.
Sequence cases (k = "seq"): 2..6 calls made by ONE program — each run in its own fresh process
   (ph_util.Isolated), so what the library keeps between calls (module-level caches, shared default
   objects, per-object caches) comes from the sequence alone and the case replays from its JSON —
   through print_placeholder's keyword-only form (default-valued fields left out), its object form,
   object + keyword overrides, and the ImagePlaceholder methods on re-used objects; EVERY call's
   bytes are judged (K and F) against what that call requested.
"""
from __future__ import annotations

import itertools
import json
from pathlib import Path

from . import ph_util as U
from .common import Ctx

DRIVERS = ["drv_ph"]
EVIDENCE = dict(
    level="proof",
    trusted=[
        "Spec.Term (terminal model; validated against tmux 3.3a by harness/termcheck.py in the thorough tier)",
        "Spec.Decode + pinned 297-entry table (transcription of the kitty Unicode-placeholder rules)",
        "expected screen positions of DESIGN.md A.5 as coded in harness/ph_util.expected",
        "Python bytes %-formatting and str.encode('utf-8')",
    ],
)

COLS = [(0, 1), (0, 2), (0, 3), (1, 2), (1, 4), (2, 5), (295, 297), (296, 297), (296, 298), (296, 300), (295, 299),
        (0, 298), (0, 300), (1, 299), (290, 310)]
COLS_SMALL = [c for c in COLS if c[1] - c[0] <= 5]
ROWS = [(0, 1), (0, 2), (0, 3), (1, 2), (1, 3), (2, 5), (295, 297), (296, 297), (296, 298), (295, 299), (297, 298),
        (297, 300), (298, 299), (400, 402)]
SGRS = [["-", "-", "-"], ["i3", "-", "-"], ["r1.2.3", "r0.0.5", "i4"], ["i255", "i0", "r255.255.255"], ["-", "r9.9.9", "i1"]]


def byte_ids():
    out = []
    for b3, b2, b1, b0 in itertools.product(U.BYTECLS, repeat=4):
        n = (b3 << 24) | (b2 << 16) | (b1 << 8) | b0
        if n:
            out.append(n)
    return out


def byte_pids():
    return [(b2 << 16) | (b1 << 8) | b0 for b2, b1, b0 in itertools.product(U.BYTECLS, repeat=3)]


# ---------------------------------------------------------------------------------------
def _impl(c):
    """the real code on a single case (in this process)"""
    k = c["k"]
    p, m, f = c["ph"], c["mode"], c.get("fmt", {"t": "n"})
    if k == "lines":
        return U.impl_lines(p, m, f, c.get("noesc", 0))
    if k == "stream":
        return U.impl_stream(c["style"], p, m, f, c.get("via", "direct"), None, c)
    raise ValueError(k)


def _reqs(c, impl):
    """driver request lines of a single case / of one call of a sequence, given what the real code produced"""
    k = c["k"]
    p, m, f = c["ph"], c["mode"], c.get("fmt", {"t": "n"})
    if k == "lines":
        st, lines = impl
        reqs = [U.req_lines(p, m, f, c.get("noesc", 0))]
        if st == "ok" and not c.get("noesc", 0) and U.in_domain(p):
            C = p[4] - p[2]
            x0 = c.get("x0", 0)
            W = max(x0 + C, C) + c.get("slack", 1)
            data = b"\r\n".join(lines)
            reqs.append(U.req_spec(W, len(lines), x0, 0, 1, 1, 0, c.get("sgr", ["-", "-", "-"]), data))
        return reqs
    if k == "stream":
        style = c["style"]
        st, data = impl
        reqs = [U.req_stream(style, p, m, f)]
        if st == "ok" and U.in_domain(p) and not (style[0] == "lfall" and style[1]):
            onlcr = 1 if (style[0] == "lfall" or (style[0] == "cur" and style[2]) or (style[0] == "disp" and style[1] is None and style[3])) else 0
            reqs.append(U.req_spec(c["W"], c["H"], c["x0"], c["y0"], c.get("cub", 1), c.get("rs", 1), onlcr,
                                   c.get("sgr", ["-", "-", "-"]), data))
        return reqs
    raise ValueError(k)


def _requests(c, res=None):
    """Run the real code on the case; return (impl, [driver request lines]).
    A sequence case (k = "seq") runs in its own fresh process (U.isolated); `res` = its result if already there."""
    if c["k"] == "seq":
        if res is None:
            res = U.isolated().run_many([c["calls"]])[0]
        return U.seq_requests(c, res, _reqs)
    impl = _impl(c)
    return impl, _reqs(c, impl)


def _judge(ctx: Ctx, c, impl, replies):
    k = c["k"]
    if k == "seq":
        U.seq_judge(ctx, c, impl, replies, _judge, check_case)
        return
    p = c["ph"]
    st, out = impl
    ctx.count("kind:" + k)
    ctx.count("impl:" + st)
    if st != "ok" and U.in_domain(p) and c["mode"][3] != 0 and not (k == "stream" and c["style"][0] == "disp" and c["style"][1] is not None and c["style"][3]):
        ctx.violation("the code raised on an addressable placeholder", c, st, key="raises-in-domain")
    if k == "lines":
        mst, mlines = U.model_lines(replies[0])
        if st == mst == "ok" and out != mlines and _matches_unrepaired(ctx, c, out):
            pass
        elif st != mst:
            ctx.mismatch("to_lines status", c, st, mst)
        elif st == "ok" and out != mlines:
            bad = next((i for i in range(max(len(out), len(mlines))) if i >= len(out) or i >= len(mlines) or out[i] != mlines[i]), None)
            ctx.mismatch("to_lines bytes", c, {"line": bad, "impl": out[bad].hex() if bad is not None and bad < len(out) else None},
                         {"line": bad, "model": mlines[bad].hex() if bad is not None and bad < len(mlines) else None})
        if len(replies) > 1:
            sp = U.parse_spec(replies[1])
            C = p[4] - p[2]
            x0 = c.get("x0", 0)
            want = {}
            for a in range(p[5] - p[3]):
                if p[3] + a < U.TABLE:
                    for b in range(C):
                        want[(a, (x0 if a == 0 else 0) + b)] = (p[0], p[1], p[3] + a, p[2] + b)
            if sp["ph"] != want:
                ctx.violation("lines do not decode to the requested cells", c, U.diff_cells(sp["ph"], want), key="line-decode")
        return
    # stream
    style = c["style"]
    mst, mdata = U.model_bytes(replies[0])
    ctx.count("style:" + style[0] + ":" + ":".join(str(x) for x in style[1:] if not isinstance(x, list))[:20])
    if st == mst == "ok" and out != mdata and _matches_unrepaired(ctx, c, out):
        pass
    elif st != mst:
        ctx.mismatch("to_stream status", c, st, mst)
    elif st == "ok" and out != mdata:
        ctx.mismatch("to_stream bytes", c, out.hex()[:400], mdata.hex()[:400])
    if len(replies) > 1:
        sp = U.parse_spec(replies[1])
        want, cur, s = U.expected(style, p, c["W"], c["H"], c["x0"], c["y0"])
        ctx.count(f"scrolled:{min(s, 5)}")
        if c["x0"] + (p[4] - p[2]) == c["W"]:
            ctx.count("touches-right-margin")
        if sp["ph"] != want:
            ctx.violation("screen does not show the requested cells at the expected positions", c,
                          {"cells": U.diff_cells(sp["ph"], want), "scrolled": sp["scrolled"], "expected_scrolled": s}, key="screen-decode")
        elif list(sp["cur"]) != list(cur):
            ctx.violation("cursor does not end at the expected position", c, {"cursor": sp["cur"], "expected": cur}, key="final-cursor")
        elif sp["scrolled"] != s:
            ctx.violation("screen scrolled by an unexpected amount", c, {"scrolled": sp["scrolled"], "expected": s}, key="scroll-amount")


def _matches_unrepaired(ctx: Ctx, c, out) -> bool:
    """C07 does not depend on the trailing reset of blank lines (rows >= 297; defect D9 of C13): the correspondence
    accepts the code with or without that repair.  The model of the code as it is answers `lines9` / `stream9`."""
    if c["ph"][5] <= U.TABLE:
        return False
    p, m, f = c["ph"], c["mode"], c.get("fmt", {"t": "n"})
    d = ctx.driver("drv_ph")
    if c["k"] == "lines":
        st, alt = U.model_lines(d.ask(U.req_lines(p, m, f, c.get("noesc", 0)).replace("lines ", "lines9 ", 1)))
    else:
        st, alt = U.model_bytes(d.ask(U.req_stream(c["style"], p, m, f).replace("stream ", "stream9 ", 1)))
    if st == "ok" and alt == out:
        ctx.count("K:matches-model-without-D9-repair")
        return True
    return False


def check_case(ctx: Ctx, c: dict):
    impl, reqs = _requests(c)
    replies = ctx.driver("drv_ph").ask_many(reqs)
    _judge(ctx, c, impl, replies)


def run_batch(ctx: Ctx, batch):
    if not batch:
        return
    seqs = [c for c in batch if c["k"] == "seq"]
    done = iter(U.isolated().run_many([c["calls"] for c in seqs])) if seqs else iter(())
    prepared = [(c,) + _requests(c, next(done) if c["k"] == "seq" else None) for c in batch]
    flat = [r for (_, _, reqs) in prepared for r in reqs]
    replies = ctx.driver("drv_ph").ask_many(flat)
    i = 0
    for c, impl, reqs in prepared:
        _judge(ctx, c, impl, replies[i:i + len(reqs)])
        i += len(reqs)
        ctx.case(c, nontrivial=(impl[0] == "ok" or (impl[0] == "seq" and any(r[0] == "ok" for r in impl[1]))))


# ---------------------------------------------------------------------------------------
def geometry(rng, style, p):
    """A terminal size and start position on which the placeholder fits the width (A.5 precondition)."""
    R, C = p[5] - p[3], p[4] - p[2]
    if style[0] == "abs" or (style[0] == "disp" and style[1] is not None):
        px, py = (style[1], style[2]) if style[0] == "abs" else style[1]
        W = px + C + rng.choice([0, 0, 1, 3])
        H = py + R + rng.choice([0, 0, 1, 2])
        return dict(W=W, H=H, x0=rng.randrange(0, W + 1), y0=rng.randrange(0, H))
    x0 = rng.choice([0, 0, 1, 2, 5])
    W = x0 + C + rng.choice([0, 0, 1, 3])            # half of the cases touch the right margin
    H = rng.choice([1, 2, 3, R, R + 1, R + 2, R + 3])
    y0 = rng.choice([0, H - 1, max(0, H - R), max(0, H - R - 1), rng.randrange(0, H)])
    return dict(W=W, H=H, x0=x0, y0=y0)


def stream_case(rng, p, m, f=None, style=None, via=None):
    if style is None:
        style = rng.choice([["cur", 1, 0], ["cur", 0, 0], ["cur", 1, 1], ["cur", 0, 1], ["lfall", 0],
                            ["disp", None, 1, 0], ["disp", None, 0, 0], ["disp", None, 1, 1], None, None])
        if style is None:
            pos = [rng.choice([0, 1, 4]), rng.choice([0, 1, 3])]
            style = rng.choice([["abs"] + pos, ["disp", pos, rng.randrange(2), 0]])
    c = dict(k="stream", style=style, ph=p, mode=m, sgr=rng.choice(SGRS), rs=rng.randrange(2))
    if f is not None:
        c["fmt"] = f
    c.update(geometry(rng, style, p))
    # the relative style without save/restore relies on CUB counting from the pending-wrap column
    # (tmux/kitty) when the line touches the right margin; elsewhere both conventions must work
    relative = (style[0] == "cur" and not style[1] and not style[2]) or (style[0] == "disp" and style[1] is None and not style[2] and not style[3])
    touches = c["x0"] + (p[4] - p[2]) == c["W"]
    c["cub"] = 1 if (relative and touches) else rng.randrange(2)
    if via is None:
        via = "term" if (style[0] == "disp" and rng.random() < 0.5) else "direct"
    if via != "direct":
        c["via"] = via
    return c


# ---------------------------------------------------------------------------------------
# sequences of calls in one process
# ---------------------------------------------------------------------------------------
def fresh_request(rng, ids, pids, modes):
    """a request (ph, mode, style) with the defaults (placement 0, start column 0, start row 0) well represented"""
    i = rng.choice(ids)
    pid = rng.choice([0, 0, 0, 1, 5, 255, 256, 0xFFFFFF, rng.choice(pids)])
    sc = rng.choice([0, 0, 0, 1, 2, 3, 295])
    sr = rng.choice([0, 0, 0, 1, 2, 5, 295])
    p = [i, pid, sc, sr, sc + rng.choice([1, 2, 3, 4]), sr + rng.choice([1, 1, 2, 3])]
    m = rng.choice(modes) if rng.random() < 0.6 else list(U.DEFAULT_MODE)
    return dict(ph=p, mode=m, style=rand_disp_style(rng))


def rand_disp_style(rng):
    if rng.random() < 0.25:
        return ["disp", [rng.choice([0, 1, 4]), rng.choice([0, 1, 3])], rng.randrange(2), 0]
    return ["disp", None] + rng.choice([[1, 0], [1, 0], [0, 0], [1, 1], [0, 1]])


def neighbour_request(rng, q, ids, pids, modes):
    """q with ONE or TWO parameters changed — what tells a memo / a shared object keyed on too little from a correct one"""
    q = dict(ph=list(q["ph"]), mode=list(q["mode"]), style=q["style"])
    p = q["ph"]
    for what in rng.sample(["id", "pid", "sc", "sr", "ec", "er", "mode", "style"], rng.choice([1, 1, 2])):
        if what == "id":
            p[0] = rng.choice(ids)
        elif what == "pid":
            p[1] = 0 if p[1] else rng.choice([1, 5, 256, 0xFFFFFF])
        elif what == "sc":
            w = p[4] - p[2]
            p[2] = 0 if p[2] else rng.choice([1, 2, 3])
            p[4] = p[2] + w
        elif what == "sr":
            h = p[5] - p[3]
            p[3] = 0 if p[3] else rng.choice([1, 2, 5])
            p[5] = p[3] + h
        elif what == "ec":
            p[4] = p[2] + rng.choice([x for x in (1, 2, 3, 4, 5) if x != p[4] - p[2]])
        elif what == "er":
            p[5] = p[3] + rng.choice([x for x in (1, 2, 3, 4) if x != p[5] - p[3]])
        elif what == "mode":
            m = q["mode"]
            j = rng.randrange(5)
            m[j] = (1 - m[j]) if j < 3 else rng.choice([x for x in ((1, 2, 3, 4) if j == 3 else (0, 1, 2, 3, 4)) if x != m[j]])
        else:
            q["style"] = rand_disp_style(rng)
    return q


def realise(rng, q, fmt=None):
    """one call for the request q: which entry point, how the six fields are passed, on which objects, where it is shown"""
    p, m, style = list(q["ph"]), list(q["mode"]), q["style"]
    r = rng.random()
    extra = {}
    if r < 0.6:
        via = "term"
        e = rng.random()
        if e < 0.45:
            # keyword-only form: a field whose requested value is the default 0 is usually LEFT OUT
            over = [i for i in range(6) if p[i] != 0 or rng.random() < 0.3]
            if rng.random() < 0.04:
                drop = rng.choice([0, 4, 5])          # a required field left out: the call must raise
                p[drop] = 0
                over = [i for i in over if i != drop]
            extra["form"] = {"base": None, "over": over}
        elif e < 0.7:
            extra["form"] = {"base": "obj", "over": [], "junk": [0] * 6}
        else:
            over = sorted(rng.sample(range(6), rng.randrange(1, 6)))
            extra["form"] = {"base": "obj", "over": over, "junk": [rng.choice([0, 1, 3, 7, 9, 300]) for _ in range(6)]}
        extra["tid"] = rng.choice([0, 0, 1])
    elif r < 0.8:
        via = "direct"
    elif r < 0.9:
        via = "direct"
        style = rng.choice([["cur", 1, 0], ["cur", 0, 0], ["cur", 1, 1], ["lfall", 0], ["lfall", 1], ["abs", rng.choice([0, 2]), rng.choice([0, 1])]])
    else:
        via = None                                     # to_lines
    if rng.random() < 0.5:
        extra["omitopt"] = 1
    slot = rng.choice([None, 0, 0, 1])
    if slot is not None:
        extra["slot"] = slot
    if via is None:
        c = dict(k="lines", ph=p, mode=m, x0=rng.choice([0, 0, 2]), sgr=rng.choice(SGRS))
        if rng.random() < 0.4:
            c["noesc"] = 1
    elif U.in_domain(p):
        c = stream_case(rng, p, m, style=style, via=via)
    else:
        c = dict(k="stream", style=style, ph=p, mode=m, W=10, H=4, x0=0, y0=0)
        if via != "direct":
            c["via"] = via
    if fmt is not None:
        c["fmt"] = fmt
    c.update(extra)
    return c


def seq_cases(rng, n, ids, pids, modes, fmt_fn=None):
    """Sequences of 2..6 calls made by one program: each call a fresh request, a repetition, or a neighbour of the
    previous request, through GraphicsTerminal.print_placeholder (keyword-only form with defaults left out / object /
    object + keyword overrides; one or two terminal objects) or the ImagePlaceholder methods, on re-used objects."""
    for _ in range(n):
        calls, q = [], None
        for _j in range(rng.choice([2, 2, 3, 3, 4, 6])):
            r = rng.random()
            if q is None or r < 0.2:
                q = fresh_request(rng, ids, pids, modes)
            elif r < 0.35:
                pass                                   # the same request again (maybe through another entry point)
            else:
                q = neighbour_request(rng, q, ids, pids, modes)
            calls.append(realise(rng, q, fmt_fn(rng, q["ph"]) if fmt_fn else None))
        yield dict(k="seq", calls=calls)


def cases(ctx: Ctx):
    rng = ctx.rng
    quick = ctx.quick
    ids = byte_ids()
    pids = byte_pids()
    modes = U.all_modes()
    fixed_ids = [1, 255, 256, 0xFF00, 0x10000, 0xFFFFFF, 0x1000000, 0x1000001, 0x7F000100, 0xFF000000, 0xFFFFFFFF, 0x80000080, 0x01010101, 0x00FF00FF]
    # --- (1) to_lines: every mode x ID byte classes x placement classes x rectangles
    per_mode = 36 if quick else 624
    for m in modes:
        chosen = fixed_ids + (rng.sample(ids, per_mode) if per_mode < len(ids) else ids)
        for n, i in enumerate(chosen):
            pid = rng.choice([0, 0, 1, 255, 256, 0xFFFFFF]) if n % 2 == 0 else rng.choice(pids)
            sc, ec = rng.choice(COLS if rng.random() < 0.5 else COLS_SMALL)
            sr, er = rng.choice(ROWS)
            yield dict(k="lines", ph=[i, pid, sc, sr, ec, er], mode=m, x0=rng.choice([0, 0, 1, 3]), sgr=rng.choice(SGRS),
                       slack=rng.choice([0, 1]))
    # every column/row rectangle pair with the default and the extreme modes
    for (sc, ec), (sr, er) in itertools.product(COLS, ROWS):
        for m in ([1, 0, 1, 4, 4], [1, 0, 1, 4, 0], [0, 0, 0, 3, 3], [1, 1, 1, 1, 0], [1, 1, 0, 2, 1]):
            yield dict(k="lines", ph=[rng.choice(fixed_ids), rng.choice(pids), sc, sr, ec, er], mode=m)
    # random ids
    for _ in range(1500 if quick else 20000):
        sc, ec = rng.choice(COLS_SMALL)
        sr, er = rng.choice(ROWS)
        yield dict(k="lines", ph=[rng.randrange(1, 2**32), rng.randrange(0, 2**24), sc, sr, ec, er], mode=rng.choice(modes),
                   x0=rng.choice([0, 2]), sgr=rng.choice(SGRS))
    # no_escape and error branches
    for _ in range(200 if quick else 1500):
        sc, ec = rng.choice(COLS)
        sr, er = rng.choice(ROWS)
        yield dict(k="lines", ph=[rng.choice(ids), rng.choice(pids), sc, sr, ec, er], mode=rng.choice(modes), noesc=1)
    for _ in range(100 if quick else 1000):
        sc, ec = rng.choice(COLS_SMALL)
        sr, er = rng.choice(ROWS)
        yield dict(k="stream", style=["lfall", 1], ph=[rng.choice(ids), rng.choice(pids), sc, sr, ec, er], mode=rng.choice(modes),
                   W=10, H=4, x0=0, y0=0)
    bad = [[0, 0, 0, 0, 1, 1], [-1, 0, 0, 0, 1, 1], [2**32, 0, 0, 0, 1, 1], [2**32 - 1, 0, 0, 0, 1, 1], [1, -1, 0, 0, 1, 1],
           [1, 2**24, 0, 0, 1, 1], [1, 2**24 - 1, 0, 0, 1, 1], [1, 0, -1, 0, 1, 1], [1, 0, 0, -1, 1, 1], [1, 0, 1, 0, 1, 1],
           [1, 0, 2, 0, 1, 1], [1, 0, 0, 1, 1, 1], [1, 0, 0, 2, 1, 1], [1, 0, 297, 0, 298, 1], [1, 0, 298, 296, 300, 298],
           [1, 0, 297, 297, 298, 298], [1, 0, 300, 400, 310, 401], [1, 0, 296, 0, 297, 1], [1, 0, 5, 5, 5, 6], [1, 0, 0, 0, 0, 0]]
    for p in bad:
        for m in ([1, 0, 1, 4, 4], [0, 1, 0, 1, 0], [1, 0, 1, 0, 4]):
            yield dict(k="lines", ph=p, mode=m)
            yield dict(k="stream", style=["disp", None, 1, 0], ph=p, mode=m, W=320, H=3, x0=0, y0=0)
            yield dict(k="stream", style=["disp", [1, 1], 1, 1], ph=p, mode=m, W=320, H=3, x0=0, y0=0)
    for m in modes:
        yield dict(k="lines", ph=[1, 0, 0, 0, 2, 1], mode=[m[0], m[1], m[2], 0, m[4]])
    # --- (2) streams: styles x geometry (scroll amounts 0..rows, right margin) x modes
    nstream = 6000 if quick else 60000
    for n in range(nstream):
        m = modes[n % len(modes)]
        i = rng.choice(fixed_ids) if n % 3 == 0 else rng.choice(ids)
        pid = rng.choice([0, 1, 0xFFFFFF]) if n % 2 else rng.choice(pids)
        sc, ec = rng.choice(COLS_SMALL) if rng.random() < 0.93 else rng.choice(COLS)
        sr, er = rng.choice(ROWS)
        yield stream_case(rng, [i, pid, sc, sr, ec, er], m)
    # taller placeholders: every scroll amount 0..R for every cursor-relative style
    for R in (1, 2, 3, 4, 6):
        for H in range(1, R + 3):
            for y0 in range(H):
                for style in (["cur", 1, 0], ["cur", 0, 0], ["cur", 1, 1], ["lfall", 0]):
                    for x0, slack in ((0, 0), (2, 0), (1, 2)):
                        p = [rng.choice(fixed_ids), rng.choice([0, 5]), 1, 3, 4, 3 + R]
                        yield dict(k="stream", style=style, ph=p, mode=rng.choice(modes), W=x0 + 3 + slack, H=H, x0=x0, y0=y0,
                                   cub=1, rs=rng.randrange(2), sgr=rng.choice(SGRS))
    # --- (3) sequences of calls in one process (state kept between calls, keyword form of print_placeholder, call order)
    yield from seq_cases(rng, 600 if quick else 6000, fixed_ids + ids, pids, modes)


def run(ctx: Ctx):
    ctx.rule = ("cases: to_lines over all 160 modes x ID byte-class products (each byte in {0,1,127,128,255}) x placement-ID byte "
                "classes x rectangles around 0/1/296/297/298 and widths beyond 297, random ids, no_escape, every validate/IndexError "
                "branch; streams over all styles (at-cursor save/relative/line-feeds, with_linefeeds, absolute, to_stream dispatch, "
                "GraphicsTerminal.print_placeholder) x terminal geometries forcing 0..rows scrolls and touching the right margin x "
                "start SGR states x both CSI-u conventions; sequences of 2..6 calls run in ONE fresh process each (a request, then "
                "repetitions / requests differing in one or two parameters / new requests) through print_placeholder in its "
                "keyword-only form with default-valued fields left out, its object form and object + keyword overrides, on one or two "
                "GraphicsTerminal objects, and through the ImagePlaceholder methods on re-used, re-assigned objects, optional arguments "
                "given or left out — every call's bytes judged against what THAT call requested. distinct = canonical JSON of the case; non-trivial = the code produced output "
                "(error-branch cases are counted as trivial)")
    corpus_dir = Path(__file__).resolve().parent.parent / "corpus" / "C07"
    if corpus_dir.is_dir():
        for fp in sorted(corpus_dir.glob("*.json")):
            c = json.load(open(fp))
            c = c.get("case", c)
            check_case(ctx, c)
            ctx.case(c)
            ctx.count("corpus")
    batch = []
    # interleave the to_lines cases and the stream cases so that a run cut short by the time budget covers both
    allc = list(cases(ctx))
    a = [c for c in allc if c["k"] == "lines"]
    b = [c for c in allc if c["k"] != "lines"]
    merged = []
    ia = ib = 0
    while ia < len(a) or ib < len(b):
        if ia < len(a) and (ib >= len(b) or ia * len(b) <= ib * len(a)):
            merged.append(a[ia]); ia += 1
        else:
            merged.append(b[ib]); ib += 1
    for c in merged:
        if ctx.time_left() < 0:
            ctx.count("skipped-over-budget")
            continue
        batch.append(c)
        if len(batch) >= 400:
            run_batch(ctx, batch)
            batch = []
    run_batch(ctx, batch)
    ctx.assumptions += [
        "placeholder width fits the terminal width from the start column (x0 + C <= W); absolute style also fits the height",
        "the relative style without save/restore that touches the right margin is judged on a terminal whose CUB counts from "
        "the pending-wrap column (tmux, kitty); the code's own comment calls that case unreliable elsewhere",
        "line-feed styles are judged with the tty's ONLCR (LF -> CR LF)",
        "mode.placeholder_char is the default U+10EEEE",
    ]
    if not ctx.quick:
        try:
            from . import termcheck
            termcheck.validate(ctx)
        except Exception as e:  # a tmux problem is a tool note, never a verdict
            ctx.notes.append(f"termcheck not run: {type(e).__name__}: {e}")
