"""C18 — the exported shell script reproduces exactly the bytes that were sent.

K: ShellScriptBinaryIOHelper.write_to_shellscript (and the public GraphicsTerminal paths with
   shellscript_out, on the constructed object and on objects derived from it with clone_with /
   attribute assignment) vs Tup.Model.ShellExport through drv_sh: the script text, byte for byte.
F: the script is run by the real /bin/sh (dash; bash too where the case asks for it) and by the
   independent specification Tup.Spec.Sh (the evaluator the theorems are about); stdout must be
   exactly the data, with and without the comment.  Spec.Sh itself is validated against dash and
   bash on every script that is run by a shell (a disagreement is a tool failure, not a verdict).

Also checked (modelling assumptions, K only): CPython's strict base64 decoder vs `pyB64decStrict`,
and the float test `len(escaped) > len(decoded) * 1.05` vs the model's `20*e > 21*d` on every pair
of lengths that can occur.
"""
from __future__ import annotations

import base64
import binascii
import io
import itertools
import json
import os
import re
import shutil
import subprocess
import tempfile
from pathlib import Path

from .common import Ctx, ToolFailure, hx, unhx

DRIVERS = ["drv_sh"]
EVIDENCE = dict(
    level="proof",
    trusted=[
        "Spec.Sh: my reading of POSIX sh/printf for the emitted script grammar, validated against dash and bash on every script run",
        "real shells beyond dash 0.5.12 / bash 5.2 and base64(1) beyond GNU coreutils are not exercised",
        "CPython 3.12 binascii strict base64 and float `*1.05` (both modelled and compared on enumerated inputs)",
    ],
)

SHELLS = {"dash": "/bin/dash", "bash": "/bin/bash"}
TROUBLE = [b"'", b"\\", b"%", b"-", b"=", b"+", b"/", b"A", b"Q", b"\n", b"\0", b"\x7f", b"\x80", b"\xff", b" ",
           b"0", b"9", b"z", b'"', b"$", b"`", b"#", b";", b"R"]


def _helper():
    from tupimage.graphics_terminal import ShellScriptBinaryIOHelper
    return ShellScriptBinaryIOHelper


# ---------------------------------------------------------------------------------------
# running scripts with real shells (batched; results cached per (shell, script))
# ---------------------------------------------------------------------------------------
class ShellRunner:
    def __init__(self):
        base = "/dev/shm" if os.path.isdir("/dev/shm") and os.access("/dev/shm", os.W_OK) else None
        self.dir = tempfile.mkdtemp(prefix="vc18_", dir=base)
        self.cache: dict[tuple[str, bytes], tuple[bytes, bytes]] = {}
        self.runs = 0

    def close(self):
        shutil.rmtree(self.dir, ignore_errors=True)

    def run_many(self, shell: str, scripts: list[bytes]):
        todo = []
        for s in scripts:
            if (shell, s) not in self.cache and s not in todo:
                todo.append(s)
        exe = SHELLS[shell]
        for start in range(0, len(todo), 400):
            part = todo[start:start + 400]
            lines = []
            for i, s in enumerate(part):
                Path(self.dir, f"{i}.sh").write_bytes(s)
                lines.append(f"{exe} {i}.sh >{i}.out 2>{i}.err </dev/null")
            Path(self.dir, "run.sh").write_text("\n".join(lines) + "\n")
            r = subprocess.run([SHELLS["dash"], "run.sh"], cwd=self.dir, stdin=subprocess.DEVNULL,
                               stdout=subprocess.PIPE, stderr=subprocess.STDOUT, timeout=600)
            if r.returncode not in (0, 1, 2, 127) and r.stdout:
                raise ToolFailure(f"shell batch runner failed: {r.stdout[-300:]!r}")
            for i, s in enumerate(part):
                out = Path(self.dir, f"{i}.out").read_bytes()
                err = Path(self.dir, f"{i}.err").read_bytes()
                self.cache[(shell, s)] = (out, err)
                self.runs += 1

    def run(self, shell: str, script: bytes):
        if (shell, script) not in self.cache:
            self.run_many(shell, [script])
        return self.cache[(shell, script)]


def runner(ctx: Ctx) -> ShellRunner:
    r = getattr(ctx, "_c18_runner", None)
    if r is None:
        r = ShellRunner()
        ctx._c18_runner = r
    return r


# ---------------------------------------------------------------------------------------
def export_impl(data: bytes, comment: str) -> bytes:
    out = io.StringIO()
    _helper().write_to_shellscript(out, data, comment)
    return out.getvalue().encode("utf-8")


def parse_opt(reply: str):
    if reply == "none":
        return None
    if reply.startswith("some "):
        return unhx(reply[5:])
    raise ToolFailure(f"driver reply {reply!r}")


def shells_for(level: int, script: bytes, data: bytes, thorough: bool):
    """level 0: dash iff the script has a command substitution or the data starts with '-';
       level 1: dash; level 2: dash and bash."""
    if level >= 2:
        return ["dash", "bash"]
    if level == 1:
        return ["dash"]
    if b"$(" in script or data[:1] == b"-":
        return ["dash"]
    return []


def failure_key(script: bytes) -> str:
    # a quoted printf format that begins with a dash (and is not just "-") is taken as an option
    if re.search(rb"printf '-[^']", script):
        return "leading-dash"
    return "output-differs"


def judge_script(ctx: Ctx, case: dict, script: bytes, expected: bytes, level: int, what: str):
    """F for one script: Spec.Sh and the real shells must print exactly `expected`."""
    d = ctx.driver("drv_sh")
    spec = parse_opt(d.ask(f"eval {hx(script)}"))
    shells = shells_for(level, script, expected, not ctx.quick)
    if spec is None and not shells:
        shells = ["dash"]          # the specification is silent: let the real shell decide
    bad = None
    for sh in shells:
        out, err = runner(ctx).run(sh, script)
        ctx.count("shell:" + sh)
        # validation of the specification against the real shell
        if spec is not None and (out != spec or err):
            raise ToolFailure(f"Spec.Sh disagrees with {sh}: script={script!r} spec={spec!r} {sh}-stdout={out!r} stderr={err!r}")
        if spec is None:
            if err:
                ctx.count("spec-none:shell-reports-error")
            else:
                ctx.count("spec-none:shell-silent(outside the specified grammar)")
                if len(ctx.notes) < 5:
                    ctx.notes.append(f"Spec.Sh is silent on a script that {sh} ran without complaint: {script[:200]!r}")
        if out != expected or err:
            bad = {"shell": sh, "stdout": out[:200].hex(), "stderr": err[:200].decode("latin1"), "expected": expected[:200].hex()}
    if spec is not None and spec != expected:
        bad = bad or {"spec": spec[:200].hex(), "expected": expected[:200].hex()}
    if bad is not None:
        bad["script"] = script[:400].decode("utf-8", "replace")
        ctx.violation(f"the exported script does not print the bytes that were written ({what})", case, bad,
                      key=failure_key(script))
        return False
    return True


CMD_RE = re.compile(r"^(printf (?:-- )?'[^']*'(?: \"\$\(printf (?:-- )?'[^']*' \| base64 -w0\)\")*)( # .*)?$")


def check_case(ctx: Ctx, c: dict):
    d = ctx.driver("drv_sh")
    k = c["k"]
    ctx.count("kind:" + k)
    if k == "data":
        data = bytes.fromhex(c["d"])
        comment = c.get("c", "")
        level = c.get("sh", 0)
        cb = comment.encode("utf-8")
        try:
            script = export_impl(data, comment)
        except Exception as e:      # the exporter itself fails on this input
            ctx.mismatch("script text", c, "exception:" + type(e).__name__, d.ask(f"export {hx(data)} {hx(cb)}"))
            ctx.violation("write_to_shellscript raises instead of producing a script", c, repr(e)[:200], key="exporter-raises")
            return
        ctx.eq("script text", c, script.hex(), unhx(d.ask(f"export {hx(data)} {hx(cb)}")).hex())
        ctx.count("b64-run-accepted" if b"$(" in script else "no-b64-run")
        if data[:1] == b"-":
            ctx.count("leading-dash")
        ctx.count("len:" + ("0" if not data else "1" if len(data) == 1 else "2-9" if len(data) < 10 else "10-99" if len(data) < 100
                            else "100-999" if len(data) < 1000 else "1000+"))
        judge_script(ctx, c, script, data, level, "no comment" if not comment else "with comment")
        if comment:
            ctx.count("comment:own-line" if script.startswith(b"# ") else "comment:inline")
            plain = export_impl(data, "")
            ctx.eq("script text (no comment)", c, plain.hex(), unhx(d.ask(f"export {hx(data)} -")).hex())
            # comments never change the output: the plain script is judged the same way
            judge_script(ctx, dict(c, c=""), plain, data, level, "no comment")
        else:
            ctx.count("comment:none")
    elif k == "pyb64":
        s = bytes.fromhex(c["d"])
        try:
            impl = "some " + hx(base64.b64decode(s, validate=True))
        except binascii.Error:
            impl = "none"
        ctx.eq("pyb64: CPython strict base64 vs model", c, impl, d.ask(f"pyb64 {hx(s)}"))
        ctx.count("pyb64:" + ("accept" if impl != "none" else "reject"))
    elif k == "float":
        bad = [(n, m) for n in range(0, c["n"] + 1) for m in range(0, 4 * n + 2) if (m > n * 1.05) != (20 * m > 21 * n)]
        ctx.count("float-pairs", sum(4 * n + 2 for n in range(0, c["n"] + 1)))
        if bad:
            ctx.mismatch("float: len(escaped) > len(decoded)*1.05 differs from 20*e > 21*d", c, bad[:5], [])
    elif k == "shspec":
        script = bytes.fromhex(c["s"])
        spec = parse_opt(d.ask(f"eval {hx(script)}"))
        for sh in ["dash", "bash"]:
            out, err = runner(ctx).run(sh, script)
            ctx.count("shell:" + sh)
            if spec is not None:
                if out != spec or err:
                    raise ToolFailure(f"Spec.Sh disagrees with {sh} on {script!r}: spec={spec!r} stdout={out!r} stderr={err!r}")
            elif not err and not c.get("unspecified"):
                raise ToolFailure(f"Spec.Sh rejects {script!r} but {sh} ran it silently: stdout={out!r}")
        ctx.count("shspec:" + ("some" if spec is not None else "none"))
    elif k == "api":
        _check_api(ctx, c)
    else:
        raise ValueError(k)


# ---------------------------------------------------------------------------------------
# public paths: GraphicsTerminal(..., shellscript_out=StringIO)
# ---------------------------------------------------------------------------------------
_PTY = None


def _pty_slave() -> int:
    """A tty with a window size, so that GraphicsTerminal.get_size() works on the logging stream."""
    global _PTY
    if _PTY is None:
        import fcntl, struct, termios
        m, sl = os.openpty()
        fcntl.ioctl(sl, termios.TIOCSWINSZ, struct.pack("HHHH", 24, 80, 800, 480))
        _PTY = (m, sl)
    return _PTY[1]


class LogIO(io.BytesIO):
    def __init__(self, log):
        super().__init__()
        self.log = log

    def fileno(self):
        return _pty_slave()

    def write(self, b):
        self.log.append(bytes(b))
        return super().write(b)


FAULT_ERRORS = {"EAGAIN": (BlockingIOError, 11, "Resource temporarily unavailable"), "EIO": (OSError, 5, "Input/output error"),
                "EPIPE": (BrokenPipeError, 32, "Broken pipe"), "EINTR": (InterruptedError, 4, "Interrupted system call")}


class FaultIO(LogIO):
    """A logging stream on which ONE call (a write or a flush) fails before taking effect.  `ctl` is shared by the streams of a
    case: while ctl["in_op"], the calls of the current operation are counted; call number ctl["pick"] among the ELIGIBLE ones
    raises.  Eligible: a write (for a directly printed placeholder only while nothing of the operation has been accepted yet:
    the library logs a placeholder as a whole after printing it, and a caller cannot repeat half a placeholder) and a flush
    that precedes the operation's first accepted write (a flush after it has nothing left to refuse: the stream object has
    accepted the bytes already)."""

    def __init__(self, log, ctl, name):
        super().__init__(log)
        self.ctl = ctl
        self.name = name

    def _call(self, method):
        ctl = self.ctl
        if not ctl["in_op"]:
            return
        ctl["trace"].append(self.name + "." + method)
        if ctl["armed"]:
            if method == "write":
                ok = ctl["opname"] != "placeholder" or ctl["accepted"] == 0
            else:
                ok = ctl["accepted"] == 0
            if ok:
                if ctl["seen"] == ctl["pick"]:
                    ctl["armed"] = False
                    ctl["fired"] = "%s.%s call #%d of the operation (after %d accepted writes)" % (self.name, method, len(ctl["trace"]) - 1, ctl["accepted"])
                    cls, no, msg = FAULT_ERRORS[ctl["err"]]
                    raise cls(no, msg)
                ctl["seen"] += 1

    def write(self, b):
        self._call("write")
        n = super().write(b)
        if self.ctl["in_op"]:
            self.ctl["accepted"] += 1
        return n

    def flush(self):
        self._call("flush")
        return super().flush()


def _api_file(ctx: Ctx, data: bytes) -> str:
    """A real file holding `data` (for file transmissions, which a terminal with force_direct_transmission reads)."""
    import hashlib
    path = os.path.join(runner(ctx).dir, "img_" + hashlib.sha1(data).hexdigest()[:16] + ".bin")
    if not os.path.exists(path):
        Path(path).write_bytes(data)
    return path


def _api_op(ctx: Ctx, term, gc, op):
    name = op[0]
    if name == "write":
        term.write(bytes.fromhex(op[1]))
    elif name == "writestr":
        term.write(op[1], flush=True)
    elif name == "writecmd":
        term.writecmd(bytes.fromhex(op[1]))
    elif name == "transmit":
        cmd = gc.TransmitCommand(image_id=op[1], medium=gc.TransmissionMedium.DIRECT, data=bytes.fromhex(op[2]),
                                 format=gc.Format.PNG, quiet=gc.Quietness.QUIET_UNLESS_ERROR)
        if op[3]:
            cmd.set_placement(rows=op[3][0], cols=op[3][1], virtual=True, placement_id=op[3][2])
        try:
            term.send_command(cmd)
        except ValueError:          # max_command_size too small for this header: nothing is written
            ctx.count("api-op-rejected")
    elif name == "transmitfile":
        cmd = gc.TransmitCommand(image_id=op[1], medium=gc.TransmissionMedium.FILE, data=bytes.fromhex(op[2]))
        try:
            term.send_command(cmd)
        except ValueError:
            ctx.count("api-op-rejected")
        except OSError:             # a force_direct_transmission terminal tries to read the (non-existent) file first
            ctx.count("api-op-rejected:no-such-file")
    elif name == "transmitpath":    # a file that exists: sent by name, or read and sent inline by a force_direct_transmission terminal
        cmd = gc.TransmitCommand(image_id=op[1], medium=gc.TransmissionMedium.FILE,
                                 data=_api_file(ctx, bytes.fromhex(op[2])).encode())
        ctx.count("api-transmitpath:" + ("inlined" if term.force_direct_transmission else "by-name"))
        try:
            term.send_command(cmd)
        except ValueError:
            ctx.count("api-op-rejected")
    elif name == "put":
        try:
            term.send_command(gc.PutCommand(image_id=op[1], placement_id=op[2], rows=op[3], cols=op[4], virtual=True))
        except ValueError:
            ctx.count("api-op-rejected")
    elif name == "placeholder":
        kw = dict(image_id=op[1], placement_id=op[2], end_col=op[3], end_row=op[4])
        if op[5] == "abs":
            term.print_placeholder(pos=(op[6], op[7]), **kw)
        elif op[5] == "lf":
            term.print_placeholder(use_line_feeds=True, **kw)
        elif op[5] == "nosave":
            term.print_placeholder(use_save_cursor=False, **kw)
        else:
            term.print_placeholder(**kw)
    elif name == "move":
        term.move_cursor(**op[1])
    elif name == "moveabs":
        term.move_cursor_abs(**op[1])
    elif name == "margins":
        term.set_margins(op[1], op[2])
    elif name == "scroll":
        (term.scroll_up if op[1] == "up" else term.scroll_down)(op[2])
    elif name == "clear":
        {"line": term.clear_line, "screen": term.clear_screen, "reset": term.reset}[op[1]]()
    else:
        raise ValueError(name)


def _check_api(ctx: Ctx, c: dict):
    import tupimage
    from tupimage import graphics_command as gc
    from tupimage.graphics_terminal import GraphicsTerminal
    d = ctx.driver("drv_sh")
    log: list[bytes] = []
    stream = out_command = LogIO(log)
    fault = c.get("fault")
    if fault is not None:
        # {"op": index in ops, "pick": n-th eligible stream call of that operation, "err": errno name, "split": separate command stream}
        ctl = {"in_op": False, "armed": False, "pick": fault["pick"], "err": fault["err"], "seen": 0, "accepted": 0, "opname": None,
               "trace": [], "fired": None}
        stream = out_command = FaultIO(log, ctl, "display" if fault.get("split") else "stream")
        if fault.get("split"):
            out_command = FaultIO(log, ctl, "command")
        ctx.count("fault-streams:" + ("separate" if fault.get("split") else "one"))
    # the script objects of the case: number 0 is given to the constructor unless the case says otherwise ("ctor_script":
    # null = the terminal is constructed without a script); ["script", who, k] attaches script k (null: none) to an object
    # by assigning its public attribute `shellscript_out`, the way tupimage.testing.cli starts a new recording
    scripts = [io.StringIO() for _ in range(c.get("scripts", 1))]
    first = c.get("ctor_script", 0)
    term = GraphicsTerminal(out_command=out_command, out_display=stream, in_response=LogIO([]), in_userinput=LogIO([]),
                            max_command_size=c.get("max"), num_tmux_layers=c.get("tmux", 0),
                            shellscript_out=None if first is None else scripts[first],
                            force_placeholders=bool(c.get("fp", False)), force_direct_transmission=bool(c.get("fd", False)))
    # derived terminals: every object below shares the streams and the script with `term`; whatever any of them
    # writes to the streams is part of "what the library wrote to the terminal"
    terms = {"0": term}
    # which script the CALLER attached to each object (kept here, never read back from the object), and for every script
    # the writes that reached the terminal while it was the one attached to the object that wrote them
    attached = {"0": first}
    cur = "0"
    during: dict = {k: [] for k in range(len(scripts))}
    switches = 0
    for op_index, op in enumerate(c["ops"]):
        name = op[0]
        ctx.count("api-op:" + name)
        if name == "use":               # switch the object the following operations are called on
            term = terms[str(op[1])]
            cur = str(op[1])
            continue
        if name == "clone":             # ["clone", src, dst, {clone_with kwargs}]
            terms[str(op[2])] = terms[str(op[1])].clone_with(**op[3])
            attached[str(op[2])] = attached[str(op[1])]
            for kw in op[3]:
                ctx.count("api-clone_with:" + kw)
            if not op[3]:
                ctx.count("api-clone_with:(nothing)")
            continue
        if name == "setattr":           # ["setattr", who, attribute, value]: public attributes changed after construction
            if op[2] not in ("num_tmux_layers", "max_command_size", "force_placeholders", "force_direct_transmission"):
                raise ValueError(op[2])
            setattr(terms[str(op[1])], op[2], op[3])
            ctx.count("api-setattr:" + op[2])
            continue
        if name == "script":            # ["script", who, k]: from now on object `who` logs to script k (null: to none)
            terms[str(op[1])].shellscript_out = None if op[2] is None else scripts[op[2]]
            ctx.count("api-script-switch:" + ("detach" if op[2] is None else "attach" if attached[str(op[1])] is None else
                                              "same" if attached[str(op[1])] == op[2] else "other"))
            attached[str(op[1])] = op[2]
            switches += 1
            continue
        before = len(log)
        if fault is not None and op_index == fault["op"]:
            # the stream refuses one call of this operation (nothing of that call takes effect); the caller does the operation again
            ctl.update(in_op=True, armed=True, opname=name)
            try:
                _api_op(ctx, term, gc, op)
            except OSError:
                if not ctl["fired"]:
                    raise
            ctl["in_op"] = False
            ctx.count("fault:%s:%s" % (name, "not-reached" if not ctl["fired"] else ctl["fired"].split(" ")[0] + (":first" if "after 0 " in ctl["fired"] else ":later")))
            if ctl["fired"]:
                ctx.count("fault-error:" + fault["err"])
                ctl["armed"] = False
                _api_op(ctx, term, gc, op)
        else:
            _api_op(ctx, term, gc, op)
        if attached[cur] is not None:
            during[attached[cur]] += log[before:]
            if switches:
                ctx.count("api-after-switch:" + name)
    if len(terms) > 1:
        ctx.count("api-derived-terminals", len(terms) - 1)
    if len(scripts) == 1 and first == 0 and not switches and b"".join(during[0]) != (b"".join(log) if stream is not out_command else stream.getvalue()):
        raise ToolFailure("C18 harness: attribution of writes to the only script lost bytes")
    for k, script_out in enumerate(scripts):
        writes = during[k]
        written = b"".join(writes)
        script = script_out.getvalue().encode("utf-8")
        ctx.count("api-script-bytes", len(script))
        what = "public GraphicsTerminal path"
        if fault is not None and ctl["fired"]:
            what += "; one-shot %s at %s of operation %d %r, the operation then repeated: the script must print what the streams accepted" % (
                fault["err"], ctl["fired"], fault["op"], c["ops"][fault["op"]][0])
        if len(scripts) > 1:
            ctx.count("api-script:" + ("never-attached" if not writes and not script else "judged"))
            what += ", script #%d of %d: the bytes the terminal received while it was the attached one" % (k, len(scripts))
        # K: one command per stream write, each equal to the model's command for those bytes
        cmds = []
        for line in script.decode("utf-8").split("\n"):
            if not line or line.startswith("# "):
                continue
            m = CMD_RE.match(line)
            cmds.append(m.group(1) if m else line)
        model_cmds = [unhx(r).decode("utf-8") for r in d.ask_many(f"command {hx(w)}" for w in writes)]
        ctx.eq("api: script commands" + ("" if len(scripts) == 1 else " (script #%d)" % k), c, cmds, model_cmds)
        if not script and not written and len(scripts) > 1:
            continue                    # an empty script prints nothing
        judge_script(ctx, c, script, written, c.get("sh", 1), what)


# ---------------------------------------------------------------------------------------
SHSPEC = [
    ("printf -- 'x'\n", False), ("printf -- '-abc'\n", False), ("printf '-abc'\n", False), ("printf '-'\n", False),
    ("printf '--'\n", False), ("printf -- '--'\n", False), ("printf '\\055abc'\n", False),
    ("printf '-%s' \"$(printf 'abc' | base64 -w0)\"\n", False), ("printf '%s' \"$(printf '-abc' | base64 -w0)\"\n", False),
    ("printf '%s' \"$(printf -- '-abc' | base64 -w0)\"\n", False),
    ("# foo\\\nprintf 'x'\n", False), ("printf 'x' # it's \"$( \\\nprintf 'y'\n", False),
    ("printf '%s%s|' \"$(printf 'a' | base64 -w0)\" \"$(printf 'b' | base64 -w0)\" \"$(printf 'c' | base64 -w0)\"\n", False),
    ("printf 'lit' \"$(printf 'a' | base64 -w0)\"\n", True),
    ("printf '\\1\\12\\1234\\0\\08'\n", False), ("printf '%%\\\\\\n'\n", False), ("printf 'a\\000b'\n", False),
    ("printf '%s' \"$(printf 'a\\n\\n' | base64 -w0)\"\n", False), ("printf '%s|%s|'\n", False),
    ("printf 'a%'\n", False), ("  printf   'a'   \n", False), ("", False), ("\nprintf 'a'\n\n# c\n\t\n", False),
    ("printf 'a'#b\n", True), ("printf\n", False), ("printf --\n", False), ("printf 'abc' #\n", False),
    ("printf '\\400'\n", True), ("printf '%s' \"$(printf '\\377\\376\\375' | base64 -w0)\" # c '\n", False),
    ("printf 'x'\nprintf '\\047y\\042'\n", False),
]


def b64_alphabet_strings(alpha: bytes, maxlen: int):
    for n in range(0, maxlen + 1):
        for t in itertools.product(alpha, repeat=n):
            yield bytes(t)


def cases(ctx: Ctx):
    rng = ctx.rng
    quick = ctx.quick
    hi = 2  # shell level for the small fixed families: dash and bash

    def data(b: bytes, comment: str = "", sh: int = 0):
        c = {"k": "data", "d": b.hex()}
        if comment:
            c["c"] = comment
        if sh:
            c["sh"] = sh
        return c

    yield {"k": "float", "n": 140}
    for s, unspec in SHSPEC:
        c = {"k": "shspec", "s": s.encode().hex()}
        if unspec:
            c["unspecified"] = True
        yield c
    # every single byte; all pairs of troublemakers; triples of the worst
    for b in range(256):
        yield data(bytes([b]), sh=hi)
    for a, b in itertools.product(TROUBLE, repeat=2):
        yield data(a + b, sh=1)
    for t in itertools.product([b"-", b"'", b"\\", b"%", b"A", b"=", b"\n"], repeat=3):
        yield data(b"".join(t), sh=1)
    # leading dashes, as data and inside base64 runs
    dashes = [b"-", b"--", b"-n", b"-abc", b"-v", b"-vx", b"--help", b"-%s", b"- ", b"-\n", b"-QUJD", b"--QUFB", b"-e", b"---",
              b"\x1b_Ga=T;" + base64.b64encode(b"-rw-r--r-- 1 root root") + b"\x1b\\",
              base64.b64encode(b"-abc"), base64.b64encode(b"--"), base64.b64encode(b"-abcdefghijklmnopqrstuvwxyz"),
              base64.b64encode(b"--abcdefghijklmnopqrstu"), base64.b64encode(b"-"), b"a-b", b"QUJD-QUJD", b" -a"]
    for b in dashes:
        yield data(b, sh=hi)
        yield data(b, comment="leading dash", sh=1)
    # non-canonical and oddly padded base64 (D7), short and long
    odd = [b"QR==", b"QQ==", b"YWJjZGV=", b"YWJjZGU=", b"AAAA=", b"AAAA==", b"AAAA====", b"QUJD=", b"QUJDQR==", b"QUJDQUJ=",
           b"QUJDQUI=", b"AA", b"AA=", b"AAA", b"AAA=", b"AA==", b"A===", b"====", b"=AAA", b"AA=A", b"AB==", b"AAB=",
           b"/+/+", b"////", b"++++", b"+/==", b"+/8=", b"+/9=", b"9w==", b"9x==", b"abcd" * 43, b"abcd" * 43 + b"=", b"abcd" * 42 + b"abc=",
           b"abcd" * 42 + b"abd=", b"abcd" * 42 + b"ab==", b"abcd" * 42 + b"ac==", b"abcd" * 44, b"abcd" * 42 + b"abc", b"abcd" * 43 + b"a"]
    for b in odd:
        yield data(b, sh=hi)
        yield data(b"\x1b_Gi=1;" + b + b"\x1b\\", sh=1)
    # the 1.05 rule: n decoded bytes of which `extra` are '%' (one extra byte each when escaped)
    for n in [1, 2, 19, 20, 21, 39, 40, 41, 59, 60, 61, 79, 80, 81, 99, 100, 101, 119, 120, 121, 129]:
        for extra in range(0, 8):
            if extra <= n:
                dec = b"%" * extra + b"a" * (n - extra)
                yield data(base64.b64encode(dec), sh=1)
    for n in [20, 40, 60, 62, 63]:
        dec = bytes([7]) + b"a" * (n - 1)   # one \007: three extra bytes
        yield data(base64.b64encode(dec), sh=1)
    # lengths around 2 and 172
    for n in list(range(0, 8)) + list(range(123, 134)):
        dec = bytes(rng.choice(b"abcdefghijklmnopqrstuvwxyz0123456789 _.") for _ in range(n))
        e = base64.b64encode(dec)
        yield data(e, sh=1)
        yield data(e[:-1], sh=0)
        yield data(e + b"A", sh=0)
    # comments around the 80-column switch
    samples = ["x", "#", "'", '"', "it's", 'say "hi"', "$(echo no)", "`echo no`", "ends with backslash \\", "a # b", "é", "漢字", "😀",
               "tab\there", "semi; colon", "%s %d \\n"]
    for dat in [b"abc", b"\x1b[1;1H", b"-x", base64.b64encode(b"hello world, hello world"), b"'" * 5]:
        plain = export_impl(dat, "")
        L = len(plain.decode()) - 1
        for n in range(max(1, 80 - L - 3 - 3), 80 - L - 3 + 4):
            for fill in ["c", "é", "漢", "😀", "'", "#"]:
                yield data(dat, comment=(fill * n), sh=1)
        for s in samples:
            yield data(dat, comment=s, sh=hi if dat == b"abc" else 1)
            yield data(dat, comment=s + " " + "pad" * 25, sh=1)
    # random binary, printable text, base64 of both, mixtures shaped like graphics commands
    printable = bytes(range(32, 127))
    n_rand = 250 if quick else 4000
    for i in range(n_rand):
        ln = rng.choice([0, 1, 2, 3, 5, 8, 13, 40, 100, 300, 700])
        yield data(bytes(rng.randrange(256) for _ in range(rng.randrange(ln + 1))), sh=2 if i % 10 == 0 else 1)
    for i in range(n_rand):
        ln = rng.choice([1, 2, 3, 5, 8, 13, 40, 100, 300])
        yield data(bytes(rng.choice(printable) for _ in range(rng.randrange(1, ln + 1))), sh=2 if i % 10 == 0 else 1,
                   comment=("" if i % 3 else "text %d" % i))
    for i in range(n_rand):
        ln = rng.choice([1, 2, 3, 4, 6, 9, 30, 60, 100, 126, 129, 132, 200])
        kind = rng.randrange(4)
        if kind == 0:
            dec = bytes(rng.choice(printable) for _ in range(ln))
        elif kind == 1:
            dec = bytes(rng.randrange(256) for _ in range(ln))
        elif kind == 2:
            dec = bytes(rng.choice(b"abcdefghij -%\\'\n") for _ in range(ln))
        else:
            dec = bytes(rng.choice(b"abcdefghijklmnopqrstuvwxyz") for _ in range(ln))
            pos = rng.randrange(ln)
            dec = dec[:pos] + bytes([rng.choice(b"-%\\'\n\x00\xff")]) + dec[pos + 1:]
        e = base64.b64encode(dec)
        if rng.random() < 0.3 and len(e) > 4:      # damage the encoding: drop padding, flip trailing bits, extra pad
            how = rng.randrange(4)
            if how == 0:
                e = e.rstrip(b"=")
            elif how == 1 and e.endswith(b"="):
                body = e.rstrip(b"=")
                al = b"ABCDEFGHIJKLMNOPQRSTUVWXYZabcdefghijklmnopqrstuvwxyz0123456789+/"
                e = body[:-1] + bytes([al[(al.index(body[-1]) + 1) % 64]]) + e[len(body):]
            elif how == 2:
                e = e + b"="
            else:
                e = e[:rng.randrange(len(e))] + b"=" + e[rng.randrange(len(e)):]
        wrap = rng.randrange(4)
        if wrap == 0:
            b = e
        elif wrap == 1:
            b = b"\x1b_Gi=%d,a=T,f=100;" % rng.randrange(1, 1000) + e + b"\x1b\\"
        elif wrap == 2:
            b = e + bytes([rng.choice(b" \n-;,.")]) + base64.b64encode(bytes(rng.choice(printable) for _ in range(rng.randrange(1, 40))))
        else:
            b = bytes([rng.choice(b"-' \\%\n")]) + e
        yield data(b, sh=2 if i % 10 == 0 else 1, comment=("" if i % 4 else "b64 %d" % i))
    # exhaustive over reduced base64 alphabets: {A,Q,R,=,/} (zero bytes, trailing bits, padding) and
    # {Q,U,F,J,=} (every quad of Q/U/F/J letters decodes to printable bytes, so runs are accepted)
    for s in b64_alphabet_strings(b"AQR=/", 5 if quick else 7):
        yield data(s)
    for s in b64_alphabet_strings(b"QUFJ=", 5 if quick else 8):
        yield data(s)
    for s in b64_alphabet_strings(b"QF=", 8 if quick else 10):
        if len(s) > 5:
            yield data(s)
    if quick:
        for _ in range(3000):
            yield data(bytes(rng.choice(b"QUFJR=") for _ in range(rng.choice([6, 7, 8, 8, 8, 12]))))
    # CPython's strict decoder vs the model
    for s in b64_alphabet_strings(b"AQ=/B-", 5 if quick else 7):
        yield {"k": "pyb64", "d": s.hex()}
    for _ in range(1500 if quick else 20000):
        n = rng.randrange(0, 14)
        yield {"k": "pyb64", "d": bytes(rng.choice(b"ABQRgw09+/====\n -") for _ in range(n)).hex()}
    # public paths
    for i in range(60 if quick else 600):
        yield gen_api(rng, i)
    # public paths on derived terminals (clone_with, attributes changed after construction)
    yield from derived_grid(rng)
    for i in range(80 if quick else 800):
        yield gen_api_derived(rng, i)
    # public paths while the script is switched between calls
    yield from scripted_grid(rng)
    yield from fault_grid(rng, quick)
    for i in range(60 if quick else 800):
        yield gen_api_scripted(rng, i)


def gen_api_ops(rng, n):
    ops = []
    printable = bytes(range(32, 127))
    for _ in range(n):
        r = rng.randrange(12)
        if r == 0:
            ops.append(["write", bytes(rng.randrange(256) for _ in range(rng.randrange(0, 40))).hex()])
        elif r == 1:
            ops.append(["writestr", "".join(rng.choice(["a", "-", "é", "漢", "'", "%", "\\", "\n", " ", "QUJD", "😀"]) for _ in range(rng.randrange(0, 12)))])
        elif r == 2:
            ops.append(["writecmd", (rng.choice([b"", b"-", b"\x1b[6n", b"\x1b_Gi=1,a=d\x1b\\"]) + bytes(rng.choice(printable) for _ in range(rng.randrange(0, 20)))).hex()])
        elif r in (3, 4):
            payload = bytes(rng.choice([rng.randrange(256), 45, 0, 255]) for _ in range(rng.randrange(0, 400)))
            pl = None if rng.random() < 0.5 else [rng.randrange(1, 5), rng.randrange(1, 9), rng.randrange(0, 300)]
            ops.append(["transmit", rng.randrange(1, 2**32), payload.hex(), pl])
        elif r == 5:
            ops.append(["transmitfile", rng.randrange(1, 2**24), rng.choice([b"/tmp/x.png", b"-/odd name", b"/tmp/a b's.png", b"/tmp/" + b"d" * 30]).hex()])
        elif r == 6:
            ops.append(["put", rng.randrange(1, 2**32), rng.randrange(0, 2**24), rng.randrange(1, 5), rng.randrange(1, 9)])
        elif r in (7, 8):
            iid = rng.choice([1, 255, 256, 0x10000, 0x1000000, 0xFFFFFFFF, rng.randrange(1, 2**32)])
            ops.append(["placeholder", iid, rng.choice([0, 1, 255, 256, 0xFFFFFF]), rng.randrange(1, 6), rng.randrange(1, 4),
                        rng.choice(["cursor", "abs", "lf", "nosave"]), rng.randrange(0, 50), rng.randrange(0, 20)])
        elif r == 9:
            ops.append(["move", rng.choice([{"up": 3}, {"down": 12}, {"left": 1}, {"right": 100}, {"up": 1, "left": 2}, {"down": 0}])])
        elif r == 10:
            ops.append(rng.choice([["moveabs", {"col": 3}], ["moveabs", {"row": 7}], ["moveabs", {"col": 0, "row": 0}],
                                   ["margins", 2, 20], ["scroll", "up", 3], ["scroll", "down", 1000000]]))
        else:
            ops.append(["clear", rng.choice(["line", "screen", "reset"])])
    return ops


def gen_api(rng, i):
    ops = gen_api_ops(rng, rng.randrange(1, 7))
    c = {"k": "api", "ops": ops, "sh": 2 if i % 5 == 0 else 1}
    if rng.random() < 0.7:
        c["max"] = rng.choice([64, 80, 100, 150, 300, 4096])
    if rng.random() < 0.3:
        c["tmux"] = rng.choice([1, 2])
    return c


# Derived terminals: objects made with clone_with (shallow copies sharing the streams and the script) and public
# attributes changed after construction.  Whatever object an operation is called on, what it writes to the streams must be
# what the script reproduces - so nothing that shapes the bytes (wrapper template, chunk size, conversion flags) may be
# remembered from another object or from an earlier moment.
def _burst(rng, size: int):
    payload = bytes(rng.choice([rng.randrange(256), 45, 0]) for _ in range(size))
    return [["transmit", rng.randrange(1, 2**32), payload.hex(), rng.choice([None, [2, 3, 7]])],
            ["put", rng.randrange(1, 2**24), rng.randrange(1, 2**16), 2, 3],
            ["write", b"text 100%\n".hex()],
            rng.choice([["placeholder", rng.randrange(1, 2**32), 5, 3, 2, "cursor", 0, 0], ["writecmd", b"\x1b_Gi=1,a=d\x1b\\".hex()],
                        ["transmitpath", rng.randrange(1, 2**24), bytes(rng.randrange(256) for _ in range(rng.randrange(1, 90))).hex()]])]


def derived_grid(rng):
    """every (layers before, layers after) x way of deriving x chunk size: a burst of operations on the derived object and
    on the original in alternation"""
    n = 0
    for base in (0, 1, 2):
        for new in (0, 1, 2):
            for how in ("clone", "setattr", "clone-then-setattr-original", "clone-of-clone", "clone-other-options"):
                for mx in (None, 120):
                    size = rng.choice([0, 30, 150]) if mx else rng.choice([0, 30, 400])
                    b = lambda: _burst(rng, size)
                    if how == "clone":
                        ops = b() + [["clone", 0, 1, {"num_tmux_layers": new}], ["use", 1]] + b() + [["use", 0]] + b() + [["use", 1]] + b()
                    elif how == "setattr":
                        ops = b() + [["setattr", 0, "num_tmux_layers", new]] + b() + [["setattr", 0, "max_command_size", 90]] + b()
                    elif how == "clone-then-setattr-original":
                        ops = [["clone", 0, 1, {}], ["setattr", 0, "num_tmux_layers", new], ["use", 1]] + b() + [["use", 0]] + b() + \
                              [["setattr", 1, "max_command_size", 200], ["use", 1]] + b()
                    elif how == "clone-of-clone":
                        ops = [["clone", 0, 1, {"num_tmux_layers": new}], ["clone", 1, 2, {"force_placeholders": True}],
                               ["setattr", 2, "max_command_size", 100], ["setattr", 1, "num_tmux_layers", base], ["use", 2]] + b() + \
                              [["use", 0]] + b() + [["use", 1]] + b()
                    else:
                        ops = [["clone", 0, 1, {"force_direct_transmission": True, "force_placeholders": False}], ["use", 1]] + b() + \
                              [["clone", 1, 2, {"num_tmux_layers": new, "force_direct_transmission": False}], ["use", 2]] + b() + [["use", 1]] + b()
                    c = {"k": "api", "ops": ops, "sh": 2 if n % 9 == 0 else 1, "tmux": base}
                    if mx:
                        c["max"] = mx
                    n += 1
                    yield c


def gen_api_derived(rng, i):
    """random histories over up to four objects"""
    names = [0]
    ops = []
    for _ in range(rng.randrange(3, 10)):
        r = rng.random()
        if r < 0.25 and len(names) < 4:
            kw = {}
            if rng.random() < 0.7:
                kw["num_tmux_layers"] = rng.choice([0, 1, 2, 3])
            if rng.random() < 0.3:
                kw["force_placeholders"] = rng.random() < 0.5
            if rng.random() < 0.3:
                kw["force_direct_transmission"] = rng.random() < 0.5
            dst = len(names)
            ops.append(["clone", rng.choice(names), dst, kw])
            names.append(dst)
            if rng.random() < 0.7:
                ops.append(["use", dst])
        elif r < 0.45:
            who = rng.choice(names)
            attr = rng.choice(["num_tmux_layers", "num_tmux_layers", "max_command_size", "force_direct_transmission", "force_placeholders"])
            val = {"num_tmux_layers": rng.choice([0, 1, 2, 3]), "max_command_size": rng.choice([None, 64, 90, 120, 300, 4096]),
                   "force_direct_transmission": rng.random() < 0.5, "force_placeholders": rng.random() < 0.5}[attr]
            ops.append(["setattr", who, attr, val])
        elif r < 0.6:
            ops.append(["use", rng.choice(names)])
        elif r < 0.8:
            ops += _burst(rng, rng.choice([0, 10, 100, 300]))[:rng.randrange(1, 5)]
        else:
            ops += gen_api_ops(rng, rng.randrange(1, 3))
    c = {"k": "api", "ops": ops, "sh": 2 if i % 5 == 0 else 1}
    if rng.random() < 0.6:
        c["max"] = rng.choice([64, 80, 100, 150, 300, 4096])
    if rng.random() < 0.5:
        c["tmux"] = rng.choice([1, 2])
    if rng.random() < 0.2:
        c["fd"] = True
    if rng.random() < 0.2:
        c["fp"] = True
    return c


# Recordings: one long-lived terminal whose `shellscript_out` is pointed at a new script object between calls (one script
# per recording, the way tupimage.testing.cli does it), detached, and pointed back at an earlier script.  Nothing that
# decides WHERE the log goes may be remembered from an earlier call: every script must reproduce exactly the bytes the
# terminal received while that script was the one attached to the object that wrote them.
SCRIPTED_KINDS = ["transmit", "transmit-chunked", "transmit-placed", "transmitfile", "transmitpath", "put", "placeholder-cursor", "placeholder-abs",
                  "placeholder-lf", "placeholder-nosave", "write", "writestr", "writecmd", "move", "moveabs", "margins", "scroll", "clear-line",
                  "clear-screen", "clear-reset"]


def _op_of_kind(rng, kind):
    if kind.startswith("transmit") and kind not in ("transmitfile", "transmitpath"):
        size = rng.choice([150, 300, 700]) if kind == "transmit-chunked" else rng.randrange(0, 40)
        payload = bytes(rng.choice([rng.randrange(256), 45, 0]) for _ in range(size))
        return ["transmit", rng.randrange(1, 2**32), payload.hex(), [2, 3, rng.randrange(1, 300)] if kind == "transmit-placed" else None]
    if kind == "transmitfile":
        return ["transmitfile", rng.randrange(1, 2**24), rng.choice([b"/tmp/x.png", b"-/odd name", b"/tmp/a b's.png"]).hex()]
    if kind == "transmitpath":
        return ["transmitpath", rng.randrange(1, 2**24), bytes(rng.randrange(256) for _ in range(rng.randrange(1, 90))).hex()]
    if kind == "put":
        return ["put", rng.randrange(1, 2**32), rng.randrange(0, 2**24), rng.randrange(1, 5), rng.randrange(1, 9)]
    if kind.startswith("placeholder-"):
        return ["placeholder", rng.choice([1, 255, 256, 0x10000, 0x1020304, 0xFFFFFFFF, rng.randrange(1, 2**32)]), rng.choice([0, 1, 255, 0xFFFFFF]),
                rng.randrange(1, 6), rng.randrange(1, 4), kind.split("-")[1], rng.randrange(0, 50), rng.randrange(0, 20)]
    if kind == "write":
        return ["write", bytes(rng.choice([rng.randrange(256), 45, 39, 37, 92]) for _ in range(rng.randrange(1, 40))).hex()]
    if kind == "writestr":
        return ["writestr", "rec: 100% 'quoted' \\ back " + "".join(rng.choice(["a", "-", "é", "漢", "\n", "QUJD"]) for _ in range(rng.randrange(0, 8)))]
    if kind == "writecmd":
        return ["writecmd", (rng.choice([b"-", b"\x1b[6n", b"\x1b_Gi=1,a=d\x1b\\"]) + b"x" * rng.randrange(0, 9)).hex()]
    if kind == "move":
        return ["move", rng.choice([{"up": 3}, {"down": 12}, {"left": 1}, {"right": 100}, {"up": 1, "left": 2}])]
    if kind == "moveabs":
        return ["moveabs", rng.choice([{"col": 3}, {"row": 7}, {"col": 0, "row": 0}])]
    if kind == "margins":
        return ["margins", rng.randrange(0, 5), rng.randrange(10, 24)]
    if kind == "scroll":
        return ["scroll", rng.choice(["up", "down"]), rng.randrange(1, 30)]
    if kind.startswith("clear-"):
        return ["clear", kind.split("-")[1]]
    raise ValueError(kind)


def scripted_grid(rng):
    """every kind of logged call x (script given to the constructor / attached later) x (switched to a new script / detached
    and re-attached / back to the first script): the same kind of call before and after every switch"""
    n = 0
    for kind in SCRIPTED_KINDS:
        for ctor in (0, None):
            for shape in ("new", "detach", "back"):
                o = lambda: _op_of_kind(rng, kind)
                if shape == "new":
                    ops = [o(), ["script", 0, 1], o(), ["script", 0, 2], o(), o()]
                elif shape == "detach":
                    ops = [o(), ["script", 0, None], o(), ["script", 0, 1], o(), ["script", 0, None], o(), ["script", 0, 2], o()]
                else:
                    ops = [o(), ["script", 0, 1], o(), ["script", 0, 0], o(), ["script", 0, 1], o(), ["script", 0, 1], o()]
                if ctor is None:
                    ops = [o(), ["script", 0, 0]] + ops
                c = {"k": "api", "ops": ops, "scripts": 3, "ctor_script": ctor, "sh": 2 if n % 9 == 0 else 1}
                if kind == "transmit-chunked":
                    c["max"] = rng.choice([90, 120, 200])
                if kind in ("transmitfile", "transmitpath") and n % 2:
                    c["fd"] = True
                if n % 4 == 3:
                    c["tmux"] = rng.choice([1, 2])
                n += 1
                yield c


def fault_grid(rng, quick=True):
    """every kind of logged call x the position of ONE refused stream call inside it (a flush before the first write, the first
    write, a later write: the 2nd..5th chunk of a transmission, the second cursor move) x error kind x one stream for display and
    commands or two; the refused operation is repeated by the caller; calls of other kinds before and after it"""
    errs = list(FAULT_ERRORS)
    n = 0
    for kind in SCRIPTED_KINDS + ["move2", "transmit-3chunks"]:
        picks = 7 if kind in ("transmit-chunked", "transmit-3chunks") else 3 if kind in ("writecmd", "move2", "move", "transmit", "transmit-placed", "put", "transmitpath", "transmitfile") else 1
        for pick in list(range(picks)) * (1 if picks > 3 else 2):
            for split in (False, True):
                if kind == "move2":
                    target = ["move", rng.choice([{"up": 1, "left": 2}, {"down": 2, "right": 5}])]
                elif kind == "transmit-3chunks":
                    target = ["transmit", rng.randrange(1, 2**32), bytes(rng.randrange(256) for _ in range(rng.choice([200, 260]))).hex(), None]
                else:
                    target = _op_of_kind(rng, kind)
                pre = [_op_of_kind(rng, rng.choice(SCRIPTED_KINDS)) for _ in range(rng.randrange(0, 3))]
                post = [_op_of_kind(rng, rng.choice(SCRIPTED_KINDS)) for _ in range(rng.randrange(1, 3))]
                c = {"k": "api", "ops": pre + [target] + post, "sh": 2 if n % 9 == 0 else 1,
                     "fault": {"op": len(pre), "pick": pick, "err": errs[n % len(errs)], "split": split}}
                if kind in ("transmit-chunked", "transmit-3chunks"):
                    c["max"] = rng.choice([90, 120, 200]) if kind == "transmit-chunked" else 160
                elif n % 5 == 0:
                    c["max"] = rng.choice([100, 300, 4096])
                if kind in ("transmitfile", "transmitpath") and n % 2:
                    c["fd"] = True
                if n % 4 == 3:
                    c["tmux"] = rng.choice([1, 2])
                if n % 7 == 0:          # the recording goes to a script attached later / switched after the repeated operation
                    c["scripts"] = 2
                    c["ops"] = c["ops"] + [["script", 0, 1], _op_of_kind(rng, rng.choice(SCRIPTED_KINDS))]
                n += 1
                yield c


def gen_api_scripted(rng, i):
    """random recordings: mixed calls, 2-4 scripts, up to three objects (clone_with copies keep the script that was attached
    when they were made; a switch concerns the one object it is made on)"""
    nscripts = rng.randrange(2, 5)
    ctor = rng.choice([0, 0, None])
    names = [0]
    ops = []
    for _ in range(rng.randrange(4, 12)):
        r = rng.random()
        if r < 0.3:
            ops.append(["script", rng.choice(names), rng.choice(list(range(nscripts)) + [None])])
        elif r < 0.4 and len(names) < 3:
            dst = len(names)
            kw = {}
            if rng.random() < 0.4:
                kw["num_tmux_layers"] = rng.choice([0, 1, 2])
            ops.append(["clone", rng.choice(names), dst, kw])
            names.append(dst)
        elif r < 0.5 and len(names) > 1:
            ops.append(["use", rng.choice(names)])
        else:
            for _j in range(rng.randrange(1, 4)):
                ops.append(_op_of_kind(rng, rng.choice(SCRIPTED_KINDS)))
    c = {"k": "api", "ops": ops, "scripts": nscripts, "ctor_script": ctor, "sh": 2 if i % 5 == 0 else 1}
    if rng.random() < 0.5:
        c["max"] = rng.choice([80, 100, 150, 300, 4096])
    if rng.random() < 0.3:
        c["tmux"] = rng.choice([1, 2])
    if rng.random() < 0.2:
        c["fd"] = True
    if rng.random() < 0.25:
        c["fp"] = True
    return c


def _prefetch(ctx: Ctx, batch: list[dict]):
    """Run the shells once for a whole batch of `data` cases (check_case then finds the results cached)."""
    want: dict[str, list[bytes]] = {"dash": [], "bash": []}
    for c in batch:
        if c["k"] != "data":
            continue
        dat = bytes.fromhex(c["d"])
        for com in ([c.get("c", ""), ""] if c.get("c") else [""]):
            try:
                s = export_impl(dat, com)
            except Exception:
                continue
            for sh in shells_for(c.get("sh", 0), s, dat, not ctx.quick):
                want[sh].append(s)
    for sh, scripts in want.items():
        if scripts:
            runner(ctx).run_many(sh, scripts)


def run(ctx: Ctx):
    ctx.rule = ("cases: every single byte; all pairs of 24 troublemaker bytes; triples of 7; leading-dash data (plain and inside base64 runs); "
                "odd/non-canonical/over-padded base64; the 1.05 rule boundary for each multiple of 20; lengths around 2 and 172; comments of "
                "lengths around the 80-column switch with 1-4 byte characters, quotes, '#', '$(', trailing backslash; random binary, printable, "
                "base64 of both (some damaged), wrapped like graphics commands; every string over {A,Q,R,=,/} up to length 5 (thorough 7), "
                "over {Q,U,F,J,=} to length 5 (thorough 8) and over {Q,F,=} to length 8 (thorough 10); public GraphicsTerminal paths with a logging stream; "
                "the same paths on DERIVED terminals sharing the streams and the script: clone_with(num_tmux_layers / force_placeholders / "
                "force_direct_transmission), clones of clones, num_tmux_layers / max_command_size / force_* assigned after construction, operations on "
                "the derived object and on the original in alternation (grid: layers before x after in {0,1,2} x 5 ways of deriving x 2 chunk sizes; random "
                "histories over up to 4 objects), file transmissions of existing files (sent by name or inlined by a force_direct_transmission object); "
                "RECORDINGS on one long-lived terminal: shellscript_out assigned a new script object / None / an earlier script between calls, for "
                "each of 20 kinds of logged call (one-chunk, chunked and placed transmissions, file transmissions, put, placeholders in 4 forms, "
                "write bytes / str, writecmd, cursor moves, margins, scrolling, clearing, reset) x script given to the constructor or attached "
                "later x 3 switching shapes, plus random recordings over 2-4 scripts and up to 3 objects; every script judged against the bytes "
                "the terminal received while it was the one attached to the object that wrote them; recordings in which ONE write or flush "
                "of the display / command stream (one object or two) is refused (EAGAIN, EIO, EPIPE, EINTR) before taking effect and the caller "
                "repeats the operation: each kind of logged call x position of the refused call (flush before the first write, first write, "
                "later chunk / second cursor move), the script must print exactly what the streams accepted. "
                "distinct = canonical JSON; non-trivial = every case except the float table and hand-written spec scripts")
    ctx.assumptions += [
        "comments contain no newline (the library's callers never pass one; a newline would start a new script line) and no NUL/lone surrogates",
        "`sh` is dash (every shell-run case) and bash (a tenth of the cases and all small families); other shells are not exercised",
        "base64(1) is GNU coreutils: `-w0` disables wrapping",
        "a refused stream call is a write (for a directly printed placeholder: the first one; the library logs a placeholder as a whole after "
        "printing it) or a flush preceding the operation's first accepted write; a flush refused AFTER an accepted write (writecmd, send) is not "
        "injected: those bytes were accepted by the stream object but are logged only after the flush",
        "get_cursor_position is deliberately not logged to the script and is not part of the reproduced bytes",
        "a script is attached by assigning the public attribute `shellscript_out` between (not during) calls; a clone_with copy keeps logging to "
        "the script that was attached when it was made",
        "derived terminals (clone_with) share the output streams and the script stream with the original: 'the bytes the library wrote' is the "
        "concatenation of what all of them wrote, in order; placements stay virtual (a classic placement on a force_placeholders terminal queries the cursor)",
    ]
    try:
        corpus_dir = Path(__file__).resolve().parent.parent / "corpus" / "C18"
        if corpus_dir.is_dir():
            for f in sorted(corpus_dir.glob("*.json")):
                c = json.load(open(f))
                c = c.get("case", c)
                check_case(ctx, c)
                ctx.case(c)
                ctx.count("corpus")
        batch: list[dict] = []

        def flush():
            _prefetch(ctx, batch)
            for c in batch:
                check_case(ctx, c)
                ctx.case(c, nontrivial=c["k"] not in ("float", "shspec"))
            batch.clear()

        for c in cases(ctx):
            if ctx.time_left() < 0:
                ctx.count("skipped-over-budget")
                continue
            batch.append(c)
            if len(batch) >= 300:
                flush()
        flush()
        ctx.extra["shell_runs"] = runner(ctx).runs
    finally:
        runner(ctx).close()
