"""Optional measurement (VERIF_COVERAGE=1): which lines of /repo/tupimage a check actually executes.

Not part of any verdict.  It answers "what does the correspondence check see of the code?": after a run,
coverage/<prop>.json lists, per source file, the executed lines and — function by function — the lines that
no case reached.  Uses `sys.monitoring` (Python 3.12): every line location reports once and is then switched
off, so the overhead is small.  Forked children (pty hosts, crash children) inherit the monitor; they append
what they saw to coverage/.parts/<prop>/ when they leave through `os._exit` (wrapped here) or normally.
Python processes started with exec (pty hosts, CLI runs) measure themselves through harness/covsite/sitecustomize.py."""
from __future__ import annotations

import ast
import atexit
import json
import os
import sys
from pathlib import Path

_seen: set = set()
_state = {"prop": None, "prefix": None, "dir": None, "pid": None}


def enabled() -> bool:
    return os.environ.get("VERIF_COVERAGE") == "1" and hasattr(sys, "monitoring")


def start(prop: str, repo: Path, outdir: Path):
    mon = sys.monitoring
    prefix = str(Path(repo) / "tupimage") + os.sep
    parts = Path(outdir) / ".parts" / prop
    parts.mkdir(parents=True, exist_ok=True)
    for f in parts.glob("*.json"):
        f.unlink()
    _state.update(prop=prop, prefix=prefix, dir=parts, pid=os.getpid(), repo=str(repo), out=str(outdir))
    # python children started with exec measure themselves (harness/covsite/sitecustomize.py)
    site = str(Path(__file__).resolve().parent / "covsite")
    os.environ["PYTHONPATH"] = site + (os.pathsep + os.environ["PYTHONPATH"] if os.environ.get("PYTHONPATH") else "")
    os.environ["VERIF_COV_DIR"] = str(parts)
    os.environ["VERIF_COV_PREFIX"] = prefix
    tool = mon.COVERAGE_ID
    mon.use_tool_id(tool, "verif-cov")

    def on_line(code, line):
        if code.co_filename.startswith(prefix):
            _seen.add((code.co_filename, line))
        return mon.DISABLE

    mon.register_callback(tool, mon.events.LINE, on_line)
    mon.set_events(tool, mon.events.LINE)
    orig_exit = os._exit

    def _exit(code=0):
        try:
            dump_part()
        finally:
            orig_exit(code)

    os._exit = _exit
    atexit.register(dump_part)


def dump_part():
    d = _state["dir"]
    if d is None:
        return
    try:
        p = Path(d) / f"{os.getpid()}.json"
        p.write_text(json.dumps(sorted(_seen)))
    except OSError:
        pass


def _code_lines(path: str) -> dict:
    """line -> qualified function name, for every line that carries code"""
    src = Path(path).read_text()
    top = compile(src, path, "exec")
    lines = {}

    def walk(code, qual):
        for (_s, _e, ln) in code.co_lines():
            if ln is not None and ln > 0:
                lines.setdefault(ln, qual)
        for c in code.co_consts:
            if hasattr(c, "co_lines"):
                walk(c, (qual + "." if qual != "<module>" else "") + c.co_name)

    walk(top, "<module>")
    # a def/class line executes at import; docstring-only lines carry no code
    return lines


def finish():
    """merge the parts and write coverage/<prop>.json (+ a readable .txt)"""
    if _state["dir"] is None:
        return
    dump_part()
    seen = set()
    for f in Path(_state["dir"]).glob("*.json"):
        try:
            for fn, ln in json.loads(f.read_text()):
                seen.add((fn, ln))
        except (OSError, ValueError):
            pass
    prefix = _state["prefix"]
    out = {}
    txt = []
    for path in sorted(Path(prefix).glob("*.py")):
        lines = _code_lines(str(path))
        got = {ln for fn, ln in seen if fn == str(path)}
        miss_by_fn = {}
        for ln, q in sorted(lines.items()):
            if ln not in got:
                miss_by_fn.setdefault(q, []).append(ln)
        total = len(lines)
        out[path.name] = {"code_lines": total, "executed": len(got & set(lines)), "missed_by_function": miss_by_fn}
        txt.append(f"{path.name}: {len(got & set(lines))}/{total} lines executed")
        for q, ls in miss_by_fn.items():
            fn_total = sum(1 for v in lines.values() if v == q)
            txt.append(f"    {q}: {len(ls)}/{fn_total} missed: {_ranges(ls)}")
    o = Path(_state["out"])
    (o / f"{_state['prop']}.json").write_text(json.dumps(out, indent=1))
    (o / f"{_state['prop']}.txt").write_text("\n".join(txt) + "\n")
    for f in Path(_state["dir"]).glob("*.json"):
        f.unlink()


def _ranges(ls):
    out, a, b = [], None, None
    for x in ls:
        if a is None:
            a = b = x
        elif x == b + 1:
            b = x
        else:
            out.append(f"{a}" if a == b else f"{a}-{b}")
            a = b = x
    if a is not None:
        out.append(f"{a}" if a == b else f"{a}-{b}")
    return ",".join(out)
