"""C09 — a failed or interrupted transmission is never recorded as uploaded.

Fault enumeration on the real code: a pty-hosted, in-process `TupimageTerminal` whose command
stream fails (OSError) or kills the process at the k-th write/flush call, for EVERY k of the
upload, both upload methods, several payload sizes.
K: result kind, completed I/O calls, bytes accepted, "marked" vs Tup.Model.Upload (drv_e2e).
F (from the property text): a fault inside the transmission ⇒ the error reaches the caller, no
upload row for (id, terminal) appears/changes, needs_uploading stays true and the next request
transmits the image again in full; fault-free ⇒ the mark happens after the last flush.
"""
from __future__ import annotations

import json
import os
import shutil
import tempfile
from pathlib import Path

from . import e2e_util as U
from .common import Ctx

DRIVERS = ["drv_e2e"]
EVIDENCE = dict(
    level="proof",
    trusted=[
        "the upload program shape (flush; write+flush per escape code; then mark_uploaded) is tied to the code by fault enumeration, not proved of the Python",
        "sqlite autocommit statement atomicity (mark_uploaded is one INSERT..ON CONFLICT statement)",
        "OS: a killed process writes nothing further (crash variant observes it)",
    ],
)

_tty = None


def tty():
    global _tty
    if _tty is None:
        _tty = U.open_tty()
    return _tty


def _image_for(case, td):
    """returns the `image` argument of upload()"""
    img = U.noise_image(case["w"], case["h"], case["img_seed"])
    src = case["source"]
    if src == "memory":
        return img
    path = os.path.join(td, "img." + ("png" if src == "png-file" else "jpg"))
    if not os.path.exists(path):
        img.save(path, format="PNG" if src == "png-file" else "JPEG")
    return path


def _mk(td, case, log, sink=None, dbname="s.db"):
    U.scrub_env()
    cfg = dict(max_command_size=case["max_command_size"], upload_method=case["method"], id_space=case.get("id_space", "24bit"))
    t, cmd, disp = U.make_terminal(os.path.join(td, dbname), "T1", log, tty(), cmd_sink=sink, **cfg)
    return t, cmd, disp


def _dry_run(case, td):
    """fault-free run on its own database: the chunk list, and the stream state when mark_uploaded ran."""
    log = U.EventLog()
    t, cmd, disp = _mk(td, case, log, dbname="dry.db")
    seen = {}
    orig = t.id_manager.mark_uploaded

    def spy(*a, **kw):
        seen["calls"] = cmd.calls
        seen["flushed"] = cmd.flushed
        seen["bytes"] = len(cmd.buf)
        return orig(*a, **kw)

    t.id_manager.mark_uploaded = spy
    if case.get("id"):
        t.assign_id(_image_for(case, td), force_id=case["id"])
    inst = t.upload(_image_for(case, td))
    chunks = [len(e[3]) for e in log.events if e[1].startswith("cmd:") and e[2] == "write"]
    kinds = [e[2] for e in log.events if e[1].startswith("cmd:")]
    rows = U.upload_rows(os.path.join(td, "dry.db"))
    need = t.needs_uploading(inst.id)
    t.id_manager.close()
    return dict(chunks=chunks, kinds=kinds, mark_state=seen, rows=rows, needs=need, stream=cmd.value(), id=inst.id)


def check_case(ctx: Ctx, c: dict):
    d = ctx.driver("drv_e2e")
    td = tempfile.mkdtemp(prefix="vc09")
    try:
        dry = _dry_run(c, td)
        chunks = dry["chunks"]
        ncalls = len(dry["kinds"])
        ctx.count(f"chunks={len(chunks)}")
        ctx.count("method:" + c["method"] + "/" + c["source"])
        # shape of the I/O program vs the model (flush, then write+flush per escape code)
        mshape = d.ask(f"upload {','.join(map(str, chunks)) or '-'} -").split()
        ctx.eq("io program shape", c, ["flush"] + ["write", "flush"] * len(chunks), dry["kinds"])
        ctx.eq("fault-free outcome", c, ["ok", str(ncalls), str(sum(chunks)), str(sum(chunks)), "1", str(ncalls)],
               [mshape[0], mshape[1], mshape[2], mshape[3], mshape[4], mshape[5]])
        # F: fault-free ⇒ marked, and the mark came after the last byte was written and flushed
        ms = dry["mark_state"]
        if not dry["rows"] or dry["needs"]:
            ctx.violation("a complete upload was not recorded", c, {"rows": dry["rows"], "needs": dry["needs"]}, key="complete-not-marked")
        elif ms.get("calls") != ncalls or ms.get("flushed") != sum(chunks):
            ctx.violation("upload recorded before the last byte of the last chunk was written and flushed", c,
                          {"mark_at_call": ms.get("calls"), "calls": ncalls, "flushed": ms.get("flushed"), "bytes": sum(chunks)},
                          key="marked-before-last-flush")
        f = c.get("fault")
        if not f:
            return
        if f["at"] >= ncalls:
            ctx.count("fault-beyond-program")
            return
        fs = f"{f['at']}:{'died' if f['kind'] == 'died' else 'io'}:{1 if (f.get('after') and f['kind'] != 'stall') else 0}"
        model = d.ask(f"upload {','.join(map(str, chunks))} {fs}").split()
        ctx.count("fault:" + f["kind"] + ("/after" if f.get("after") else "/before"))
        stall = f["kind"] == "stall"
        pre = c.get("pre", "fresh")
        if f["kind"] == "died":
            _crash_variant(ctx, c, td, dry, model)
            return
        log = U.EventLog()
        t, cmd, disp = _mk(td, c, log)
        img = _image_for(c, td)
        # same ID as in the dry run (the header length, hence the chunking, depends on its digits)
        if pre == "recycled":
            # the ID is already marked on this terminal with ANOTHER description (recycled ID)
            t.id_manager.set_id(dry["id"], "older-description")
            t.id_manager.mark_uploaded(dry["id"], "T1", size=11)
        t.assign_id(img, force_id=dry["id"])
        rows_before = U.upload_rows(os.path.join(td, "s.db"))
        cmd.fault = f
        cmd.armed = True
        base_calls, base_bytes = cmd.calls, len(cmd.buf)
        try:
            inst = t.upload(img)
            result = "ok"
        except OSError as e:
            result = "ioerror"
        except Exception as e:  # any other exception still "reaches the caller"
            result = "other:" + type(e).__name__
        cmd.armed = False
        rows_after = U.upload_rows(os.path.join(td, "s.db"))
        marked = rows_after != rows_before
        impl = [result, str(cmd.calls - base_calls), str(len(cmd.buf) - base_bytes), "1" if marked else "0"]
        ctx.eq("faulted upload outcome", c, impl, [model[0], model[1], model[2], model[4]])
        # F
        if result == "ok":
            ctx.violation("an I/O error during the transmission did not reach the caller", c, impl, key="error-swallowed")
        if marked:
            ctx.violation("upload table changed although the transmission failed", c,
                          {"before": rows_before, "after": rows_after}, key="marked-after-fault")
        ident = dry["id"] if pre == "fresh" else None
        all_ids = [i.id for i in t.id_manager.get_all()]
        if len(all_ids) == 1:
            the_id = all_ids[0]
            if not t.needs_uploading(the_id):
                ctx.violation("needs_uploading is false after a failed transmission", c, {"id": the_id}, key="no-reupload-after-fault")
            # the next request transmits it again in full
            n0 = len(cmd.buf)
            try:
                t.upload(img)
                again = bytes(cmd.buf[n0:])
                if len(again) != sum(chunks):
                    ctx.violation("the request after a failed transmission did not transmit the image again in full", c,
                                  {"retransmitted_bytes": len(again), "full": sum(chunks)}, key="retransmit-incomplete")
                elif not [r for r in U.upload_rows(os.path.join(td, "s.db")) if r[0] == the_id and r[2] != "older-description"]:
                    ctx.violation("successful retransmission not recorded", c, key="complete-not-marked")
            except Exception as e:
                ctx.mismatch("retry raised", c, repr(e), "ok")
        t.id_manager.close()
    finally:
        shutil.rmtree(td, ignore_errors=True)


def _crash_variant(ctx, c, td, dry, model):
    f = c["fault"]
    sinkpath = os.path.join(td, "cmd.out")
    pid = os.fork()
    if pid == 0:
        try:
            sink = open(sinkpath, "wb", buffering=0)
            log = U.EventLog()
            t, cmd, disp = _mk(td, c, log, sink=sink)
            t.assign_id(_image_for(c, td), force_id=dry["id"])
            cmd.fault = f
            cmd.armed = True
            t.upload(_image_for(c, td))
            os._exit(0)
        except BaseException:
            os._exit(3)
    _, st = os.waitpid(pid, 0)
    code = os.waitstatus_to_exitcode(st)
    written = os.path.getsize(sinkpath) if os.path.exists(sinkpath) else 0
    rows = U.upload_rows(os.path.join(td, "s.db"))
    impl = ["died" if code == 77 else f"exit{code}", str(written), "1" if rows else "0"]
    ctx.eq("crashed upload outcome", c, impl, [model[0], model[2], model[4]])
    if rows:
        ctx.violation("upload recorded although the process died during the transmission", c, {"rows": rows}, key="marked-after-crash")
    # a fresh process must see that the image still needs uploading, and the database must be usable
    log = U.EventLog()
    t, cmd, disp = _mk(td, c, log)
    ids = [i.id for i in t.id_manager.get_all()]
    for i in ids:
        if not t.needs_uploading(i):
            ctx.violation("needs_uploading is false after the uploading process died", c, {"id": i}, key="no-reupload-after-crash")
    t.upload(_image_for(c, td))
    if len(cmd.buf) != sum(dry["chunks"]):
        ctx.violation("the request after a crashed transmission did not transmit the image again in full", c,
                      {"retransmitted": len(cmd.buf), "full": sum(dry["chunks"])}, key="retransmit-incomplete")
    t.id_manager.close()


def _rand_id(rng, space):
    b = lambda lo=0: rng.randrange(lo, 256)
    if space == "8bit":
        return b(1)
    if space == "16bit":
        return (b(1) << 24) | b(1)
    if space == "24bit":
        return (b(1) << 16) | (b() << 8) | b()
    return (b(1) << 24) | (b(1) << 16) | (b() << 8) | b()


def plans(ctx: Ctx):
    rng = ctx.rng
    # payload shapes: (w, h, max_command_size) chosen to give 1, 2, 3, ~7 and many chunks inline
    shapes = [(4, 4, 4096), (8, 8, 250), (8, 8, 180), (12, 12, 160), (16, 16, 120)]
    if not ctx.quick:
        shapes += [(24, 24, 130), (6, 5, 100), (32, 8, 512), (40, 40, 300)]
    out = []
    for (w, h, mcs) in shapes:
        out.append(dict(method="direct", source="memory", w=w, h=h, max_command_size=mcs))
    out.append(dict(method="direct", source="png-file", w=10, h=10, max_command_size=200))
    out.append(dict(method="file", source="png-file", w=10, h=10, max_command_size=4096))
    out.append(dict(method="file", source="jpeg-file", w=10, h=10, max_command_size=4096))   # unsupported format: temp file
    out.append(dict(method="file", source="memory", w=10, h=10, max_command_size=4096))      # temp file
    for p in out:
        sp = rng.choice(["24bit", "32bit", "8bit", "16bit"])
        yield dict(p, k="upload", img_seed=rng.randrange(1 << 30), id_space=sp, id=_rand_id(rng, sp))


def cases(ctx: Ctx):
    for p in plans(ctx):
        td = tempfile.mkdtemp(prefix="vc09p")
        try:
            ncalls = len(_dry_run(p, td)["kinds"])
        finally:
            shutil.rmtree(td, ignore_errors=True)
        yield p  # fault-free
        for at in range(ncalls + 1):
            for kind, after in (("io", False), ("io", True), ("died", False), ("stall", False)):
                if kind == "died" and ctx.quick and at % 3 != 0 and at > 4 and at != ncalls - 1:
                    continue
                yield dict(p, fault=dict(at=at, kind=kind, after=after), pre=("recycled" if (at % 4 == 3 and kind == "io") else "fresh"))


def run(ctx: Ctx):
    ctx.rule = ("every write/flush index of the upload's I/O program (learnt from a fault-free dry run) x {OSError before the call takes effect, "
                "OSError after, process death} x {inline from memory with 1/2/3/~7/many chunks, inline from a PNG file, file medium for a PNG file, "
                "temporary-file medium for a JPEG file and for an in-memory image} x {fresh, ID previously marked with another description}; "
                "distinct = canonical JSON; non-trivial = the fault index lies inside the program")
    cdir = Path(__file__).resolve().parent.parent / "corpus" / "C09"
    if cdir.is_dir():
        for f in sorted(cdir.glob("*.json")):
            c = json.load(open(f))
            check_case(ctx, c)
            ctx.case(c)
    for c in cases(ctx):
        if ctx.time_left() < 0:
            ctx.count("skipped-over-budget")
            continue
        check_case(ctx, c)
        ctx.case(c, nontrivial=bool(c.get("fault")))
    ctx.extra["exhaustive_over_fault_positions"] = True
    ctx.assumptions += [
        "a write fails either before any byte or after all bytes of that call were accepted (no partial writes)",
        "pre-existing valid upload records of the same image (forced re-upload that fails) are outside the claim: the table is left unchanged (observed by K), see DESIGN.md C09",
    ]
