"""C09 — a failed or interrupted transmission is never recorded as uploaded.

Fault enumeration on the real code: a pty-hosted, in-process `TupimageTerminal` whose command
stream fails (OSError) or kills the process at the k-th write/flush call, for EVERY k of the
upload, both upload methods, several payload sizes.
K: result kind, completed I/O calls, bytes accepted, "marked" vs Tup.Model.Upload (drv_e2e).
F (from the property text): a fault inside the transmission ⇒ the error reaches the caller, no
upload row for (id, terminal) appears/changes, needs_uploading stays true and the next request
transmits the image again in full; fault-free ⇒ the mark happens after the last flush.

Fault kinds: `io` (OSError, before / after the call took effect), `died` (the process dies there),
`stall` (EAGAIN from call k on, persistently), `eagain` (ONE-SHOT BlockingIOError at call k only: before
the call, after it, or after a prefix of the data of a write was accepted — a repetition goes through).

Wire-level clause (F): every terminal is also a specification terminal (harness/c08.py `SpecTerminal`,
which reads the command stream the way a terminal behind n tmux layers does).  What a request that
returned normally wrote must be a sequence of WELL-FORMED, COMPLETE transmissions (no command cut off
in the middle and followed by another), and afterwards that terminal must hold the requested image
under the id.  A request for an image the terminal does not hold (or whose record expired) must
transmit — so with a fault armed inside the program the error must reach the caller.

History scenarios (`k = "scenario"`) put the faulted upload behind a fault-free pre-history on the same
session database, under a controlled clock:
  * `rebind`  — one id re-bound A → B → A (force_id) with the clock stepping BACK / standing still between
                the uploads; the faulted request is the second upload of A;
  * `expired` — the faulted request is a RE-upload of a record older than reupload_max_seconds_ago, and the
                retry comes after a further clock advance (ages straddling multiples of 24 h included);
  * `clients` — the image went to ANOTHER terminal of the session first (two tmux clients behind the
                environment-driven fake tmux of harness/ptyhost.py, or two X windows), the faulted request
                and the retry are made on a terminal that never received a byte.
"""
from __future__ import annotations

import datetime as _dt
import json
import os
import shutil
import tempfile
from pathlib import Path

from . import e2e_util as U
from .c08 import SpecTerminal, token_of_image
from .common import Ctx

DRIVERS = ["drv_e2e"]
EVIDENCE = dict(
    level="proof",
    trusted=[
        "the upload program shape (flush; write+flush per escape code; then mark_uploaded) is tied to the code by fault enumeration, not proved of the Python",
        "sqlite autocommit statement atomicity (mark_uploaded is one INSERT..ON CONFLICT statement)",
        "OS: a killed process writes nothing further (crash variant observes it)",
        "the specification terminal of harness/c08.py (escape-code framing, tmux pass-through, chunk reassembly) and PIL's decoders judge what a terminal received",
    ],
)

_tty = None


def tty():
    global _tty
    if _tty is None:
        _tty = U.open_tty()
    return _tty


# ---------------------------------------------------------------------------------------------
# controlled clock for tupimage.id_manager (history scenarios)
# ---------------------------------------------------------------------------------------------
class _Clock:
    """`datetime.now()` of tupimage.id_manager: returns the harness's time, which advances by `tick_us` per reading
    (0 = the clock stands still) and otherwise only when the scenario says so (forwards or BACKWARDS)."""

    EPOCH = _dt.datetime(2030, 1, 1)

    def __init__(self, tick_us=1000):
        self.t = _dt.datetime(2030, 6, 1, 12, 0, 0, 1)
        self.tick = _dt.timedelta(microseconds=tick_us)

    def install(self):
        from tupimage import id_manager as im
        clock = self

        class FakeDT(_dt.datetime):
            @classmethod
            def now(cls, tz=None):
                clock.t += clock.tick
                return clock.t

        self._orig = im.datetime
        im.datetime = FakeDT

    def uninstall(self):
        from tupimage import id_manager as im
        im.datetime = self._orig

    def add(self, micros):
        self.t += _dt.timedelta(microseconds=micros)

    def micros(self):
        return int((self.t - self.EPOCH) / _dt.timedelta(microseconds=1))


# ---------------------------------------------------------------------------------------------
# images, terminals
# ---------------------------------------------------------------------------------------------
def _image_for(case, td, which=0):
    """returns the `image` argument of upload(); `which` selects another picture of the same shape (scenarios)"""
    img = U.noise_image(case["w"], case["h"], case["img_seed"] + which)
    src = case["source"]
    if src == "memory":
        return img
    path = os.path.join(td, ("img" if not which else f"img{which}") + "." + ("png" if src == "png-file" else "jpg"))
    if not os.path.exists(path):
        img.save(path, format="PNG" if src == "png-file" else "JPEG")
    return path


def _token_for(case, td, which=0):
    """content token (as SpecTerminal computes it from what arrived) of the pixels the request asks for"""
    from PIL import Image
    img = _image_for(case, td, which)
    if isinstance(img, str):
        img = Image.open(img)
        img.load()
    return token_of_image(img) + f"@{img.size[0]}x{img.size[1]}"


def _layers(case):
    tm = case.get("tmux")
    return int(tm["layers"]) if tm else 0


def _mk(td, case, log, sink=None, dbname="s.db", detect_as=None):
    """detect_as = name of a scenario client: the library detects terminal name/id and session id itself (from the
    environment the harness has set for that client); otherwise the fixed terminal id T1."""
    U.scrub_env()
    cfg = dict(max_command_size=case["max_command_size"], upload_method=case["method"], id_space=case.get("id_space", "24bit"))
    cfg.update(case.get("config", {}))
    if case.get("tmux"):
        cfg["num_tmux_layers"] = _layers(case)
    if detect_as is None:
        return U.make_terminal(os.path.join(td, dbname), "T1", log, tty(), cmd_sink=sink, **cfg)
    return U.make_terminal(os.path.join(td, dbname), None, log, tty(), cmd_sink=sink, terminal_name=None, session_id=None,
                           stream_name=detect_as, **cfg)


class _Env:
    """PATH with the fake tmux first (cases with tmux layers); restores the environment on exit"""

    def __init__(self, case, td):
        self.case, self.td = case, td

    def __enter__(self):
        self.saved = dict(os.environ)
        tm = self.case.get("tmux")
        if tm:
            from .ptyhost import write_fake_tmux
            write_fake_tmux(os.path.join(self.td, "bin"))
            os.environ["PATH"] = os.path.join(self.td, "bin") + ":" + self.saved.get("PATH", "")
            os.environ["FAKE_TMUX_pid"] = str(tm.get("server_pid", 4000))
            os.environ["FAKE_TMUX_session_id"] = tm.get("session", "$3")
            os.environ["FAKE_TMUX_client_pid"] = "4001"
            os.environ["FAKE_TMUX_client_termname"] = "xterm-kitty"
        return self

    def attach(self, client):
        """make `client` (a dict: tmux client pid/termname, or X window id) the terminal the process talks to"""
        if self.case.get("tmux"):
            os.environ["FAKE_TMUX_client_pid"] = str(client["pid"])
            os.environ["FAKE_TMUX_client_termname"] = client.get("termname", "xterm-kitty")
        elif "windowid" in client:
            os.environ["WINDOWID"] = client["windowid"]

    def __exit__(self, *a):
        for k in list(os.environ):
            if k not in self.saved:
                del os.environ[k]
        os.environ.update(self.saved)


# ---------------------------------------------------------------------------------------------
# the specification side: what a terminal received
# ---------------------------------------------------------------------------------------------
def _deliver(spec, segment: bytes, now: int):
    """the bytes one request wrote reach the terminal; returns the framing defects of THIS segment"""
    if spec.partial is not None:
        # left open by an EARLIER request (a reported failure): closed as incomplete at the request boundary
        spec._arrive_incomplete(now)
    m0, n0 = spec.malformed, len(spec.log)
    spec.feed(bytes(segment), now, lambda *a: None)
    new = spec.log[:len(spec.log) - n0]
    defects = []
    if spec.malformed > m0:
        defects.append(f"{spec.malformed - m0} piece(s) that are not well-formed escape codes / wrappers")
    cut = sum(1 for a in new if a["token"] == "INCOMPLETE")
    if cut:
        defects.append(f"{cut} chunked transmission(s) cut off and followed by another command")
    if spec.partial is not None:
        defects.append("ends inside a chunked transmission (last chunk with m=1)")
    bad = [a["token"] for a in new if a["token"] in ("UNREADABLE", "UNDECODABLE")]
    if bad:
        defects.append("payload(s) the terminal cannot read/decode: " + ",".join(bad))
    return defects, len(new)


def _holds(spec, iid, token):
    if spec.partial is not None and int(spec.partial["keys"].get("i", 0)) == iid:
        return False
    for a in spec.log:          # newest first
        if a["id"] == iid:
            return a["token"] == token
    return False


def _latest(spec, iid):
    for a in spec.log:
        if a["id"] == iid:
            return a
    return None


def _rows_full(dbfile):
    import sqlite3
    con = sqlite3.connect(dbfile)
    try:
        return sorted(con.execute("SELECT id, terminal, description, size, upload_time FROM upload").fetchall())
    finally:
        con.close()


# ---------------------------------------------------------------------------------------------
# the fault-free dry run: learns the I/O program of the request
# ---------------------------------------------------------------------------------------------
_DRY = {}


def _plan_key(case):
    return json.dumps([case.get(k) for k in ("method", "source", "w", "h", "img_seed", "max_command_size", "id_space", "id", "config")]
                      + [_layers(case), _req_client(case)], sort_keys=True)


def _req_client(case):
    """(name, description) of the scenario client the faulted request is made on; None = the fixed terminal T1"""
    cl = case.get("clients")
    if cl and case.get("req") and cl.get(case["req"]["client"]):
        return [case["req"]["client"], cl[case["req"]["client"]]]
    return None


def _dry_run(case, td):
    """fault-free run on its own database: the chunk list, and the stream state when mark_uploaded ran.
    Deterministic in the plan (memoised per process; only lengths and states are used, never the paths)."""
    key = _plan_key(case)
    if key not in _DRY:
        _DRY[key] = _dry_run_uncached(case, td)
    return _DRY[key]


def _dry_run_uncached(case, td):
    with _Env(case, td) as env:
        log = U.EventLog()
        rc = _req_client(case)
        if rc:
            # the terminal program behind the client decides what is sent (formats it decodes): detect as that client
            env.attach(rc[1])
            t, cmd, disp = _mk(td, case, log, dbname="dry.db", detect_as=rc[0])
            env.attach(rc[1])
        else:
            t, cmd, disp = _mk(td, case, log, dbname="dry.db")
        seen = {}
        orig = t.id_manager.mark_uploaded

        def spy(*a, **kw):
            seen["calls"] = cmd.calls
            seen["flushed"] = cmd.flushed
            seen["bytes"] = len(cmd.buf)
            return orig(*a, **kw)

        t.id_manager.mark_uploaded = spy
        if case.get("id"):
            t.assign_id(_image_for(case, td), force_id=case["id"])
        inst = t.upload(_image_for(case, td))
        chunks = [len(e[3]) for e in log.events if e[1].startswith("cmd:") and e[2] == "write"]
        kinds = [e[2] for e in log.events if e[1].startswith("cmd:")]
        rows = U.upload_rows(os.path.join(td, "dry.db"))
        need = t.needs_uploading(inst.id)
        t.id_manager.close()
        # F (wire): the fault-free request wrote well-formed complete transmissions and the terminal holds the image
        spec = SpecTerminal("dry", layers=_layers(case))
        defects, _n = _deliver(spec, cmd.value(), 0)
        holds = _holds(spec, inst.id, _token_for(case, td))
        try:
            os.unlink(os.path.join(td, "dry.db"))
        except OSError:
            pass
        return dict(chunks=chunks, kinds=kinds, mark_state=seen, rows=rows, needs=need, stream=cmd.value(), id=inst.id,
                    wire_defects=defects, holds=holds)


def _fault_spec(c, f, dry):
    """(driver fault token, extra bytes accepted by a partial write) for the model request"""
    partial = 0
    after = bool(f.get("after")) and f["kind"] != "stall"
    if f["kind"] == "eagain" and f.get("partial"):
        after = False
        if f["at"] < len(dry["kinds"]) and dry["kinds"][f["at"]] == "write":
            n = dry["chunks"][(f["at"] - 1) // 2]
            partial = n // 2 if n >= 2 else 0
    return f"{f['at']}:{'died' if f['kind'] == 'died' else 'io'}:{1 if after else 0}", partial


def _fault_label(f):
    return "fault:" + f["kind"] + ("/partial" if f.get("partial") else "/after" if f.get("after") else "/before")


def check_case(ctx: Ctx, c: dict):
    if c.get("k") == "scenario":
        return _check_scenario(ctx, c)
    d = ctx.driver("drv_e2e")
    td = tempfile.mkdtemp(prefix="vc09")
    try:
        dry = _dry_run(c, td)
        chunks = dry["chunks"]
        ncalls = len(dry["kinds"])
        ctx.count(f"chunks={len(chunks)}")
        ctx.count("method:" + c["method"] + "/" + c["source"])
        # shape of the I/O program vs the model (flush, then write+flush per escape code)
        mshape = d.ask(f"upload {','.join(map(str, chunks)) or '-'} -").split()
        ctx.eq("io program shape", c, ["flush"] + ["write", "flush"] * len(chunks), dry["kinds"])
        ctx.eq("fault-free outcome", c, ["ok", str(ncalls), str(sum(chunks)), str(sum(chunks)), "1", str(ncalls)],
               [mshape[0], mshape[1], mshape[2], mshape[3], mshape[4], mshape[5]])
        # F: fault-free ⇒ marked, and the mark came after the last byte was written and flushed
        ms = dry["mark_state"]
        if not dry["rows"] or dry["needs"]:
            ctx.violation("a complete upload was not recorded", c, {"rows": dry["rows"], "needs": dry["needs"]}, key="complete-not-marked")
        elif ms.get("calls") != ncalls or ms.get("flushed") != sum(chunks):
            ctx.violation("upload recorded before the last byte of the last chunk was written and flushed", c,
                          {"mark_at_call": ms.get("calls"), "calls": ncalls, "flushed": ms.get("flushed"), "bytes": sum(chunks)},
                          key="marked-before-last-flush")
        if dry["rows"] and (dry["wire_defects"] or not dry["holds"]):
            ctx.violation("upload recorded, but what the terminal received is not a well-formed complete transmission of the image", c,
                          {"defects": dry["wire_defects"], "terminal_holds_image": dry["holds"]}, key="recorded-but-wire-not-complete")
        f = c.get("fault")
        if not f:
            return
        if f["at"] >= ncalls:
            ctx.count("fault-beyond-program")
            return
        fs, partial = _fault_spec(c, f, dry)
        model = d.ask(f"upload {','.join(map(str, chunks))} {fs}").split()
        ctx.count(_fault_label(f))
        pre = c.get("pre", "fresh")
        if f["kind"] == "died":
            _crash_variant(ctx, c, td, dry, model)
            return
        log = U.EventLog()
        t, cmd, disp = _mk(td, c, log)
        spec = SpecTerminal("T1")
        img = _image_for(c, td)
        token = _token_for(c, td)
        # same ID as in the dry run (the header length, hence the chunking, depends on its digits)
        if pre == "recycled":
            # the ID is already marked on this terminal with ANOTHER description (recycled ID)
            t.id_manager.set_id(dry["id"], "older-description")
            t.id_manager.mark_uploaded(dry["id"], "T1", size=11)
        t.assign_id(img, force_id=dry["id"])
        rows_before = U.upload_rows(os.path.join(td, "s.db"))
        cmd.fault = f
        cmd.armed = True
        cmd.eagain_fired = False
        base_calls, base_bytes = cmd.calls, len(cmd.buf)
        try:
            inst = t.upload(img)
            result = "ok"
        except OSError as e:
            result = "ioerror"
        except Exception as e:  # any other exception still "reaches the caller"
            result = "other:" + type(e).__name__
        cmd.armed = False
        rows_after = U.upload_rows(os.path.join(td, "s.db"))
        marked = rows_after != rows_before
        impl = [result, str(cmd.calls - base_calls), str(len(cmd.buf) - base_bytes), "1" if marked else "0"]
        ctx.eq("faulted upload outcome", c, impl, [model[0], model[1], str(int(model[2]) + partial), model[4]])
        # F
        if result == "ok":
            ctx.violation("an I/O error during the transmission did not reach the caller", c, impl, key="error-swallowed")
        if marked:
            ctx.violation("upload table changed although the transmission failed", c,
                          {"before": rows_before, "after": rows_after}, key="marked-after-fault")
        # F (wire): the bytes of this request reach the terminal; if the upload counts as done, they must be well-formed
        # complete transmissions and the terminal must hold the image
        defects, _n = _deliver(spec, bytes(cmd.buf[base_bytes:]), 1)
        all_ids = [i.id for i in t.id_manager.get_all()]
        if len(all_ids) == 1 and (marked or result == "ok") and not t.needs_uploading(all_ids[0]) \
                and (defects or not _holds(spec, all_ids[0], token)):
            ctx.violation("the image counts as uploaded, but what the terminal received during the request is not a sequence of "
                          "well-formed complete transmissions of it (a command cut off in the middle, followed by another)", c,
                          {"result": result, "defects": defects, "terminal_holds_image": _holds(spec, all_ids[0], token),
                           "bytes_written": len(cmd.buf) - base_bytes, "one_transmission": sum(chunks)}, key="recorded-but-wire-not-complete")
        if len(all_ids) == 1:
            the_id = all_ids[0]
            if not t.needs_uploading(the_id):
                ctx.violation("needs_uploading is false after a failed transmission", c, {"id": the_id}, key="no-reupload-after-fault")
            # the next request transmits it again in full
            n0 = len(cmd.buf)
            try:
                t.upload(img)
                again = bytes(cmd.buf[n0:])
                defects, _n = _deliver(spec, again, 2)
                if len(again) != sum(chunks):
                    ctx.violation("the request after a failed transmission did not transmit the image again in full", c,
                                  {"retransmitted_bytes": len(again), "full": sum(chunks)}, key="retransmit-incomplete")
                elif not [r for r in U.upload_rows(os.path.join(td, "s.db")) if r[0] == the_id and r[2] != "older-description"]:
                    ctx.violation("successful retransmission not recorded", c, key="complete-not-marked")
                elif defects or not _holds(spec, the_id, token):
                    ctx.violation("after the retry the upload is recorded, but the retry did not write a well-formed complete transmission "
                                  "of the image", c, {"defects": defects, "terminal_holds_image": _holds(spec, the_id, token)},
                                  key="recorded-but-wire-not-complete")
            except Exception as e:
                ctx.mismatch("retry raised", c, repr(e), "ok")
        t.id_manager.close()
    finally:
        shutil.rmtree(td, ignore_errors=True)


def _crash_variant(ctx, c, td, dry, model):
    f = c["fault"]
    sinkpath = os.path.join(td, "cmd.out")
    pid = os.fork()
    if pid == 0:
        try:
            sink = open(sinkpath, "wb", buffering=0)
            log = U.EventLog()
            t, cmd, disp = _mk(td, c, log, sink=sink)
            t.assign_id(_image_for(c, td), force_id=dry["id"])
            cmd.fault = f
            cmd.armed = True
            t.upload(_image_for(c, td))
            os._exit(0)
        except BaseException:
            os._exit(3)
    _, st = os.waitpid(pid, 0)
    code = os.waitstatus_to_exitcode(st)
    written = os.path.getsize(sinkpath) if os.path.exists(sinkpath) else 0
    rows = U.upload_rows(os.path.join(td, "s.db"))
    impl = ["died" if code == 77 else f"exit{code}", str(written), "1" if rows else "0"]
    ctx.eq("crashed upload outcome", c, impl, [model[0], model[2], model[4]])
    if rows:
        ctx.violation("upload recorded although the process died during the transmission", c, {"rows": rows}, key="marked-after-crash")
    # a fresh process must see that the image still needs uploading, and the database must be usable
    log = U.EventLog()
    t, cmd, disp = _mk(td, c, log)
    ids = [i.id for i in t.id_manager.get_all()]
    for i in ids:
        if not t.needs_uploading(i):
            ctx.violation("needs_uploading is false after the uploading process died", c, {"id": i}, key="no-reupload-after-crash")
    t.upload(_image_for(c, td))
    if len(cmd.buf) != sum(dry["chunks"]):
        ctx.violation("the request after a crashed transmission did not transmit the image again in full", c,
                      {"retransmitted": len(cmd.buf), "full": sum(dry["chunks"])}, key="retransmit-incomplete")
    t.id_manager.close()


# ---------------------------------------------------------------------------------------------
# history scenarios: a fault-free pre-history, then the faulted request, a clock advance, the retry
# ---------------------------------------------------------------------------------------------
AGE_GUARD_US = 1_000_000     # scenarios whose record age is within 1 s of the configured limit are not judged


def _check_scenario(ctx: Ctx, c: dict):
    d = ctx.driver("drv_e2e")
    td = tempfile.mkdtemp(prefix="vc09s")
    clock = _Clock(c.get("tick_us", 1000))
    try:
        dry = _dry_run(c, td)           # (on the real clock, its own database: the I/O program of "upload image 0 under the id")
        chunks = dry["chunks"]
        ncalls = len(dry["kinds"])
        f = c["fault"]
        ctx.count("scenario:" + c.get("family", "?"))
        if f["at"] >= ncalls:
            ctx.count("fault-beyond-program")
            return
        fs, partial = _fault_spec(c, f, dry)
        model = d.ask(f"upload {','.join(map(str, chunks))} {fs}").split()
        ctx.count(_fault_label(f))
        layers = _layers(c)
        clients = c.get("clients") or {"T": {}}
        limit_us = int(c.get("config", {}).get("reupload_max_seconds_ago", 3600)) * 1_000_000
        dbfile = os.path.join(td, "s.db")
        the_id = c["id"]
        clock.install()
        with _Env(c, td) as env:
            log = U.EventLog()
            terms = {}

            def term(name):
                env.attach(clients[name])
                if name not in terms:
                    t, cmd, disp = _mk(td, c, log, detect_as=(name if clients[name] else None))
                    terms[name] = dict(t=t, cmd=cmd, spec=SpecTerminal(name, layers=layers), pos=0)
                    env.attach(clients[name])      # (_mk scrubs WINDOWID)
                return terms[name]

            def deliver(T):
                seg = bytes(T["cmd"].buf[T["pos"]:])
                T["pos"] += len(seg)
                defects, n = _deliver(T["spec"], seg, clock.micros())
                return seg, defects

            def request(T, which):
                return T["t"].upload(_image_for(c, td, which), force_id=the_id)

            # ---- the fault-free pre-history
            for step in c.get("pre_steps", []):
                if step["op"] == "clock":
                    clock.add(step["add_us"])
                    ctx.count("clock:back" if step["add_us"] < 0 else "clock:still" if step["add_us"] == 0 else "clock:forward")
                    continue
                T = term(step["client"])
                request(T, step["img"])
                seg, defects = deliver(T)
                if defects or not _holds(T["spec"], the_id, _token_for(c, td, step["img"])):
                    ctx.violation("a fault-free request returned, but its terminal does not hold the requested image under the id "
                                  "(or received malformed / cut-off commands)", c,
                                  {"step": step, "defects": defects, "bytes_written": len(seg),
                                   "terminal_latest": _latest(T["spec"], the_id)}, key="returned-but-terminal-lacks-image")
            # ---- the faulted request
            rq = c["req"]
            T = term(rq["client"])
            t, cmd, spec = T["t"], T["cmd"], T["spec"]
            token = _token_for(c, td, rq["img"])
            latest = _latest(spec, the_id)
            held = _holds(spec, the_id, token)
            age = clock.micros() - latest["time"] if latest else None
            if held and abs(age - limit_us) < AGE_GUARD_US:
                ctx.count("not-judged:age-near-limit")
                return
            must_transmit = (not held) or age > limit_us
            ctx.count("request:" + ("terminal-lacks-image" if not held else "record-expired" if must_transmit else "held-and-fresh"))
            if not must_transmit:
                return          # (not generated: nothing of C09 to judge when no transmission is due)
            rows_before = _rows_full(dbfile)
            base_calls, base_bytes = cmd.calls, len(cmd.buf)
            cmd.fault = dict(f, at=f["at"] + base_calls)     # (the stream counts its calls from the first request on)
            cmd.armed = True
            cmd.eagain_fired = False
            try:
                request(T, rq["img"])
                result = "ok"
            except OSError:
                result = "ioerror"
            except Exception as e:
                result = "other:" + type(e).__name__
            cmd.armed = False
            rows_after = _rows_full(dbfile)
            marked = rows_after != rows_before
            nbytes = len(cmd.buf) - base_bytes
            impl = [result, str(cmd.calls - base_calls), str(nbytes), "1" if marked else "0"]
            ctx.eq("faulted upload outcome (after a history)", c, impl, [model[0], model[1], str(int(model[2]) + partial), model[4]])
            seg, defects = deliver(T)
            why = ("its terminal does not hold the image under the id (latest arrival: %r)" % (latest and latest["token"],) if not held
                   else "the record of its last upload is %.0f s old (limit %.0f s)" % (age / 1e6, limit_us / 1e6))
            if result == "ok" and cmd.calls - base_calls <= f["at"]:
                ctx.violation("the request returned without transmitting although " + why + "; the write/flush that was to fail was "
                              "never reached, so no error could reach the caller", c,
                              {"io_calls": cmd.calls - base_calls, "bytes_written": nbytes, "fault": f, "upload_rows": rows_after,
                               "library_terminal_id": t._terminal_id},
                              key="no-transmission-although-terminal-lacks-image" if not held else "no-transmission-although-record-expired")
            elif result == "ok":
                ctx.violation("an I/O error during the transmission did not reach the caller", c, impl, key="error-swallowed")
            if marked:
                ctx.violation("upload table changed although the transmission failed", c,
                              {"before": rows_before, "after": rows_after}, key="marked-after-fault")
            if result == "ok" and nbytes and (defects or not _holds(spec, the_id, token)):
                ctx.violation("the request returned normally, but what its terminal received during the request is not a sequence of "
                              "well-formed complete transmissions of the image", c,
                              {"defects": defects, "terminal_holds_image": _holds(spec, the_id, token), "bytes_written": nbytes,
                               "one_transmission": sum(chunks)}, key="recorded-but-wire-not-complete")
            env.attach(clients[rq["client"]])
            if not t.needs_uploading(the_id):
                ctx.violation("needs_uploading is false after a failed transmission", c,
                              {"id": the_id, "when": "right after the failure", "library_terminal_id": t._terminal_id,
                               "upload_rows": rows_after}, key="no-reupload-after-fault")
            # ---- time passes; the image still has to be sent, and the retry sends it in full
            gap = int(c.get("gap_us", 0))
            clock.add(gap)
            if gap and not t.needs_uploading(the_id):
                ctx.violation("needs_uploading became false without any successful transmission, just by time passing after a failed one", c,
                              {"id": the_id, "record_age_s_at_failure": age and age / 1e6, "gap_s": gap / 1e6, "upload_rows": rows_after},
                              key="no-reupload-after-fault")
            try:
                request(T, rq["img"])
                again, defects = deliver(T)
                if len(again) != sum(chunks):
                    ctx.violation("the request after a failed transmission did not transmit the image again in full", c,
                                  {"retransmitted_bytes": len(again), "full": sum(chunks), "gap_s": gap / 1e6,
                                   "record_age_s_at_failure": age and age / 1e6, "library_terminal_id": t._terminal_id},
                                  key="retransmit-incomplete")
                elif defects or not _holds(spec, the_id, token):
                    ctx.violation("the retry did not leave a well-formed complete transmission of the image on its terminal", c,
                                  {"defects": defects, "terminal_latest": _latest(spec, the_id)}, key="recorded-but-wire-not-complete")
                elif t.needs_uploading(the_id):
                    ctx.violation("successful retransmission not recorded", c, key="complete-not-marked")
            except Exception as e:
                ctx.mismatch("retry raised", c, repr(e), "ok")
            for T in terms.values():
                T["t"].id_manager.close()
    finally:
        try:
            clock.uninstall()
        except AttributeError:
            pass
        shutil.rmtree(td, ignore_errors=True)


# ---------------------------------------------------------------------------------------------
# generators
# ---------------------------------------------------------------------------------------------
def _rand_id(rng, space):
    b = lambda lo=0: rng.randrange(lo, 256)
    if space == "8bit":
        return b(1)
    if space == "16bit":
        return (b(1) << 24) | b(1)
    if space == "24bit":
        return (b(1) << 16) | (b() << 8) | b()
    return (b(1) << 24) | (b(1) << 16) | (b() << 8) | b()


def plans(ctx: Ctx):
    rng = ctx.rng
    # payload shapes: (w, h, max_command_size) chosen to give 1, 2, 3, ~7 and many chunks inline
    shapes = [(4, 4, 4096), (8, 8, 250), (8, 8, 180), (12, 12, 160), (16, 16, 120)]
    if not ctx.quick:
        shapes += [(24, 24, 130), (6, 5, 100), (32, 8, 512), (40, 40, 300)]
    out = []
    for (w, h, mcs) in shapes:
        out.append(dict(method="direct", source="memory", w=w, h=h, max_command_size=mcs))
    out.append(dict(method="direct", source="png-file", w=10, h=10, max_command_size=200))
    out.append(dict(method="file", source="png-file", w=10, h=10, max_command_size=4096))
    out.append(dict(method="file", source="jpeg-file", w=10, h=10, max_command_size=4096))   # unsupported format: temp file
    out.append(dict(method="file", source="memory", w=10, h=10, max_command_size=4096))      # temp file
    for p in out:
        sp = rng.choice(["24bit", "32bit", "8bit", "16bit"])
        yield dict(p, k="upload", img_seed=rng.randrange(1 << 30), id_space=sp, id=_rand_id(rng, sp))


FAULT_KINDS = (("io", False, False), ("io", True, False), ("died", False, False), ("stall", False, False),
               ("eagain", False, False), ("eagain", True, False), ("eagain", False, True))


def _ncalls(p):
    td = tempfile.mkdtemp(prefix="vc09p")
    try:
        return len(_dry_run(p, td)["kinds"])
    finally:
        shutil.rmtree(td, ignore_errors=True)


def cases(ctx: Ctx):
    for p in plans(ctx):
        ncalls = _ncalls(p)
        yield p  # fault-free
        for at in range(ncalls + 1):
            for kind, after, partial in FAULT_KINDS:
                if kind == "died" and ctx.quick and at % 3 != 0 and at > 4 and at != ncalls - 1:
                    continue
                if partial and at % 2 == 0:
                    continue          # (a prefix can only be accepted by a write; flush calls are covered by before/after)
                fault = dict(at=at, kind=kind, after=after)
                if partial:
                    fault["partial"] = True
                yield dict(p, fault=fault, pre=("recycled" if (at % 4 == 3 and kind == "io") else "fresh"))
    yield from scenario_cases(ctx)


H = 3600 * 1_000_000
MIN = 60 * 1_000_000
# (clock step between upload A and upload B, clock step between upload B and the faulted request for A, tick per clock reading)
REBIND_CLOCKS = [(-H, 0, 1000), (-1, 0, 0), (0, 0, 0), (-48 * H, H, 1000), (H, -2 * H, 1000), (-MIN, -MIN, 0), (-5000, 0, 1000), (H, 0, 1000)]
# (reupload_max_seconds_ago or None = default 1 h, age of the record at the faulted re-upload, age at the retry), µs
EXPIRED_AGES = [(None, 23 * H + 50 * MIN, 24 * H + 5 * MIN), (None, 47 * H + 59 * MIN, 48 * H + MIN), (None, 2 * H, 3 * H),
                (None, H + 100_000_000, H + 200_000_000), (None, 25 * H - MIN, 49 * H + 30 * MIN), (60, 24 * H - 10_000_000, 24 * H + 30_000_000),
                (None, 23 * H, 23 * H + 30 * MIN), (None, 30 * 24 * H + 2 * H, 31 * 24 * H + 10 * MIN), (86400, 24 * H + MIN, 48 * H + 2 * MIN),
                (7200, 5 * H, 24 * H + H)]
# the other terminal of the session that received the image first
CLIENT_SETUPS = [
    dict(tmux=dict(layers=1, server_pid=4000, session="$3"), clients={"a": {"pid": 4101, "termname": "xterm-kitty"}, "b": {"pid": 4202, "termname": "xterm-kitty"}}),
    dict(tmux=dict(layers=2, server_pid=977, session="$0"), clients={"a": {"pid": 31007, "termname": "xterm-kitty"}, "b": {"pid": 31008, "termname": "xterm-kitty"}}),
    dict(clients={"a": {"windowid": "41943046"}, "b": {"windowid": "41943047"}}),
    dict(tmux=dict(layers=1, server_pid=4000, session="$12"), clients={"a": {"pid": 4101, "termname": "xterm-256color"}, "b": {"pid": 41010, "termname": "xterm-256color"}}),
    dict(tmux=dict(layers=1, server_pid=4000, session="$3"), clients={"a": {"pid": 4101, "termname": "xterm-kitty"}, "b": {"pid": 4202, "termname": "st-256color"}}),
]
SCENARIO_FAULTS = [("io", False, False), ("eagain", True, False), ("io", True, False), ("eagain", False, False), ("stall", False, False),
                   ("eagain", False, True)]


def scenario_cases(ctx: Ctx):
    rng = ctx.rng
    shapes = [dict(method="direct", source="memory", w=8, h=8, max_command_size=180),
              dict(method="file", source="png-file", w=10, h=10, max_command_size=4096),
              dict(method="file", source="memory", w=10, h=10, max_command_size=4096)]
    if not ctx.quick:
        shapes += [dict(method="direct", source="png-file", w=10, h=10, max_command_size=200),
                   dict(method="file", source="jpeg-file", w=10, h=10, max_command_size=4096),
                   dict(method="direct", source="memory", w=12, h=12, max_command_size=160)]
    n = 0
    for si, sh in enumerate(shapes):
        sp = rng.choice(["24bit", "32bit", "8bit", "16bit"])
        base = dict(sh, k="scenario", img_seed=rng.randrange(1 << 30), id_space=sp, id=_rand_id(rng, sp))

        def faults(ncalls, variants, per_position):
            """every write/flush index of the program × `per_position` variants (all of them in the thorough tier), fault kinds in turn"""
            nonlocal n
            for at in range(ncalls):
                vs = range(len(variants)) if not ctx.quick else [(at * per_position + j + si) % len(variants) for j in range(per_position)]
                for vi in vs:
                    kind, after, partial = SCENARIO_FAULTS[n % len(SCENARIO_FAULTS)]
                    n += 1
                    fault = dict(at=at, kind=kind, after=after)
                    if partial and at % 2 == 1:
                        fault["partial"] = True
                    yield variants[vi], fault

        ncalls = _ncalls(base)
        for (d1, d2, tick), fault in faults(ncalls, REBIND_CLOCKS, 2):
            yield dict(base, family="rebind", tick_us=tick, fault=fault, req={"client": "T", "img": 0},
                       pre_steps=[{"op": "upload", "client": "T", "img": 0}, {"op": "clock", "add_us": d1},
                                  {"op": "upload", "client": "T", "img": 1}, {"op": "clock", "add_us": d2}])
        for (limit, age1, age2), fault in faults(ncalls, EXPIRED_AGES, 2):
            cdict = dict(base, family="expired", fault=fault, req={"client": "T", "img": 0}, gap_us=age2 - age1,
                         pre_steps=[{"op": "upload", "client": "T", "img": 0}, {"op": "clock", "add_us": age1}])
            if limit is not None:
                cdict["config"] = {"reupload_max_seconds_ago": limit}
            yield cdict
        if ctx.quick and si == 2:
            continue        # (every request inside tmux costs a `tmux` child process)
        for vi, setup in enumerate(CLIENT_SETUPS):
            b2 = dict(base, req={"client": "b", "img": 0}, **setup)
            for at in range(_ncalls(b2)):        # (the program is longer behind tmux layers: the wrappers count against the limit)
                if ctx.quick and (at + si) % len(CLIENT_SETUPS) != vi:
                    continue
                kind, after, partial = SCENARIO_FAULTS[n % len(SCENARIO_FAULTS)]
                n += 1
                fault = dict(at=at, kind=kind, after=after)
                if partial and at % 2 == 1:
                    fault["partial"] = True
                yield dict(b2, family="clients", fault=fault, gap_us=rng.choice([0, 0, MIN, 2 * H]),
                           pre_steps=[{"op": "upload", "client": "a", "img": 0}])


def run(ctx: Ctx):
    ctx.rule = ("every write/flush index of the upload's I/O program (learnt from a fault-free dry run) x {OSError before the call takes effect, "
                "OSError after, process death, persistent EAGAIN, one-shot EAGAIN before / after / after a partial write} x {inline from memory "
                "with 1/2/3/~7/many chunks, inline from a PNG file, file medium for a PNG file, "
                "temporary-file medium for a JPEG file and for an in-memory image} x {fresh, ID previously marked with another description}; "
                "history scenarios under a controlled clock, every fault index of 3 (thorough: 6) upload shapes: one id re-bound A->B->A with the "
                "clock stepping back / standing still, re-upload of an expired record with the retry after a further advance (ages straddling "
                "multiples of 24 h), image first uploaded through another tmux client / X window of the session; "
                "distinct = canonical JSON; non-trivial = the fault index lies inside the program")
    cdir = Path(__file__).resolve().parent.parent / "corpus" / "C09"
    if cdir.is_dir():
        for f in sorted(cdir.glob("*.json")):
            c = json.load(open(f))
            check_case(ctx, c)
            ctx.case(c)
    for c in cases(ctx):
        if ctx.time_left() < 0:
            ctx.count("skipped-over-budget")
            continue
        check_case(ctx, c)
        ctx.case(c, nontrivial=bool(c.get("fault")))
    ctx.extra["exhaustive_over_fault_positions"] = True
    ctx.assumptions += [
        "a write fails before any byte, after all bytes, or (one-shot EAGAIN) after the first half of the bytes of that call were accepted",
        "pre-existing valid upload records of the same image (forced re-upload that fails) are outside the claim: the table is left unchanged (observed by K), see DESIGN.md C09",
        "history scenarios: a request is judged only when the specification terminal lacks the image or its last arrival is older than the configured age limit by more than 1 s (then a transmission is due)",
    ]
