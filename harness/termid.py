"""Terminal-identity scenarios (shared by C04 and C08): one long-lived TupimageTerminal whose
window (WINDOWID, hence the detected terminal id) changes between requests.  Each window is its own
specification terminal; what the library writes while a window is current arrives at that window.
After every upload()/upload_and_display() the CURRENT window must hold the requested image under the
returned id ("uploaded only to another terminal sharing the session" must not count).

Variants of the same scenario:
  * c["tmux"] = {"layers": n, "server_pid", "session", "clients": {window: {"pid", "termname"}}}: the library runs
    inside tmux (num_tmux_layers = n); a "window" is a tmux CLIENT (its own terminal emulator).  A fake `tmux` first
    in PATH (harness/ptyhost.py: FAKE_TMUX_ENV) expands the format variables of `display-message -p` from
    FAKE_TMUX_* environment variables, so switching the window = another client_pid/client_termname attached to the
    same server and session; WINDOWID (inherited from the tmux server, stale) does not change.
  * re-upload thresholds in c["config"] (through keywords or c["config_via"] = "overrides"), including the value 0:
    with a threshold of 0 no earlier upload can satisfy "fewer than 0 other images" / "no more than 0 bytes (the
    image itself included)" / "no more than 0 seconds", so every upload() must transmit and needs_uploading() must
    stay True; the retention judgement `printok` then runs with the default thresholds (Spec.printOk with
    maxUploads = 0 is constantly false).
  * step {"op": "wait", "us": n}: the clock advances by n microseconds between two requests (reupload_max_seconds_ago
    configured as 1 / 60 / 3600 or left at its default).  `printok` carries the age clause (a terminal keeps an image no
    longer than the configured time), so a request made after more than the configured time must transmit again; and (C04:
    "when all of that holds it does not ask for a re-upload") a request that repeats the previous one on the same terminal
    with nothing but waits shorter than the configured time since its transmission must transmit nothing.
  * "force": true / false on a request = the per-call `force_upload` argument; "force_upload" in c["config"] = the configured
    one (a per-call false then asks for the ordinary, record-driven behaviour).  A forced upload is an upload like any other:
    it goes to the terminal that is attached NOW, and afterwards every terminal is still judged by what it received.
  * tmux that cannot be reached: step {"op": "tmux", "mode": "silent" | "fail" | "blank" | "ok"} (for every client),
    tm["mode"] (from the start, i.e. already when the object is created) or clients[w]["reach"] (for one client): the fake
    `tmux display-message` then prints nothing and exits 0 / prints tmux's "error connecting to ..." on stderr and exits 1 /
    prints an empty line.  The library cannot know which terminal it is talking to; a call that REFUSES to work (raises) is
    tolerated there and counted, what it wrote before raising still arrives at the current terminal, and whatever is printed
    (by a refusing call or by one that carried on) is judged as always: a placeholder only for an image that terminal holds."""
from __future__ import annotations

import datetime as _dt
import os
import shutil
import tempfile

from . import e2e_util as U
from .c08 import SpecTerminal, Clock, _make_pool, _expected_token, tty, decode_placeholders, PLACEHOLDER

AGE_GUARD_US = 50_000        # the harness reads the clock after a call, the library inside it (1 ms per reading)


def _write_modal_fake_tmux(bin_dir) -> str:
    """the environment-driven fake tmux of harness/ptyhost.py behind a reachability switch (FAKE_TMUX_MODE)"""
    from .ptyhost import FAKE_TMUX_ENV
    shebang, body = FAKE_TMUX_ENV.split("\n", 1)
    prelude = ('case "$FAKE_TMUX_MODE" in\n'
               '  silent) exit 0;;\n'
               '  blank) echo; exit 0;;\n'
               '  fail) echo "error connecting to /tmp/tmux-1000/default (No such file or directory)" >&2; exit 1;;\n'
               'esac\n')
    os.makedirs(str(bin_dir), exist_ok=True)
    path = os.path.join(str(bin_dir), "tmux")
    with open(path, "w") as f:
        f.write(shebang + "\n" + prelude + body)
    os.chmod(path, 0o755)
    return path


def check_terminal_switch(ctx, c: dict, prop: str):
    import tupimage
    d = ctx.driver("drv_e2e")
    td = tempfile.mkdtemp(prefix="vtid")
    clock = Clock()
    clock.install()
    U.scrub_env()
    saved_path = os.environ.get("PATH", "")
    tm = c.get("tmux")
    layers = int(tm["layers"]) if tm else 0

    def attach(w):
        """make `w` the current window: another X window, or (inside tmux) another attached client"""
        if tm:
            cl = tm["clients"][w]
            os.environ["FAKE_TMUX_client_pid"] = str(cl["pid"])
            os.environ["FAKE_TMUX_client_termname"] = cl.get("termname", "xterm-kitty")
        else:
            os.environ["WINDOWID"] = w

    try:
        os.environ["WINDOWID"] = "w0"
        cfg = dict(c.get("config", {}))
        if tm:
            from .ptyhost import write_fake_tmux
            write_fake_tmux(os.path.join(td, "bin"))
            os.environ["PATH"] = os.path.join(td, "bin") + ":" + saved_path
            os.environ["FAKE_TMUX_pid"] = str(tm.get("server_pid", 4000))
            os.environ["FAKE_TMUX_session_id"] = tm.get("session", "$3")
            cfg["num_tmux_layers"] = layers
            ctx.count("tmux-scenarios")
        attach("w0")
        log = U.EventLog()
        cmd = U.CapStream("cmd", log, tty())
        disp = U.CapStream("disp", log, tty())
        if c.get("config_via") == "overrides":
            t = tupimage.TupimageTerminal(out_command=cmd, out_display=disp, in_response=None, id_database=os.path.join(td, "s.db"),
                                          config="DEFAULT", session_id="S", config_overrides=cfg)
        else:
            t = tupimage.TupimageTerminal(out_command=cmd, out_display=disp, in_response=None, id_database=os.path.join(td, "s.db"),
                                          config="DEFAULT", session_id="S", **cfg)
        pool = _make_pool(td, c["pool"])
        windows = {"w0": SpecTerminal("w0", layers=layers)}
        cur = "w0"
        pos = 0
        thr = (cfg.get("reupload_max_uploads_ago", 1024), cfg.get("reupload_max_bytes_ago", 20 * 1024 * 1024),
               cfg.get("reupload_max_seconds_ago", 3600) * 1_000_000)
        zero = 0 in thr
        if zero:
            ctx.count("zero-threshold-scenarios")
            thr_j = (1024, 20 * 1024 * 1024, 3600 * 1_000_000)
        else:
            thr_j = thr
        for step in c["steps"]:
            if step["op"] == "win":
                cur = step["w"]
                attach(cur)
                windows.setdefault(cur, SpecTerminal(cur, layers=layers))
                ctx.count("window-switches")
                continue
            e = pool[step["img"] % len(pool)]
            arg = e["image"] if e["image"] is not None else e["path"]
            token, size, mode = _expected_token(e)
            if step["op"] == "upload":
                inst = t.upload(arg, cols=step.get("cols", 2), rows=step.get("rows", 1))
                iid, rows, cols = inst.id, inst.rows, inst.cols
            else:
                ph = t.upload_and_display(arg, cols=step.get("cols", 2), rows=step.get("rows", 1))
                iid, rows, cols = ph.image_id, ph.end_row - ph.start_row, ph.end_col - ph.start_col
            data = cmd.value()[pos:]
            pos += len(data)
            ctx.count("uploads:transmitted" if data else "uploads:skipped")
            windows[cur].feed(data, clock.micros(), lambda *a: None)
            if zero:
                # judged by the statement alone: nothing recorded earlier can satisfy a threshold of 0
                still_needed = t.needs_uploading(iid)
                if not data or not still_needed:
                    ctx.violation("a configured re-upload threshold of 0 is not honoured: " +
                                  ("upload() transmitted nothing" if not data else "needs_uploading() is False right after the upload"), c,
                                  {"step": step, "window": cur, "id": iid, "thresholds(uploads,bytes,us)": list(thr), "transmitted_bytes": len(data),
                                   "needs_uploading": still_needed, "library_thresholds": [t._config.reupload_max_uploads_ago,
                                   t._config.reupload_max_bytes_ago, t._config.reupload_max_seconds_ago]}, key="zero-threshold-not-honoured")
            r = d.ask(f"printok {thr_j[0]} {thr_j[1]} {thr_j[2]} {iid} {token} {rows} {cols} {clock.micros()} {windows[cur].wire_log()}")
            if not r.startswith("1"):
                ctx.violation("no upload although the current terminal does not hold the image (it went to another terminal of the session, "
                              "or was lost)", c, {"step": step, "window": cur, "id": iid, "terminal_holds": r.split(" ", 1)[1],
                                                  "library_terminal_id": t._terminal_id},
                              key="other-terminal-counts-as-uploaded" if prop == "C04" else "print-without-image")
        t.id_manager.close()
    finally:
        clock.uninstall()
        os.environ["PATH"] = saved_path
        for k in [k for k in os.environ if k.startswith("FAKE_TMUX_")]:
            del os.environ[k]
        shutil.rmtree(td, ignore_errors=True)


def cases(rng, n):
    for _ in range(n):
        steps = []
        wins = ["w0", "w1", "w2"]
        cur, sent, after_switch = "w0", [], False
        for _j in range(rng.randrange(4, 11)):
            r = rng.random()
            if r < 0.3 and not after_switch:
                cur = rng.choice([w for w in wins if w != cur] if rng.random() < 0.9 else wins)
                steps.append({"op": "win", "w": cur})
                after_switch = True
            else:
                # right after a switch, mostly ask for an image (with the geometry) that some other window already received
                if sent and rng.random() < (0.85 if after_switch else 0.4):
                    img, cols = rng.choice(sent)
                else:
                    img, cols = rng.randrange(3), rng.randrange(1, 4)
                sent.append((img, cols))
                steps.append({"op": rng.choice(["upload", "upload_and_display"]), "img": img, "cols": cols, "rows": 1})
                after_switch = False
        c = {"k": "terminal-switch", "config": {"upload_method": "direct", "id_space": rng.choice(["8bit", "24bit"]),
                                                "id_subspace": rng.choice(["5:8", "0:256"])},
             "pool": [["png", 8, 8, rng.randrange(1 << 30)] for _ in range(3)], "steps": steps}
        r = rng.random()
        if r < 0.35:
            # inside tmux: the windows are tmux clients of one server and session (same terminal emulator, or another one)
            c["tmux"] = {"layers": rng.choice([1, 1, 2]), "server_pid": 4000, "session": "$3",
                         "clients": {w: {"pid": 4101 + 101 * k, "termname": rng.choice(["xterm-kitty", "xterm-kitty", "xterm-256color"]) if k else "xterm-kitty"}
                                     for k, w in enumerate(wins)}}
        r = rng.random()
        if r < 0.35:
            # non-default re-upload thresholds incl. 0 ("every request transmits"), through keywords or config_overrides
            name, vals = rng.choice([("reupload_max_uploads_ago", [0, 0, 1, 2, 3]), ("reupload_max_bytes_ago", [0]), ("reupload_max_seconds_ago", [0])])
            c["config"][name] = rng.choice(vals)
            if rng.random() < 0.5:
                c["config_via"] = "overrides"
        yield c
