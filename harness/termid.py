"""Terminal-identity scenarios (shared by C04 and C08): one long-lived TupimageTerminal whose
window (WINDOWID, hence the detected terminal id) changes between requests.  Each window is its own
specification terminal; what the library writes while a window is current arrives at that window.
After every upload()/upload_and_display() the CURRENT window must hold the requested image under the
returned id ("uploaded only to another terminal sharing the session" must not count)."""
from __future__ import annotations

import os
import shutil
import tempfile

from . import e2e_util as U
from .c08 import SpecTerminal, Clock, _make_pool, _expected_token, tty


def check_terminal_switch(ctx, c: dict, prop: str):
    import tupimage
    d = ctx.driver("drv_e2e")
    td = tempfile.mkdtemp(prefix="vtid")
    clock = Clock()
    clock.install()
    U.scrub_env()
    try:
        os.environ["WINDOWID"] = "w0"
        log = U.EventLog()
        cmd = U.CapStream("cmd", log, tty())
        disp = U.CapStream("disp", log, tty())
        cfg = dict(c.get("config", {}))
        t = tupimage.TupimageTerminal(out_command=cmd, out_display=disp, in_response=None, id_database=os.path.join(td, "s.db"),
                                      config="DEFAULT", session_id="S", **cfg)
        pool = _make_pool(td, c["pool"])
        windows = {"w0": SpecTerminal("w0")}
        cur = "w0"
        pos = 0
        thr = (cfg.get("reupload_max_uploads_ago", 1024), cfg.get("reupload_max_bytes_ago", 20 * 1024 * 1024),
               cfg.get("reupload_max_seconds_ago", 3600) * 1_000_000)
        for step in c["steps"]:
            if step["op"] == "win":
                cur = step["w"]
                os.environ["WINDOWID"] = cur
                windows.setdefault(cur, SpecTerminal(cur))
                ctx.count("window-switches")
                continue
            e = pool[step["img"] % len(pool)]
            arg = e["image"] if e["image"] is not None else e["path"]
            token, size, mode = _expected_token(e)
            if step["op"] == "upload":
                inst = t.upload(arg, cols=step.get("cols", 2), rows=step.get("rows", 1))
                iid, rows, cols = inst.id, inst.rows, inst.cols
            else:
                ph = t.upload_and_display(arg, cols=step.get("cols", 2), rows=step.get("rows", 1))
                iid, rows, cols = ph.image_id, ph.end_row - ph.start_row, ph.end_col - ph.start_col
            data = cmd.value()[pos:]
            pos += len(data)
            ctx.count("uploads:transmitted" if data else "uploads:skipped")
            windows[cur].feed(data, clock.micros(), lambda *a: None)
            r = d.ask(f"printok {thr[0]} {thr[1]} {thr[2]} {iid} {token} {rows} {cols} {clock.micros()} {windows[cur].wire_log()}")
            if not r.startswith("1"):
                ctx.violation("no upload although the current terminal does not hold the image (it went to another terminal of the session, "
                              "or was lost)", c, {"step": step, "window": cur, "id": iid, "terminal_holds": r.split(" ", 1)[1],
                                                  "library_terminal_id": t._terminal_id},
                              key="other-terminal-counts-as-uploaded" if prop == "C04" else "print-without-image")
        t.id_manager.close()
    finally:
        clock.uninstall()
        shutil.rmtree(td, ignore_errors=True)


def cases(rng, n):
    for _ in range(n):
        steps = []
        wins = ["w0", "w1", "w2"]
        for _j in range(rng.randrange(3, 9)):
            r = rng.random()
            if r < 0.35:
                steps.append({"op": "win", "w": rng.choice(wins)})
            else:
                steps.append({"op": rng.choice(["upload", "upload_and_display"]), "img": rng.randrange(3), "cols": rng.randrange(1, 4), "rows": 1})
        yield {"k": "terminal-switch", "config": {"upload_method": "direct", "id_space": rng.choice(["8bit", "24bit"]),
                                                  "id_subspace": rng.choice(["5:8", "0:256"])},
               "pool": [["png", 8, 8, rng.randrange(1 << 30)] for _ in range(3)], "steps": steps}
