"""Terminal-identity scenarios (shared by C04 and C08): one long-lived TupimageTerminal whose
window (WINDOWID, hence the detected terminal id) changes between requests.  Each window is its own
specification terminal; what the library writes while a window is current arrives at that window.
After every upload()/upload_and_display() the CURRENT window must hold the requested image under the
returned id ("uploaded only to another terminal sharing the session" must not count).

Variants of the same scenario:
  * c["tmux"] = {"layers": n, "server_pid", "session", "clients": {window: {"pid", "termname"}}}: the library runs
    inside tmux (num_tmux_layers = n); a "window" is a tmux CLIENT (its own terminal emulator).  A fake `tmux` first
    in PATH (harness/ptyhost.py: FAKE_TMUX_ENV) expands the format variables of `display-message -p` from
    FAKE_TMUX_* environment variables, so switching the window = another client_pid/client_termname attached to the
    same server and session; WINDOWID (inherited from the tmux server, stale) does not change.
  * re-upload thresholds in c["config"] (through keywords or c["config_via"] = "overrides"), including the value 0:
    with a threshold of 0 no earlier upload can satisfy "fewer than 0 other images" / "no more than 0 bytes (the
    image itself included)" / "no more than 0 seconds", so every upload() must transmit and needs_uploading() must
    stay True; the retention judgement `printok` then runs with the default thresholds (Spec.printOk with
    maxUploads = 0 is constantly false).
  * step {"op": "wait", "us": n}: the clock advances by n microseconds between two requests (reupload_max_seconds_ago
    configured as 1 / 60 / 3600 or left at its default).  `printok` carries the age clause (a terminal keeps an image no
    longer than the configured time), so a request made after more than the configured time must transmit again; and (C04:
    "when all of that holds it does not ask for a re-upload") a request that repeats the previous one on the same terminal
    with nothing but waits shorter than the configured time since its transmission must transmit nothing.
  * "force": true / false on a request = the per-call `force_upload` argument; "force_upload" in c["config"] = the configured
    one (a per-call false then asks for the ordinary, record-driven behaviour).  A forced upload is an upload like any other:
    it goes to the terminal that is attached NOW, and afterwards every terminal is still judged by what it received.
  * tmux that cannot be reached: step {"op": "tmux", "mode": "silent" | "fail" | "blank" | "ok"} (for every client),
    tm["mode"] (from the start, i.e. already when the object is created) or clients[w]["reach"] (for one client): the fake
    `tmux display-message` then prints nothing and exits 0 / prints tmux's "error connecting to ..." on stderr and exits 1 /
    prints an empty line.  The library cannot know which terminal it is talking to; a call that REFUSES to work (raises) is
    tolerated there and counted, what it wrote before raising still arrives at the current terminal, and whatever is printed
    (by a refusing call or by one that carried on) is judged as always: a placeholder only for an image that terminal holds."""
from __future__ import annotations

import datetime as _dt
import os
import shutil
import tempfile

from . import e2e_util as U
from .c08 import SpecTerminal, Clock, _make_pool, _expected_token, tty, decode_placeholders, PLACEHOLDER

AGE_GUARD_US = 50_000        # the harness reads the clock after a call, the library inside it (1 ms per reading)


def _write_modal_fake_tmux(bin_dir) -> str:
    """the environment-driven fake tmux of harness/ptyhost.py behind a reachability switch (FAKE_TMUX_MODE)"""
    from .ptyhost import FAKE_TMUX_ENV
    shebang, body = FAKE_TMUX_ENV.split("\n", 1)
    prelude = ('case "$FAKE_TMUX_MODE" in\n'
               '  silent) exit 0;;\n'
               '  blank) echo; exit 0;;\n'
               '  fail) echo "error connecting to /tmp/tmux-1000/default (No such file or directory)" >&2; exit 1;;\n'
               'esac\n')
    os.makedirs(str(bin_dir), exist_ok=True)
    path = os.path.join(str(bin_dir), "tmux")
    with open(path, "w") as f:
        f.write(shebang + "\n" + prelude + body)
    os.chmod(path, 0o755)
    return path


def check_terminal_switch(ctx, c: dict, prop: str):
    import tupimage
    d = ctx.driver("drv_e2e")
    td = tempfile.mkdtemp(prefix="vtid")
    clock = Clock()
    clock.install()
    U.scrub_env()
    saved_path = os.environ.get("PATH", "")
    tm = c.get("tmux")
    layers = int(tm["layers"]) if tm else 0
    mode = {"all": (tm or {}).get("mode"), "now": "ok"}      # reachability of tmux: for every client / in force now

    def set_mode(w):
        m = mode["all"] or (tm["clients"][w].get("reach", "ok") if tm else "ok")
        mode["now"] = m
        if m == "ok":
            os.environ.pop("FAKE_TMUX_MODE", None)
        else:
            os.environ["FAKE_TMUX_MODE"] = m

    def attach(w):
        """make `w` the current window: another X window, or (inside tmux) another attached client"""
        if tm:
            cl = tm["clients"][w]
            os.environ["FAKE_TMUX_client_pid"] = str(cl["pid"])
            os.environ["FAKE_TMUX_client_termname"] = cl.get("termname", "xterm-kitty")
            set_mode(w)
        else:
            os.environ["WINDOWID"] = w

    try:
        os.environ["WINDOWID"] = "w0"
        cfg = dict(c.get("config", {}))
        if tm:
            _write_modal_fake_tmux(os.path.join(td, "bin"))
            os.environ["PATH"] = os.path.join(td, "bin") + ":" + saved_path
            os.environ["FAKE_TMUX_pid"] = str(tm.get("server_pid", 4000))
            os.environ["FAKE_TMUX_session_id"] = tm.get("session", "$3")
            cfg["num_tmux_layers"] = layers
            ctx.count("tmux-scenarios")
        attach("w0")
        log = U.EventLog()
        cmd = U.CapStream("cmd", log, tty())
        disp = U.CapStream("disp", log, tty())
        try:
            if c.get("config_via") == "overrides":
                t = tupimage.TupimageTerminal(out_command=cmd, out_display=disp, in_response=None, id_database=os.path.join(td, "s.db"),
                                              config="DEFAULT", session_id="S", config_overrides=cfg)
            else:
                t = tupimage.TupimageTerminal(out_command=cmd, out_display=disp, in_response=None, id_database=os.path.join(td, "s.db"),
                                              config="DEFAULT", session_id="S", **cfg)
        except Exception as ex:          # noqa: BLE001
            if mode["now"] == "ok":
                raise
            # tmux cannot be reached while the object is created: refusing to start is fine, nothing was printed
            ctx.count("tmux-unreachable:constructor-refused:" + type(ex).__name__)
            if PLACEHOLDER.encode() in disp.value():
                ctx.violation("a constructor that refused to work printed a placeholder", c, {"exception": repr(ex)[:200]},
                              key="print-without-image" if prop != "C04" else "other-terminal-counts-as-uploaded")
            return
        pool = _make_pool(td, c["pool"])
        windows = {"w0": SpecTerminal("w0", layers=layers)}
        cur = "w0"
        pos = dpos = 0
        thr = (cfg.get("reupload_max_uploads_ago", 1024), cfg.get("reupload_max_bytes_ago", 20 * 1024 * 1024),
               cfg.get("reupload_max_seconds_ago", 3600) * 1_000_000)
        zero = 0 in thr
        if zero:
            ctx.count("zero-threshold-scenarios")
            thr_j = (1024, 20 * 1024 * 1024, 3600 * 1_000_000)
        else:
            thr_j = thr
        if "reupload_max_seconds_ago" in cfg:
            ctx.count(f"configured-max-seconds:{cfg['reupload_max_seconds_ago']}")
        # the request chain "same image, same geometry, same terminal, nothing but waits in between": (window, img, cols, rows) and the
        # clock reading BEFORE the call of the chain that transmitted last (the recorded upload time is not earlier than that)
        chain = None

        def judge(iid, token, rows, cols, step, what):
            r = d.ask(f"printok {thr_j[0]} {thr_j[1]} {thr_j[2]} {iid} {token} {rows} {cols} {clock.micros()} {windows[cur].wire_log()}")
            if r.startswith("1"):
                return
            aged = False
            if not zero:
                # is the age clause alone what the terminal lost the image by?  (and is the age clear of the limit: the harness and the
                # library read the clock a few ticks apart)
                r_hi = d.ask(f"printok {thr_j[0]} {thr_j[1]} {thr_j[2] + AGE_GUARD_US} {iid} {token} {rows} {cols} {clock.micros()} {windows[cur].wire_log()}")
                if r_hi.startswith("1"):
                    ctx.count("age-within-guard-of-limit:not-judged")
                    return
                r_inf = d.ask(f"printok {thr_j[0]} {thr_j[1]} {10**15} {iid} {token} {rows} {cols} {clock.micros()} {windows[cur].wire_log()}")
                aged = r_inf.startswith("1")
            if aged:
                ctx.violation("no upload although more than the configured time has passed since this terminal received the image", c,
                              {"step": step, "window": cur, "id": iid, "configured_seconds": thr_j[2] // 1_000_000, "now_us": clock.micros(),
                               "terminal_log(id:token:rows:cols:size:time)": windows[cur].wire_log()[:300], "library_terminal_id": t._terminal_id},
                              key="no-reupload-after-configured-time" if prop == "C04" else "print-without-image")
            else:
                ctx.violation(what, c, {"step": step, "window": cur, "id": iid, "terminal_holds": r.split(" ", 1)[1],
                                        "library_terminal_id": t._terminal_id, "tmux": mode["now"] if tm else None},
                              key="other-terminal-counts-as-uploaded" if prop == "C04" else "print-without-image")

        for step in c["steps"]:
            if step["op"] == "win":
                cur = step["w"]
                attach(cur)
                windows.setdefault(cur, SpecTerminal(cur, layers=layers))
                ctx.count("window-switches")
                chain = None
                continue
            if step["op"] == "wait":
                clock.t += _dt.timedelta(microseconds=int(step["us"]))
                ctx.count("waits:" + ("<1s" if step["us"] < 1_000_000 else "<1h" if step["us"] < 3_600_000_000 else "<1d" if step["us"] < 86_400_000_000 else ">=1d"))
                continue
            if step["op"] == "tmux":
                mode["all"] = None if step["mode"] == "ok" else step["mode"]
                set_mode(cur)
                ctx.count("tmux-mode:" + step["mode"])
                chain = None
                continue
            e = pool[step["img"] % len(pool)]
            arg = e["image"] if e["image"] is not None else e["path"]
            token, size, _mode = _expected_token(e)
            kw = {}
            if "force" in step:
                kw["force_upload"] = bool(step["force"])
            forced = bool(step.get("force", cfg.get("force_upload", False)))
            unreachable = bool(tm) and mode["now"] != "ok"
            t_before = clock.micros()
            refused, broken = None, False
            try:
                if step["op"] == "upload":
                    inst = t.upload(arg, cols=step.get("cols", 2), rows=step.get("rows", 1), **kw)
                    iid, rows, cols = inst.id, inst.rows, inst.cols
                else:
                    ph = t.upload_and_display(arg, cols=step.get("cols", 2), rows=step.get("rows", 1), **kw)
                    iid, rows, cols = ph.image_id, ph.end_row - ph.start_row, ph.end_col - ph.start_col
            except Exception as ex:          # noqa: BLE001
                refused = type(ex).__name__
                if not unreachable:
                    # nothing stands in the way of this request (the terminal can be identified, the image exists): the display model
                    # (Model.Display.upload) serves it.  A broken correspondence, not by itself a violation; what was printed is judged,
                    # and the scenario ends here
                    ctx.mismatch("terminal-switch-request-raised", c, repr(ex)[:200], "returns")
                    broken = True
            data = cmd.value()[pos:]
            pos += len(data)
            shown = disp.value()[dpos:]
            dpos += len(shown)
            windows[cur].feed(data, clock.micros(), lambda *a: None)
            if forced:
                ctx.count("forced-uploads:" + ("per-call" if "force" in step else "configured"))
            if unreachable:
                ctx.count("tmux-unreachable:" + ("refused:" + refused if refused else "carried-on"))
            if refused:
                # the library refused to work without knowing its terminal: only what it printed (if anything) is judged
                chain = None
                if PLACEHOLDER.encode() in shown:
                    for (pid_, _pl), cells in sorted(decode_placeholders(shown).items()):
                        judge(pid_, token, 1 + max(r_ for r_, _c in cells), 1 + max(c_ for _r, c_ in cells), step,
                              "a call that refused to work printed a placeholder for an image the current terminal does not hold")
                if broken:
                    break
                continue
            ctx.count("uploads:transmitted" if data else "uploads:skipped")
            if zero:
                # judged by the statement alone: nothing recorded earlier can satisfy a threshold of 0
                still_needed = t.needs_uploading(iid)
                if not data or not still_needed:
                    ctx.violation("a configured re-upload threshold of 0 is not honoured: " +
                                  ("upload() transmitted nothing" if not data else "needs_uploading() is False right after the upload"), c,
                                  {"step": step, "window": cur, "id": iid, "thresholds(uploads,bytes,us)": list(thr), "transmitted_bytes": len(data),
                                   "needs_uploading": still_needed, "library_thresholds": [t._config.reupload_max_uploads_ago,
                                   t._config.reupload_max_bytes_ago, t._config.reupload_max_seconds_ago]}, key="zero-threshold-not-honoured")
            judge(iid, token, rows, cols, step,
                  "no upload although the current terminal does not hold the image (it went to another terminal of the session, or was lost)")
            # C04, "when all of that holds it does not ask for a re-upload": the request repeats the previous one on the same terminal, the
            # only thing that happened since that one's transmission is time, and less of it than the configured limit
            req = (cur, step["img"] % len(pool), step.get("cols", 2), step.get("rows", 1))
            if chain is not None and chain[0] == req and not forced and not zero and not unreachable:
                age_upper = clock.micros() - chain[1]
                if age_upper + AGE_GUARD_US < thr[2]:
                    ctx.count("repeat-within-configured-time:" + ("re-transmitted" if data else "skipped"))
                    if data and prop == "C04":
                        ctx.violation("re-upload although the terminal received this image at most "
                                      f"{age_upper} us ago (configured limit {thr[2]} us) and nothing else since", c,
                                      {"step": step, "window": cur, "id": iid, "age_upper_bound_us": age_upper, "transmitted_bytes": len(data),
                                       "library_thresholds": [t._config.reupload_max_uploads_ago, t._config.reupload_max_bytes_ago,
                                                              t._config.reupload_max_seconds_ago]}, key="reupload-although-image-still-there")
                else:
                    ctx.count("repeat-after-configured-time:" + ("re-transmitted" if data else "skipped"))
            if data or chain is None or chain[0] != req:
                chain = (req, t_before) if data else None
        t.id_manager.close()
    finally:
        clock.uninstall()
        os.environ["PATH"] = saved_path
        for k in [k for k in os.environ if k.startswith("FAKE_TMUX_")]:
            del os.environ[k]
        shutil.rmtree(td, ignore_errors=True)


S = 1_000_000
CONFIGURED_SECONDS = [1, 60, 3600, None]         # None: the default (3600) left alone


def _tmux_block(rng, wins, layers=None, **extra):
    tm = {"layers": layers if layers is not None else rng.choice([1, 1, 2]), "server_pid": 4000, "session": "$3",
          "clients": {w: {"pid": 4101 + 101 * k, "termname": rng.choice(["xterm-kitty", "xterm-kitty", "xterm-256color"]) if k else "xterm-kitty"}
                      for k, w in enumerate(wins)}}
    tm.update(extra)
    return tm


def _waits_around(limit_s: int):
    """clock advances (us) placed clear of the limit: well below, just below, just above, far above, more than a day"""
    lim = limit_s * S
    return {"below": [lim * 2 // 5, lim - 200_000], "above": [lim + 200_000, 2 * lim, lim + 90 * S, 90_000 * S, 3 * 86_400 * S]}


def directed_cases(rng):
    """Small directed families (general: nothing here names a defect): the age clause at terminal level, forced uploads around
    a change of the attached terminal, tmux that cannot be reached.  Every case is judged like any terminal-switch scenario."""
    wins = ["w0", "w1", "w2"]
    pool = lambda: [["png", 8, 8, rng.randrange(1 << 30)] for _ in range(3)]
    base = lambda: {"upload_method": "direct", "id_space": rng.choice(["8bit", "24bit"]), "id_subspace": rng.choice(["5:8", "0:256"])}
    req = lambda img, cols=2, **kw: dict({"op": rng.choice(["upload", "upload_and_display"]), "img": img, "cols": cols, "rows": 1}, **kw)
    wait = lambda us: {"op": "wait", "us": int(us)}
    win = lambda w: {"op": "win", "w": w}

    # ---- (a) time: the same image asked for again on the same terminal after less / more than the configured time
    for k, secs in enumerate(CONFIGURED_SECONDS + [rng.choice([1, 60]), rng.choice([3600, None])]):
        lim = secs if secs is not None else 3600
        w = _waits_around(lim)
        steps = [req(0), wait(w["below"][1]), req(0), wait(400_000), req(0),            # just below; then across the limit without a transmission in between
                 wait(rng.choice(w["above"][1:])), req(0), wait(w["below"][0]), req(0),
                 wait(w["above"][0]), req(0)]
        if k >= len(CONFIGURED_SECONDS):
            # other traffic in between, another terminal in between: the age is per (image, terminal)
            steps = [req(0), req(1, 1), wait(w["below"][0]), win("w1"), req(0), wait(w["above"][0]), win("w0"), req(0), req(1, 1),
                     wait(w["below"][1]), req(1, 1), win("w1"), req(0), wait(rng.choice(w["above"])), req(0)]
        c = {"k": "terminal-switch", "config": base(), "pool": pool(), "steps": steps}
        if secs is not None:
            c["config"]["reupload_max_seconds_ago"] = secs
            if k % 2:
                c["config_via"] = "overrides"
        if k in (1, 4):
            c["tmux"] = _tmux_block(rng, wins)
        yield c

    # ---- (b) forced uploads right after the attached terminal changed, then back and an ordinary request
    for k in range(8):
        configured = k % 2 == 1
        f = {} if configured else {"force": True}          # the forced request
        nf = {"force": False} if configured else {}        # the ordinary one
        x, y = 1, 2
        shape = k // 2
        if shape == 0:
            steps = [req(0, **nf), win("w1"), req(x, **f), win("w0"), req(x, **nf)]
        elif shape == 1:
            steps = [win("w1"), req(x, **f), req(y, 1, **nf), win("w0"), req(x, **nf), req(y, 1, **nf)]
        elif shape == 2:
            steps = [req(0, **nf), win("w1"), req(x, **f), win("w2"), req(x, **nf), win("w0"), req(x, **nf), win("w1"), req(x, **nf)]
        else:
            steps = [req(x, 3, **nf), win("w1"), req(x, **f), req(x, **f), win("w0"), req(x, **f), win("w2"), req(y, **f), win("w1"), req(y, **nf),
                     win("w0"), req(x, **nf)]
        c = {"k": "terminal-switch", "config": base(), "pool": pool(), "steps": steps}
        if configured:
            c["config"]["force_upload"] = True
            if k % 4 == 3:
                c["config_via"] = "overrides"
        if k in (2, 3, 4, 7):
            c["tmux"] = _tmux_block(rng, wins)
        yield c

    # ---- (c) tmux cannot be reached: for a while, from the start, for some clients only
    tmode = lambda m: {"op": "tmux", "mode": m}
    for k, m in enumerate(["silent", "fail", "blank", "silent", "fail", "silent"]):
        if k < 3:
            steps = [req(0), tmode(m), req(1), win("w1"), req(1), req(0), tmode("ok"), req(1), win("w0"), req(1)]
            tm = _tmux_block(rng, wins)
        elif k == 3:
            steps = [req(0), win("w1"), req(0), win("w0"), tmode("ok"), req(0)]
            tm = _tmux_block(rng, wins, mode=m)                # already when the object is created
        elif k == 4:
            steps = [req(0), win("w1"), req(1), win("w2"), req(1), req(0), win("w0"), req(1), win("w2"), tmode("ok"), req(1)]
            tm = _tmux_block(rng, wins)
            tm["clients"]["w1"]["reach"] = tm["clients"]["w2"]["reach"] = m
        else:
            steps = [req(0), win("w1"), req(0), req(1), win("w0"), req(1), win("w1"), req(1)]
            tm = _tmux_block(rng, wins)
            tm["clients"]["w1"]["reach"] = m
        yield {"k": "terminal-switch", "config": base(), "pool": pool(), "steps": steps, "tmux": tm}


def cases(rng, n):
    yield from directed_cases(rng)
    for _ in range(n):
        steps = []
        wins = ["w0", "w1", "w2"]
        cur, sent, after_switch = "w0", [], False
        in_tmux = rng.random() < 0.35
        secs = rng.choice(CONFIGURED_SECONDS) if rng.random() < 0.3 else "-"
        waits = _waits_around(3600 if secs in (None, "-") else secs)
        waits = waits["below"] + waits["above"]
        p_wait = 0.25 if secs != "-" else 0.05
        p_force = rng.choice([0.0, 0.0, 0.25])
        unreachable = None
        for _j in range(rng.randrange(4, 11)):
            r = rng.random()
            if r < 0.3 and not after_switch:
                cur = rng.choice([w for w in wins if w != cur] if rng.random() < 0.9 else wins)
                steps.append({"op": "win", "w": cur})
                after_switch = True
            elif r < 0.3 + p_wait and steps and steps[-1]["op"] != "wait":
                steps.append({"op": "wait", "us": rng.choice(waits)})
            elif in_tmux and rng.random() < 0.08:
                unreachable = None if unreachable else rng.choice(["silent", "fail", "blank"])
                steps.append({"op": "tmux", "mode": unreachable or "ok"})
            else:
                # right after a switch, mostly ask for an image (with the geometry) that some other window already received
                if sent and rng.random() < (0.85 if after_switch else 0.4):
                    img, cols = rng.choice(sent)
                else:
                    img, cols = rng.randrange(3), rng.randrange(1, 4)
                sent.append((img, cols))
                st = {"op": rng.choice(["upload", "upload_and_display"]), "img": img, "cols": cols, "rows": 1}
                if rng.random() < (2 * p_force if after_switch else p_force):
                    st["force"] = True
                steps.append(st)
                after_switch = False
        c = {"k": "terminal-switch", "config": {"upload_method": "direct", "id_space": rng.choice(["8bit", "24bit"]),
                                                "id_subspace": rng.choice(["5:8", "0:256"])},
             "pool": [["png", 8, 8, rng.randrange(1 << 30)] for _ in range(3)], "steps": steps}
        if in_tmux:
            # inside tmux: the windows are tmux clients of one server and session (same terminal emulator, or another one)
            c["tmux"] = _tmux_block(rng, wins)
        r = rng.random()
        if secs not in ("-", None):
            c["config"]["reupload_max_seconds_ago"] = secs
            if rng.random() < 0.5:
                c["config_via"] = "overrides"
        elif r < 0.35:
            # non-default re-upload thresholds incl. 0 ("every request transmits"), through keywords or config_overrides
            name, vals = rng.choice([("reupload_max_uploads_ago", [0, 0, 1, 2, 3]), ("reupload_max_bytes_ago", [0]), ("reupload_max_seconds_ago", [0])])
            c["config"][name] = rng.choice(vals)
            if rng.random() < 0.5:
                c["config_via"] = "overrides"
        yield c
