"""Collects additional Gen/*.lean generators: every harness/gen_<group>.py that defines
GENERATORS = {"File.lean": fn(repo_path) -> lean_source}."""
import importlib
from pathlib import Path

GENERATORS = {}
for _p in sorted(Path(__file__).resolve().parent.glob("gen_*.py")):
    if _p.stem == "gen_extra":
        continue
    _m = importlib.import_module(f"harness.{_p.stem}")
    GENERATORS.update(getattr(_m, "GENERATORS", {}))
