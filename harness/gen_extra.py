"""Additional Gen/*.lean generators contributed by property groups: name -> fn(repo) -> source."""
GENERATORS = {}
