"""C06 — graphics commands serialise to well-formed escapes that decode to the same fields.

K: tupimage.graphics_command.{TransmitCommand,MoreDataCommand,PutCommand,DeleteCommand}
   .header_to_bytes / content_to_bytes / to_bytes / send   vs   Tup.Model.Command through drv_cmd.
F: Tup.Spec.GfxParse (independent parser + the protocol's key table) on the implementation's bytes.

This module also holds the command-description helpers shared with c05.py and c11.py.
"""
from __future__ import annotations

import copy
import io
import itertools
import json
import random
from pathlib import Path

from .common import Ctx, hx, unhx

DRIVERS = ["drv_cmd", "drv_misc"]
EVIDENCE = dict(
    level="proof",
    trusted=[
        "Python bytes %-formatting, b','.join, str(int), base64.b64encode (mirrored by Tup.Basic/Tup.Base64; compared on every case)",
        "Spec.GfxParse is a transcription of the kitty graphics protocol's command grammar and key table",
        "integer fields are natural numbers (ids, sizes, counts); negative ints are outside the quantifier",
    ],
)

BOUNDARY = [0, 1, 2**24 - 1, 2**32 - 1]
P_INT = ["placement_id", "rows", "cols", "src_x", "src_y", "src_w", "src_h"]
P_BOOL = ["virtual", "do_not_move_cursor"]
P_FIELDS = ["placement_id", "virtual", "rows", "cols", "do_not_move_cursor", "src_x", "src_y", "src_w", "src_h"]
T_INT = ["image_id", "image_number", "size", "offset", "pix_width", "pix_height"]
T_ENUM = {"medium": "TransmissionMedium", "quiet": "Quietness", "format": "Format", "compression": "Compression"}
T_BOOL = ["more", "query"]
T_FIELDS = T_INT + list(T_ENUM) + T_BOOL   # + placement (dict) + omit_action (bool)
M_FIELDS = ["image_id", "image_number", "more"]
PUT_FIELDS = ["image_id", "image_number", "quiet"] + P_FIELDS
D_FIELDS = ["image_id", "image_number", "placement_id", "quiet", "what", "delete_data"]
ENUM_OF = {"medium": "TransmissionMedium", "quiet": "Quietness", "format": "Format", "compression": "Compression",
           "what": "WhatToDelete"}


def gcmod():
    from tupimage import graphics_command as gc
    return gc


def enum_names(field):
    gc = gcmod()
    return [m.name for m in getattr(gc, ENUM_OF[field])]


# ---------------------------------------------------------------------------------------
# payload descriptions (replayable from JSON)
# ---------------------------------------------------------------------------------------
def data_bytes(d) -> bytes:
    if d is None:
        return b""
    if "hex" in d:
        return bytes.fromhex(d["hex"])
    if "text" in d:
        return d["text"].encode()
    n = d["len"]
    pat = d.get("pat", "rand")
    if pat == "rand":
        return random.Random(d.get("seed", 0)).randbytes(n)
    if pat == "x":
        return b"x" * n
    if pat == "esc":
        return (b"\x1b\x1b\\\x1bPtmux;" * (n // 10 + 1))[:n]
    if pat == "ff":
        return b"\xff" * n
    if pat == "zero":
        return b"\x00" * n
    raise ValueError(pat)


# ---------------------------------------------------------------------------------------
# command descriptions:  {"type": "T"|"M"|"P"|"D", "f": {python field: value}, "data": {...}}
#   enum values by member name, placement (T only) as a dict of PlacementData fields
# ---------------------------------------------------------------------------------------
def _val(field, v):
    gc = gcmod()
    if field in ENUM_OF and v is not None:
        return getattr(gc, ENUM_OF[field])[v]
    return v


def build(desc, data_override=None):
    """The real command object of a description."""
    gc = gcmod()
    f = dict(desc.get("f") or {})
    t = desc["type"]
    data = data_override if data_override is not None else data_bytes(desc.get("data"))
    if t == "T":
        kw = {k: _val(k, v) for k, v in f.items() if k not in ("placement",)}
        if f.get("placement") is not None:
            kw["placement"] = gc.PlacementData(**f["placement"])
        return gc.TransmitCommand(data=data, **kw)
    if t == "M":
        return gc.MoreDataCommand(data=data, **f)
    if t == "P":
        return gc.PutCommand(**{k: _val(k, v) for k, v in f.items()})
    if t == "D":
        return gc.DeleteCommand(**{k: _val(k, v) for k, v in f.items()})
    raise ValueError(t)


def _tokv(v):
    if isinstance(v, bool):
        return "1" if v else "0"
    return str(v)


def tokens(desc, data: bytes | None = None) -> str:
    """The driver's description of the same command."""
    f = dict(desc.get("f") or {})
    t = desc["type"]
    out = [t]
    for k, v in f.items():
        if v is None:
            continue
        if k == "placement":
            out.append("placement:1")
            for pk, pv in v.items():
                if pv is not None:
                    out.append(f"p.{pk}:{_tokv(pv)}")
        elif k == "omit_action":
            out.append(f"omit_action:{_tokv(bool(v))}")
        else:
            out.append(f"{k}:{_tokv(v)}")
    if t in ("T", "M"):
        if data is None:
            data = data_bytes(desc.get("data"))
        out.append("data:" + hx(data))
    return " ".join(out)


DEFAULT_TEMPLATE = b"\033_G%b\033\\"


def is_inline(desc) -> bool:
    return desc["type"] == "T" and (desc.get("f") or {}).get("medium") in (None, "DIRECT")


# ---------------------------------------------------------------------------------------
# derivations and in-place edits: what the caller asked for, as a description (the oracle of F is
# Spec.fields of THIS description; it never looks at the object the library produced)
# ---------------------------------------------------------------------------------------
def conv_kw(kw):
    """JSON keyword arguments -> real keyword arguments (enum members, PlacementData, bytes)."""
    gc = gcmod()
    out = {}
    for k, v in kw.items():
        if k == "placement":
            out[k] = None if v is None else gc.PlacementData(**v)
        elif k == "data":
            out[k] = data_bytes(v)
        else:
            out[k] = _val(k, v)
    return out


def with_fields(desc, kw):
    """The description after `field = value` for every item of kw (None = the field becomes unset)."""
    res = {"type": desc["type"], "f": dict(desc.get("f") or {})}
    if "data" in desc:
        res["data"] = desc["data"]
    for k, v in kw.items():
        if k == "data":
            res["data"] = v
        elif k == "placement":
            res["f"][k] = None if v is None else dict(v)
        else:
            res["f"][k] = v
    return res


def apply_op(desc, op):
    """Description of the command a derivation entry point must return (None = no command)."""
    how = op["how"]
    if how == "clone":
        return with_fields(desc, op["kw"])
    if how == "pure":
        return with_fields(desc, {"placement": None})
    if how == "put":
        f = desc.get("f") or {}
        if f.get("placement") is None:
            return None
        pf = {k: f.get(k) for k in ("image_id", "image_number", "quiet")}
        pf.update(f["placement"])
        return {"type": "P", "f": pf}
    raise ValueError(how)


def real_op(obj, op):
    how = op["how"]
    if how == "clone":
        return obj.clone_with(**conv_kw(op["kw"]))
    if how == "pure":
        return obj.get_pure_transmit_command()
    if how == "put":
        return obj.get_put_command()
    raise ValueError(how)


def upd_tokens(kw) -> str:
    """clone_with keyword arguments in the driver's update syntax."""
    out = []
    for k, v in kw.items():
        if k == "data":
            out.append("data:" + hx(data_bytes(v)))
        elif v is None:
            out.append(f"{k}:None")
        elif k == "placement":
            out.append("placement:new")
            for pk, pv in v.items():
                if pv is not None:
                    out.append(f"p.{pk}:{_tokv(pv)}")
        elif k == "omit_action":
            out.append(f"omit_action:{_tokv(bool(v))}")
        else:
            out.append(f"{k}:{_tokv(v)}")
    return " ".join(out)


def ser(obj):
    """(header, content, whole escape) of a real command, hex."""
    gc = gcmod()
    return (hx(obj.header_to_bytes()), hx(obj.content_to_bytes()), hx(obj.to_bytes(gc.GraphicsCommand.DEFAULT_TEMPLATE)))


def model_ser(d, tok):
    return tuple(d.ask_many([f"header {tok}", f"content {tok}", f"tobytes 0 {tok}"]))


def judge(ctx, d, c, what, full_hex, desc, keypfx="c06-"):
    """F: the emitted escape parses back to exactly the fields and payload of `desc`."""
    tok = tokens(desc)
    r = d.ask(f"spec_checkcmd 0 {full_hex} {tok}")
    if r != "ok":
        ctx.violation(what, c, {"reason": r, "emitted": full_hex[:400], "spec_fields": d.ask(f"spec_fields {tok}"), "asked_for": desc},
                      key=keypfx + r)
        return False
    return True


# ---------------------------------------------------------------------------------------
def check_case(ctx: Ctx, c: dict):
    gc = gcmod()
    d = ctx.driver("drv_cmd")
    k = c["k"]
    ctx.count("kind:" + k)
    if k == "cmd":
        desc = c["cmd"]
        data = data_bytes(desc.get("data"))
        ctx.count("type:" + desc["type"])
        ctx.count("fields-set:%02d" % _nset(desc))
        stream_kind = c.get("stream", "bytes")
        if desc["type"] == "T" and stream_kind == "bytesio":
            obj = build(desc, data_override=io.BytesIO(data))
            obj.data.seek(len(data) // 2)
        else:
            obj = build(desc)
        tok = tokens(desc, data)
        try:
            hdr = obj.header_to_bytes()
            content = obj.content_to_bytes()
            full = obj.to_bytes(gc.GraphicsCommand.DEFAULT_TEMPLATE)
            impl = (hx(hdr), hx(content), hx(full))
        except Exception as e:  # the model has no error path here: any exception is a mismatch
            ctx.mismatch("serialisation raised", c, repr(e), "no error")
            ctx.violation("serialising a command with natural-number fields raised", c, repr(e), key="serialise-raises")
            return
        model = tuple(d.ask_many([f"header {tok}", f"content {tok}", f"tobytes 0 {tok}"]))
        ctx.eq("header_to_bytes/content_to_bytes/to_bytes", c, impl, model)
        if desc["type"] == "T" and c.get("via") in ("send", "split"):
            # transmit commands whose payload is a NAME (file, temporary file, shared memory object) reach the command
            # stream through send()/split() as well: one escape, the fields that were set, the whole name.
            # (inline payloads are chunked there: that is C05's claim, only the correspondence is looked at)
            inline = is_inline(desc)
            ctx.count("transmit-via:%s:%s" % (c["via"], "inline" if inline else (desc.get("f") or {}).get("medium")))
            if c["via"] == "send":
                out = io.BytesIO()
                raised = False
                try:
                    obj.send(out, gc.GraphicsCommand.DEFAULT_TEMPLATE, max_size=c.get("max"))
                except ValueError:
                    raised = True
                m = d.ask(f"send 0 {c.get('max') if c.get('max') is not None else 'none'} {tok}")
                ctx.eq("send(transmit) raises ValueError", c, raised, m == "err")
                ctx.count("transmit-send:" + ("error" if raised else "sent"))
                if not raised and m != "err":
                    ctx.eq("send(transmit) command stream", c, hx(out.getvalue()), "".join(m.split(" ")))
                    if not inline:
                        full = out.getvalue()
                        ctx.count("name-vs-budget:" + ("longer" if c.get("max") is not None and 4 * len(data) // 3 + len(hdr) + 11 > c["max"] else "fits"))
            else:
                parts = list(obj.split(max_payload_size=c["n"]))
                ctx.eq("split(transmit)", c, [hx(p.content_to_bytes()) for p in parts], d.ask(f"split {c['n']} {tok}").split(" "))
                if not inline:
                    if len(parts) != 1:
                        ctx.violation("a name payload (non-direct medium) is cut into several commands by split()", c,
                                      {"parts": [p.content_to_bytes()[:120].hex() for p in parts[:4]], "n": c["n"]}, key="c06-name-split")
                    else:
                        full = parts[0].to_bytes(gc.GraphicsCommand.DEFAULT_TEMPLATE)
        if c.get("via") == "send" and desc["type"] != "T":
            out = io.BytesIO()
            seen = []
            obj.send(out, gc.GraphicsCommand.DEFAULT_TEMPLATE, max_size=c.get("max"), callback=lambda x: seen.append(x))
            ctx.eq("send (non-transmit, unsplit)", c, hx(out.getvalue()), d.ask(f"send 0 {c.get('max') if c.get('max') is not None else 'none'} {tok}"))
            if len(seen) != 1 or seen[0] is not obj:
                ctx.mismatch("send callback", c, len(seen), 1)
            full = out.getvalue()
        # F: the independent parser recovers exactly the protocol fields and the payload
        r = d.ask(f"spec_checkcmd 0 {hx(full)} {tok}")
        if r != "ok":
            ctx.violation("emitted escape code does not parse back to the command's fields", c,
                          {"reason": r, "emitted": full[:200].hex(), "spec_fields": d.ask(f"spec_fields {tok}")}, key="c06-" + r)
    elif k == "more":
        _check_more(ctx, d, c)
    elif k == "derive":
        _check_derive(ctx, d, c)
    elif k == "mutate":
        _check_mutate(ctx, d, c)
    elif k == "spell":
        _check_spell(ctx, d, c)
    else:
        raise ValueError(k)


NO_LIMIT = 2**32 - 1


def _check_more(ctx, d, c):
    """An inline transmission as it reaches the command stream through send() / split(), with the `more` field in each of
    its three states (unset, explicitly False, True) however it got onto the command (constructor, attribute assignment,
    clone_with), for payloads of one and of several chunks.  The emitted bytes are a SEQUENCE of escapes; an independent
    reader of the protocol joins a command flagged m=1 with the continuation commands after it up to the first one not
    flagged m=1, and must recover exactly the fields that were set (other than m itself) and the exact payload, as ONE
    transmission, left open iff the caller set more=True.  (Sizes of the chunks are C05's claim and are not judged here.)"""
    gc = gcmod()
    desc = c["cmd"]
    f = desc.get("f") or {}
    more = f.get("more")
    how = c.get("how", "ctor")
    data = data_bytes(desc.get("data"))
    tok = tokens(desc, data)
    skind = c.get("stream", "bytes")
    dobj = data
    if skind == "bytesio":
        dobj = io.BytesIO(data)
        dobj.seek(len(data) // 2)
    try:
        if how == "ctor":
            obj = build(desc, data_override=dobj)
        else:
            rest = {"type": "T", "f": {kk: vv for kk, vv in f.items() if kk != "more"}, "data": desc.get("data")}
            if how == "attr":            # the field is assigned after construction (once through the other value first)
                obj = build(with_fields(rest, {"more": c.get("first")}), data_override=dobj)
                obj.more = more
            elif how == "clone":         # clone_with(more=...) of a command that had the field unset / set differently
                obj = build(with_fields(rest, {"more": c.get("first")}), data_override=dobj).clone_with(more=more)
            else:
                raise ValueError(how)
        raised = False
        if c["via"] == "send":
            mx = c.get("max")
            out = io.BytesIO()
            seen = []
            try:
                obj.send(out, gc.GraphicsCommand.DEFAULT_TEMPLATE, max_size=mx, callback=lambda x: seen.append(x.to_bytes(gc.GraphicsCommand.DEFAULT_TEMPLATE)))
            except ValueError:
                raised = True
            stream = out.getvalue()
            m = d.ask(f"send 0 {'none' if mx is None else mx} {tok}")
            ctx.eq("send(transmit) raises ValueError", c, raised, m == "err")
            nchunks = 0 if m == "err" else len(m.split(" "))
            if not raised and m != "err":
                ctx.eq("send(transmit) command stream", c, hx(stream), "".join(m.split(" ")))
                ctx.eq("send(transmit) callback sequence", c, [hx(x) for x in seen], m.split(" "))
            elif raised and stream:
                ctx.mismatch("send(transmit) wrote something before raising", c, hx(stream[:60]), "-")
        elif c["via"] == "split":
            parts = list(obj.split(max_payload_size=c["n"]))
            m = d.ask(f"split {c['n']} {tok}").split(" ")
            ctx.eq("split(transmit)", c, [hx(p.content_to_bytes()) for p in parts], m)
            stream = b"".join(p.to_bytes(gc.GraphicsCommand.DEFAULT_TEMPLATE) for p in parts)
            nchunks = len(m)
        else:
            raise ValueError(c["via"])
    except ValueError:
        raise
    except Exception as e:  # the model has no error path here
        ctx.mismatch("send / split raised", c, repr(e)[:200], "no error")
        return
    ctx.count("more:%s:%s:%s" % (more, how, c["via"]))
    if raised:
        ctx.count("more-chunks:rejected")
        ctx.last_more_chunks = 0
        return
    ctx.count("more-chunks:%s:%s" % (more, nchunks if nchunks < 4 else "4+"))
    ctx.last_more_chunks = nchunks
    if c["via"] == "split" and c["n"] % 3 != 0:
        # a chunk size the caller chose that is no multiple of 3: every chunk is padded base64 on its own (whether a reader
        # accepts padding inside a transfer is the caller's business, and C05's for the sizes send() picks)
        r = _read_back(d, stream, tok, data, more)
        ctx.count("more-judged-by:join-rule-over-Spec.parse")
    else:
        r = d.ask(f"spec_checksend 0 {NO_LIMIT} 0 {hx(stream)} {tok}")
        ctx.count("more-judged-by:Spec.checkSend")
    if r != "ok":
        flags = d.ask(f"spec_splitstream {hx(stream)}")
        esc = [] if flags in ("none", "empty", "bad") else [bytes.fromhex(x) for x in flags.split(" ")]
        ctx.violation("the escapes written for one inline transmission do not read back as ONE transmission with the fields that were "
                      "set and the exact payload: " + r, c,
                      {"reason": r, "escapes": len(esc), "heads": [e[:e.find(b";") if b";" in e else 40][:60].decode("latin1") for e in esc[:6]],
                       "payload_len": len(data), "more": more},
                      key="c06-chunked-" + r)


def _items(s):
    return [] if s == "-" else [tuple(kv.split(":")) for kv in s.split(",")]


def _read_back(d, stream: bytes, tok: str, data: bytes, more):
    """The protocol's joining rule on top of Spec.GfxParse.parse (one escape at a time): a command flagged m=1 is continued by
    the commands after it up to the first one not flagged m=1."""
    M = str(ord("m"))
    r = d.ask(f"spec_splitstream {hx(stream)}")
    if r in ("none", "bad"):
        return "stream-malformed"
    if r == "empty":
        return "nothing-emitted"
    parsed = []
    for e in r.split(" "):
        pr = d.ask(f"spec_parse {e}")
        if pr in ("none", "bad"):
            return "chunk-malformed"
        items, payload = pr.split(" ")
        items = _items(items)
        if len(set(k_ for k_, _v in items)) != len(items):
            return "duplicate-key"
        parsed.append((dict(items), unhx(payload)))
    for it, _p in parsed[:-1]:
        if it.get(M) != hx(b"1"):
            return "chunk-flags"
    if parsed[-1][0].get(M, hx(b"0")) != hx(b"1" if more is True else b"0"):
        return "last-flag"
    if b"".join(p_ for _it, p_ in parsed) != data:
        return "payload-mismatch"
    first = parsed[0][0]
    want = dict(_items(d.ask(f"spec_fields {tok}")))
    if {k_: v for k_, v in first.items() if k_ != M} != {k_: v for k_, v in want.items() if k_ != M}:
        return "first-chunk-fields"
    for it, _p in parsed[1:]:
        for k_, v in it.items():
            if k_ not in (str(ord("i")), str(ord("I")), M) or (k_ != M and first.get(k_) != v):
                return "continuation-keys"
    return "ok"


def _check_derive(ctx, d, c):
    """Commands obtained through clone_with / get_pure_transmit_command / get_put_command: the derived command must
    serialise to the fields the caller asked for (an argument None = unset, 0 / False = set), the original stays as it was."""
    desc = c["cmd"]
    ctx.count("type:" + desc["type"])
    orig = build(desc)
    try:
        before = ser(orig)
        cur_obj, cur_desc = orig, desc
        for i, op in enumerate(c["ops"]):
            ctx.count("derive:" + op["how"])
            if op["how"] == "clone":
                for kk, vv in op["kw"].items():
                    was = (cur_desc.get("f") or {}).get(kk) if kk != "data" else True
                    ctx.count("clone-arg:%s" % ("None-on-set-field" if vv is None and was is not None else "None-on-unset-field" if vv is None else
                                                "falsy" if vv in (0, False) else "value"))
            want = apply_op(cur_desc, op)
            got = real_op(cur_obj, op)
            at = dict(c, at=i)
            if op["how"] == "clone":
                m = d.ask(f"clone {tokens(cur_desc)} | {upd_tokens(op['kw'])}")
            elif op["how"] == "pure":
                m = d.ask(f"pure {tokens(cur_desc)}")
            else:
                m = d.ask(f"putcmd {tokens(cur_desc)}")
            if want is None or got is None or m == "none":
                ctx.eq("derived command is None", at, got is None, m == "none")
                if (got is None) != (want is None):
                    ctx.violation("get_put_command: a command without placement has no put command, one with placement has", at,
                                  {"returned_none": got is None}, key="c06-put-none")
                break
            impl = ser(got)
            ctx.eq("derived command: header/content/to_bytes", at, impl, tuple(m.split(" ")))
            if tuple(m.split(" ")) != model_ser(d, tokens(want)):     # the harness's reading of the request vs the model's record update
                ctx.mismatch("model clone_with vs description of the request", at, m, tokens(want))
            if not judge(ctx, d, at, "derived command does not decode to the fields the caller asked for (" + op["how"] + ")", impl[2], want):
                break
            cur_obj, cur_desc = got, want
        after = ser(orig)
    except Exception as e:  # the model has no error path here
        ctx.mismatch("derivation / serialisation raised", c, repr(e)[:200], "no error")
        return
    ctx.eq("original command after deriving from it", c, after, before)
    judge(ctx, d, c, "original command no longer decodes to its fields after a command was derived from it", after[2], desc)


PAYLOAD_ACTS = ["rewrite", "rewrite0", "extend", "truncate", "poke", "seek", "buffer", "newstream", "fromfile"]
STREAM_KINDS = ["bytesio", "file", "rawfile", "fromfile"]


class _Payloads:
    """The payload OBJECTS of a mutate case: streams (BytesIO, real files) with the harness's own record of what they hold.
    The record is kept from the edits the harness itself performs (every edit positions the stream explicitly first), so
    the oracle never reads a stream through the library and never depends on where a stream's position was left."""

    def __init__(self):
        self.streams = []          # [{"s": stream object, "c": bytearray (content now), "kind": str}]
        self.dir = None

    def _path(self):
        import tempfile
        if self.dir is None:
            self.dir = tempfile.mkdtemp(prefix="vc06_")
        return "%s/p%d.bin" % (self.dir, len(self.streams))

    def new(self, kind, content: bytes, cmd=None):
        """a fresh stream of `kind` holding `content`; kind 'fromfile' is opened by the command itself
        (`set_data_from_file`, read-only handle)"""
        if kind == "bytesio":
            st = io.BytesIO(content)
        else:
            path = self._path()
            with open(path, "wb") as fh:
                fh.write(content)
            if kind == "fromfile":
                cmd.set_data_from_file(path)
                st = cmd.data
            else:
                st = open(path, "r+b", buffering=0 if kind == "rawfile" else -1)
        st.seek(len(content) // 2)
        self.streams.append({"s": st, "c": bytearray(content), "kind": kind})
        return len(self.streams) - 1

    def edit(self, k, st_desc) -> str:
        """perform one edit on stream k; returns the act actually performed (an edit that the stream cannot take is
        replaced by moving the position)"""
        e = self.streams[k]
        s, c, act = e["s"], e["c"], st_desc["act"]
        new = data_bytes(st_desc.get("data")) if "data" in st_desc else b""
        at = len(c) * int(st_desc.get("num", 0)) // max(1, int(st_desc.get("den", 1)))
        writable = e["kind"] != "fromfile"
        if act in ("rewrite", "rewrite0") and writable:
            s.seek(0)
            s.truncate()
            s.write(new)
            if act == "rewrite0":
                s.seek(0)
            c[:] = new
        elif act == "extend" and writable:
            s.seek(0, 2)
            s.write(new)
            c += new
        elif act == "truncate" and writable:
            s.truncate(at)
            del c[at:]
        elif act == "poke" and writable:
            s.seek(at)
            s.write(new)
            c[at:at + len(new)] = new
        elif act == "buffer" and e["kind"] == "bytesio":
            m = min(len(new), len(c) - at)
            with s.getbuffer() as view:
                view[at:at + m] = new[:m]
            c[at:at + m] = new[:m]
        else:
            act = "seek"
            s.seek(int(st_desc.get("pos", at)))
        if hasattr(s, "flush") and writable:
            s.flush()
        return act

    def close(self):
        for e in self.streams:
            try:
                e["s"].close()
            except Exception:          # noqa: BLE001
                pass
        if self.dir is not None:
            import shutil
            shutil.rmtree(self.dir, ignore_errors=True)


def _check_mutate(ctx, d, c):
    """The same object serialised again after in-place edits (commands are mutable dataclasses): every serialisation must
    decode to the fields set AT THAT MOMENT — and to the payload held at that moment: a stream-valued `data` is an object
    of the caller's, whose contents may be rewritten, extended, cut, edited in place between two serialisations, shared
    by two commands, or replaced by another stream / bytes / a file name."""
    gc = gcmod()
    desc = c["cmd"]
    typ = desc["type"]
    ctx.count("type:" + typ)
    data = data_bytes(desc.get("data"))
    for st in c["steps"]:
        if st["how"] not in ("none", "set", "pset", "set_placement", "set_data", "set_filename", "payload"):
            raise ValueError(st["how"])
        if st["how"] == "payload" and st["act"] not in PAYLOAD_ACTS:
            raise ValueError(st["act"])
    pays = _Payloads()
    try:
        _mutate_run(ctx, d, c, gc, desc, typ, data, pays)
    except Exception as e:  # the model has no error path here
        ctx.mismatch("in-place edit / serialisation raised", c, repr(e)[:200], "no error")
    finally:
        pays.close()


def _mutate_run(ctx, d, c, gc, desc, typ, data, pays):
    skind = c.get("stream", "bytes")
    hold = {}                                            # id(command) -> ("bytes", b) | ("stream", k): what it holds now
    if typ == "T" and skind in STREAM_KINDS:
        ctx.count("mutate:payload-object:" + skind)
        if skind == "fromfile":
            obj = build(desc)
            k0 = pays.new("fromfile", data, cmd=obj)
        else:
            k0 = pays.new(skind, data)
            obj = build(desc, data_override=pays.streams[k0]["s"])
        hold[id(obj)] = ("stream", k0)
    else:
        obj = build(desc)
        hold[id(obj)] = ("bytes", data)
    cur = copy.deepcopy(with_fields(desc, {}))           # never edit the case itself
    # a second command sharing the PlacementData object / the payload stream object
    others = []
    if typ == "T" and c.get("shared") and obj.placement is not None:
        od = {"type": "T", "f": {"image_number": 3, "placement": cur["f"]["placement"]}}
        o = gc.TransmitCommand(image_number=3, placement=obj.placement, data=b"\x00\xff")
        hold[id(o)] = ("bytes", b"\x00\xff")
        others.append((o, od, "command sharing the placement object"))
        ctx.count("mutate:shared-placement")
    if typ == "T" and c.get("shared_stream") and hold[id(obj)][0] == "stream":
        od = {"type": "T", "f": {"image_id": 77, "format": "PNG"}}
        o = gc.TransmitCommand(image_id=77, format=gc.Format.PNG, data=obj.data)
        hold[id(o)] = hold[id(obj)]
        others.append((o, od, "command sharing the payload stream"))
        ctx.count("mutate:shared-stream")

    def content(o) -> bytes:
        h = hold[id(o)]
        return h[1] if h[0] == "bytes" else bytes(pays.streams[h[1]]["c"])

    def stage(i):
        at = dict(c, at=i)
        for o, ds0, nm in [(obj, cur, "command")] + others:
            ds = {"type": ds0["type"], "f": ds0.get("f")}
            if ds["type"] in ("T", "M"):
                ds["data"] = {"hex": content(o).hex()}
            order = (i + 1) % 3                          # which serialisation entry point sees the new state first
            if order == 1 and ds["type"] == "T":
                raw = o.get_raw_payload()
            impl = ser(o) if order != 2 else tuple(reversed([hx(o.to_bytes(gc.GraphicsCommand.DEFAULT_TEMPLATE)), hx(o.content_to_bytes()),
                                                             hx(o.header_to_bytes())]))
            if ds["type"] == "T":
                if order != 1:
                    raw = o.get_raw_payload()
                ctx.eq(f"get_raw_payload() #{i + 2} of the same {nm} vs the payload it holds at that moment", at, hx(raw), hx(content(o)))
            ctx.eq(f"serialisation #{i + 2} of the same {nm}", at, impl, model_ser(d, tokens(ds)))
            full = impl[2]
            if not judge(ctx, d, at, f"serialisation #{i + 2} of the same {nm} does not decode to the fields and payload held at that moment", full, ds):
                return False
            if c.get("via") == "send":
                out = io.BytesIO()
                if not is_inline(ds):
                    o.send(out, gc.GraphicsCommand.DEFAULT_TEMPLATE, max_size=None)
                    ctx.eq(f"send #{i + 2} of the same {nm}", at, hx(out.getvalue()), full)
                    sent, sds = hx(out.getvalue()), ds
                elif len(content(o)) <= 1500:
                    # an inline payload that fits one command: send() emits one escape, flagged as the last chunk
                    # (the chunking itself is C05's claim; here: the payload is the one held now)
                    o.send(out, gc.GraphicsCommand.DEFAULT_TEMPLATE, max_size=None)
                    m = d.ask(f"send 0 none {tokens(ds)}")
                    ctx.eq(f"send #{i + 2} of the same {nm} (inline, one chunk)", at, hx(out.getvalue()), "".join(m.split(" ")))
                    sent, sds = hx(out.getvalue()), with_fields(ds, {"more": bool((ds.get("f") or {}).get("more"))})
                    ctx.count("mutate:inline-send")
                else:
                    continue
                if not judge(ctx, d, at, f"send #{i + 2} of the same {nm} does not decode to the fields and payload held at that moment", sent, sds):
                    return False
        return True

    if not stage(-1):
        return
    for i, st in enumerate(c["steps"]):
        how = st["how"]
        ctx.count("mutate:" + how)
        if how == "none":
            pass
        elif how == "set":
            for kk, vv in conv_kw(st["kw"]).items():
                setattr(obj, kk, vv)
            cur = with_fields(cur, st["kw"])
            if "data" in st["kw"]:
                hold[id(obj)] = ("bytes", data_bytes(st["kw"]["data"]))
        elif how == "pset":
            if typ != "T" or obj.placement is None:
                ctx.count("mutate:pset-skipped")
                continue
            for kk, vv in st["kw"].items():
                setattr(obj.placement, kk, vv)
            pl = cur["f"]["placement"]
            pl.update(st["kw"])                     # in place: the description shared with `other` follows, as the object does
        elif how == "set_placement":
            obj.set_placement(**st["kw"])
            cur = with_fields(cur, {"placement": st["kw"]})
        elif how == "set_data":
            obj.set_data(data_bytes(st["data"]))
            hold[id(obj)] = ("bytes", data_bytes(st["data"]))
        elif how == "set_filename":
            obj.set_filename(st["text"])
            hold[id(obj)] = ("bytes", st["text"].encode())
        elif how == "payload":
            if typ != "T":
                ctx.count("mutate:payload-skipped")
                continue
            act = st["act"]
            if act == "newstream":
                # the command is given ANOTHER stream object (attribute assignment or set_data); the old one stays with
                # whoever shares it
                k = pays.new(st.get("kind", "bytesio"), data_bytes(st.get("data")))
                if st.get("by") == "attr":
                    obj.data = pays.streams[k]["s"]
                else:
                    obj.set_data(pays.streams[k]["s"])
                hold[id(obj)] = ("stream", k)
            elif act == "fromfile":
                k = pays.new("fromfile", data_bytes(st.get("data")), cmd=obj)
                hold[id(obj)] = ("stream", k)
            elif not pays.streams:
                ctx.count("mutate:payload-skipped")
                continue
            else:
                # edit the stream the command holds now; if it holds bytes, the stream it held before (still held by a
                # command sharing it) — the command's own payload must not follow that one any more
                h = hold[id(obj)]
                k = h[1] if h[0] == "stream" else len(pays.streams) - 1
                act = pays.edit(k, st)
                if h[0] != "stream":
                    ctx.count("mutate:payload-edit-of-a-stream-no-longer-held")
            ctx.count("mutate:payload:" + act)
        if not stage(i):
            return


def _nset(desc):
    f = desc.get("f") or {}
    n = sum(1 for k, v in f.items() if v is not None and k != "placement")
    if f.get("placement") is not None:
        n += 1 + sum(1 for v in f["placement"].values() if v is not None)
    return n


# ---------------------------------------------------------------------------------------
# generators
# ---------------------------------------------------------------------------------------
def rnd_int(rng):
    r = rng.random()
    if r < 0.45:
        return rng.choice(BOUNDARY)
    if r < 0.6:
        return rng.choice([9, 10, 99, 100, 255, 256, 65535, 65536, 2**24, 2**31, 2**32 - 2])
    if r < 0.8:
        return rng.randrange(0, 2**32)
    return rng.randrange(0, 1000)


def field_value(rng, field):
    if field in ENUM_OF:
        return rng.choice(enum_names(field))
    if field in ("more", "query", "virtual", "do_not_move_cursor", "delete_data", "omit_action"):
        return rng.random() < 0.5
    return rnd_int(rng)


def rnd_data(rng, maxlen=40):
    r = rng.random()
    if r < 0.2:
        return None
    if r < 0.35:
        return {"text": rng.choice(["/tmp/img.png", "/dev/shm/x", "a b/c,d=e;f", "/tmp/é中.png", "tty-graphics-protocol-0"])}
    if r < 0.5:
        return {"hex": bytes(rng.choice([0x1b, 0x5c, 0x3b, 0x2c, 0x3d, 0, 255, 0x9c, 0x07]) for _ in range(rng.randrange(1, 9))).hex()}
    return {"hex": rng.randbytes(rng.randrange(0, maxlen)).hex()}


def t_slots():
    """presence lattice of a transmit command: own optional fields, omit_action, placement + its fields"""
    return T_FIELDS + ["omit_action", "placement"] + ["p." + x for x in P_FIELDS]


def t_desc(rng, present, data=None):
    f = {}
    pl = None
    for s in present:
        if s == "placement":
            pl = pl or {}
        elif s.startswith("p."):
            pl = pl or {}
            pl[s[2:]] = field_value(rng, s[2:])
        elif s == "omit_action":
            f["omit_action"] = True
        else:
            f[s] = field_value(rng, s)
    if pl is not None:
        f["placement"] = pl
    return {"type": "T", "f": f, "data": data}


def simple_desc(rng, typ, fields, present, data=None):
    f = {s: field_value(rng, s) for s in present}
    dsc = {"type": typ, "f": f}
    if typ == "M":
        dsc["data"] = data
    return dsc


def subsets_edge(slots, lo=2):
    """all subsets of size <= lo and >= n - 1"""
    n = len(slots)
    for r in list(range(0, lo + 1)) + [n - 1, n]:
        for s in itertools.combinations(slots, r):
            yield list(s)


def cases(ctx: Ctx):
    rng = ctx.rng
    quick = ctx.quick
    # --- transmit: presence lattice (edges exhaustively + random subsets)
    ts = t_slots()
    for present in subsets_edge(ts, 2):
        yield {"k": "cmd", "cmd": t_desc(rng, present, rnd_data(rng))}
    for _ in range(8000 if quick else 100000):
        present = [s for s in ts if rng.random() < rng.choice([0.15, 0.5, 0.85])]
        yield {"k": "cmd", "cmd": t_desc(rng, present, rnd_data(rng)), "stream": rng.choice(["bytes", "bytes", "bytesio"])}
    # every enum member x boundary ints on a fixed shape
    for m in enum_names("medium") + [None]:
        for fmt in enum_names("format") + [None]:
            for q in enum_names("quiet") + [None]:
                for z in enum_names("compression") + [None]:
                    yield {"k": "cmd", "cmd": {"type": "T", "f": {"image_id": rng.choice(BOUNDARY), "medium": m, "format": fmt, "quiet": q,
                                                                 "compression": z}, "data": rnd_data(rng)}}
    for fld in T_INT:
        for v in BOUNDARY:
            yield {"k": "cmd", "cmd": {"type": "T", "f": {fld: v}, "data": None}}
    for fld in P_INT:
        for v in BOUNDARY:
            yield {"k": "cmd", "cmd": {"type": "T", "f": {"placement": {fld: v}}, "data": None}}
            yield {"k": "cmd", "cmd": {"type": "P", "f": {fld: v}}}
    # action selection: query x placement x omit_action
    for q in [None, False, True]:
        for pl in [None, {}, {"virtual": True}]:
            for om in [False, True]:
                f = {"query": q, "placement": pl}
                if om:
                    f["omit_action"] = True
                yield {"k": "cmd", "cmd": {"type": "T", "f": f, "data": {"hex": "00"}}}
    # --- continuation: whole lattice x values
    for r in range(0, 4):
        for present in itertools.combinations(M_FIELDS, r):
            for _ in range(6):
                yield {"k": "cmd", "cmd": simple_desc(rng, "M", M_FIELDS, present, rnd_data(rng)), "via": rng.choice(["to_bytes", "send"]),
                       "max": rng.choice([None, 0, 10, 4096])}
    # --- put: whole lattice (2^12), several value draws
    for r in range(0, len(PUT_FIELDS) + 1):
        for present in itertools.combinations(PUT_FIELDS, r):
            if quick and 3 <= r <= len(PUT_FIELDS) - 2 and rng.random() < 0.6:
                continue
            yield {"k": "cmd", "cmd": simple_desc(rng, "P", PUT_FIELDS, present), "via": rng.choice(["to_bytes", "send"]),
                   "max": rng.choice([None, 0, 10])}
    # --- delete: whole lattice x every specifier x delete_data
    for r in range(0, len(D_FIELDS) + 1):
        for present in itertools.combinations(D_FIELDS, r):
            for _ in range(2 if quick else 6):
                yield {"k": "cmd", "cmd": simple_desc(rng, "D", D_FIELDS, present), "via": rng.choice(["to_bytes", "send"]),
                       "max": rng.choice([None, 0, 10])}
    for w in enum_names("what"):
        for dd in [None, False, True]:
            yield {"k": "cmd", "cmd": {"type": "D", "f": {"what": w, "delete_data": dd, "image_id": rng.choice(BOUNDARY)}}}
    if not quick:
        for _ in range(60000):
            typ = rng.choice(["P", "D", "M"])
            flds = {"P": PUT_FIELDS, "D": D_FIELDS, "M": M_FIELDS}[typ]
            present = [s for s in flds if rng.random() < 0.5]
            yield {"k": "cmd", "cmd": simple_desc(rng, typ, flds, present, rnd_data(rng, 300)), "via": "send", "max": None}


# ---------------------------------------------------------------------------------------
# second-round families: name payloads through send()/split(), derivation entry points, in-place edits
# ---------------------------------------------------------------------------------------
NAMES = ["", "psm_1a2b3c4d", "/tmp/img.png", "/dev/shm/" + "n" * 69, "/" + "n" * 254, "/tmp/d\u00efr/" + "x" * 40 + ".png", "/x" * 300]
FIELDS_OF = {"T": T_FIELDS + ["omit_action", "placement", "data"], "M": M_FIELDS + ["data"], "P": PUT_FIELDS, "D": D_FIELDS}


def rnd_placement(rng, dens=0.5):
    return {k: field_value(rng, k) for k in P_FIELDS if rng.random() < dens}


def kw_value(rng, field, mode):
    """mode: 'none' | 'falsy' | 'value' for one keyword argument / attribute"""
    if field == "data":
        return rnd_data(rng) or {"hex": ""}
    if field == "omit_action":
        return mode == "value"
    if field == "placement":
        return None if mode == "none" else {} if mode == "falsy" else rnd_placement(rng)
    if mode == "none":
        return None
    if mode == "falsy":
        if field in ENUM_OF:
            return enum_names(field)[0]
        if field in ("more", "query", "virtual", "do_not_move_cursor", "delete_data"):
            return False
        return 0
    v = field_value(rng, field)
    if isinstance(v, bool):
        return True
    return v or 1


def rnd_desc(rng, typ, dens):
    if typ == "T":
        d = t_desc(rng, [s for s in t_slots() if rng.random() < dens], rnd_data(rng))
        if "placement" in d["f"] and rng.random() < 0.5:
            d["f"]["placement"].setdefault("rows", 2)
        return d
    flds = {"P": PUT_FIELDS, "D": D_FIELDS, "M": M_FIELDS}[typ]
    return simple_desc(rng, typ, flds, [s for s in flds if rng.random() < dens], rnd_data(rng))


def rnd_kw(rng, typ, fields=None, nmax=3):
    fields = fields or FIELDS_OF[typ]
    return {f: kw_value(rng, f, rng.choice(["none", "none", "falsy", "value", "value"])) for f in rng.sample(fields, rng.randrange(1, min(nmax, len(fields)) + 1))}


def more_cases(ctx: Ctx):
    """`more` in {unset, False, True} x how it was set x payloads of 0 / 1 / exactly one chunk / one chunk + 1 / two, three, many
    chunks x send() under small, medium and the default limit / split() with small and large chunk sizes x header shapes"""
    rng = ctx.rng
    quick = ctx.quick
    pats = ["rand", "x", "esc", "ff", "zero"]
    tl = len(DEFAULT_TEMPLATE)          # send() budgets with the whole template, '%b' included
    shapes = [{"image_id": 1, "medium": "DIRECT", "format": "PNG", "quiet": "QUIET_ALWAYS"}, {"image_id": 2**32 - 1}, {},
              {"image_number": 7, "medium": "DIRECT", "placement": {"virtual": True, "rows": 2, "cols": 3}}]
    for more in [None, False, True]:
        for how, first in [("ctor", None), ("attr", None), ("attr", True), ("attr", False), ("clone", None), ("clone", True), ("clone", False)]:
            if first is not None and first == more:
                continue
            for si in range(len(shapes) + (2 if quick else 12)):
                if si < len(shapes):
                    f = dict(shapes[si])
                else:
                    f = t_desc(rng, [s_ for s_ in t_slots() if rng.random() < rng.choice([0.1, 0.4, 0.8])])["f"]
                    f["medium"] = rng.choice([None, "DIRECT"])
                    if f.get("placement") is not None:
                        f["placement"]["virtual"] = True
                if how == "ctor" and more is None and rng.random() < 0.5:
                    f.pop("more", None)                 # not passed at all
                else:
                    f["more"] = more
                hl = len(build({"type": "T", "f": f}).header_to_bytes())
                base = {"k": "more", "how": how}
                if how != "ctor":
                    base["first"] = first
                # send(): the first accepted limit and above; the default (4096)
                for mx in [tl + hl + 7, tl + hl + 8, tl + hl + 8 + rng.randrange(1, 40), 256, None]:
                    mp = ((4096 if mx is None else mx) - tl - hl - 4) // 4 * 3
                    if mp < 1:
                        lens = [1]
                    else:
                        lens = [0, 1, mp - 1, mp, mp + 1, 2 * mp, 2 * mp + 1, 3 * mp, 3 * mp + 5, 7 * mp + 2]
                    if quick or mx is None:
                        lens = [lens[0]] + rng.sample(lens, min(len(lens), 2)) + [rng.choice(lens[-6:])]
                    for L in sorted(set(x for x in lens if x >= 0)):
                        yield dict(base, cmd={"type": "T", "f": f, "data": {"len": L, "pat": rng.choice(pats), "seed": rng.randrange(1000)}},
                                   via="send", max=mx, stream=rng.choice(["bytes", "bytes", "bytesio"]))
                # split() as a public method
                for n in [1, 3, rng.choice([2, 4, 30, 77]), 4096]:
                    lens = [0, 1, n - 1, n, n + 1, 2 * n, 2 * n + 1, 5 * n + 1]
                    if quick or n == 4096:
                        lens = rng.sample(lens, 3) + [2 * n + 1]
                    for L in sorted(set(x for x in lens if x >= 0)):
                        yield dict(base, cmd={"type": "T", "f": f, "data": {"len": L, "pat": rng.choice(pats), "seed": rng.randrange(1000)}},
                                   via="split", n=n, stream=rng.choice(["bytes", "bytes", "bytesio"]))


def cases2(ctx: Ctx):
    rng = ctx.rng
    quick = ctx.quick
    # --- the `more` field in its three states through send() / split(), payloads of one and of several chunks
    yield from more_cases(ctx)
    # --- name payloads x media x limits below / around / above what the name needs, through send() and split()
    for m in enum_names("medium"):
        if m == "DIRECT":
            continue
        for name in NAMES:
            for more in [None, False, True]:
                f = {"medium": m, "more": more}
                for fld in T_INT + ["format", "quiet", "compression"]:
                    if rng.random() < 0.3:
                        f[fld] = field_value(rng, fld)
                if rng.random() < 0.3:
                    f["placement"] = rnd_placement(rng, 0.3)
                for mx in [None, 4096, 1024, 256, 128, 96, 40, 0]:
                    if quick and rng.random() < 0.4:
                        continue
                    yield {"k": "cmd", "cmd": {"type": "T", "f": f, "data": {"text": name}}, "via": "send", "max": mx}
                for n in [1, 10, 77, 4096]:
                    if quick and rng.random() < 0.4:
                        continue
                    yield {"k": "cmd", "cmd": {"type": "T", "f": f, "data": {"text": name}}, "via": "split", "n": n}
    # --- derivation entry points: one argument at a time on a fully set and on a sparse command ...
    for typ in "TMPD":
        for fld in FIELDS_OF[typ]:
            for mode in ["none", "falsy", "value"]:
                for dens in [1.0, 0.3]:
                    yield {"k": "derive", "cmd": rnd_desc(rng, typ, dens), "ops": [{"how": "clone", "kw": {fld: kw_value(rng, fld, mode)}}]}
    for dens in [0.0, 0.3, 1.0]:
        for _ in range(6):
            yield {"k": "derive", "cmd": rnd_desc(rng, "T", dens), "ops": [{"how": rng.choice(["pure", "put"])}]}
    # ... and chains (clone of a clone, pure/put of a clone, clone of the put command)
    for _ in range(1500 if quick else 30000):
        typ = rng.choice("TTTMPD")
        desc = rnd_desc(rng, typ, rng.choice([0.2, 0.6, 1.0]))
        ops = []
        t = typ
        for _j in range(rng.randrange(1, 4)):
            how = rng.choice(["clone", "clone", "pure", "put"]) if t == "T" else "clone"
            if how == "clone":
                ops.append({"how": "clone", "kw": rnd_kw(rng, t)})
            else:
                ops.append({"how": how})
                if how == "put":
                    t = "P"
        yield {"k": "derive", "cmd": desc, "ops": ops}
    # --- the same object serialised again after in-place edits: every placement field through the nested object ...
    for fld in P_FIELDS:
        for mode in ["none", "falsy", "value"]:
            for dens in [0.0, 1.0]:
                for shared in [False, True]:
                    yield {"k": "mutate", "cmd": {"type": "T", "f": {"image_id": rng.choice(BOUNDARY), "placement": rnd_placement(rng, dens)},
                                                  "data": rnd_data(rng)},
                           "shared": shared, "steps": [{"how": "pset", "kw": {fld: kw_value(rng, fld, mode)}}]}
    for typ in "TMPD":
        for fld in FIELDS_OF[typ]:
            for mode in ["none", "falsy", "value"]:
                yield {"k": "mutate", "cmd": rnd_desc(rng, typ, rng.choice([0.3, 1.0])), "steps": [{"how": "set", "kw": {fld: kw_value(rng, fld, mode)}}]}
    # --- the PAYLOAD object edited between serialisations: every kind of stream x every edit, alone / followed by a second
    # edit, the stream also held by a second command, to_bytes and send; inline data and names (non-direct media)
    yield from payload_cases(ctx)
    # ... and random edit sequences
    for _ in range(1500 if quick else 30000):
        typ = rng.choice("TTTMPD")
        desc = rnd_desc(rng, typ, rng.choice([0.2, 0.6, 1.0]))
        if typ == "T" and rng.random() < 0.5 and desc["f"].get("placement") is None:
            desc["f"]["placement"] = rnd_placement(rng)
        steps = []
        for _j in range(rng.randrange(1, 5)):
            how = rng.choice(["set", "pset", "pset", "set_placement", "set_data", "set_filename", "none", "payload", "payload"]) if typ == "T" else rng.choice(["set", "set", "none"])
            if how == "payload":
                steps.append(rnd_payload_step(rng))
            elif how == "set":
                steps.append({"how": "set", "kw": rnd_kw(rng, typ, nmax=2)})
            elif how == "pset":
                steps.append({"how": "pset", "kw": rnd_kw(rng, "P", P_FIELDS)})
            elif how == "set_placement":
                steps.append({"how": "set_placement", "kw": rnd_placement(rng)})
            elif how == "set_data":
                steps.append({"how": "set_data", "data": rnd_data(rng) or {"hex": ""}})
            elif how == "set_filename":
                steps.append({"how": "set_filename", "text": rng.choice(NAMES)})
            else:
                steps.append({"how": "none"})
        yield {"k": "mutate", "cmd": desc, "shared": rng.random() < 0.4, "via": rng.choice(["to_bytes", "to_bytes", "send"]),
               "stream": rng.choice(STREAM_KINDS) if typ == "T" and rng.random() < 0.4 else "bytes", "shared_stream": rng.random() < 0.3,
               "steps": steps}


def rnd_payload(rng):
    """contents for a payload object: empty, one byte, short binary, a name, a run that crosses base64 quantum boundaries,
    something longer than one stdio buffer"""
    r = rng.random()
    if r < 0.1:
        return {"hex": ""}
    if r < 0.2:
        return {"hex": "%02x" % rng.randrange(256)}
    if r < 0.35:
        return {"text": rng.choice(NAMES[1:6])}
    if r < 0.9:
        return {"len": rng.choice([2, 3, 4, 11, 12, 13, 100, 255]), "pat": rng.choice(["rand", "x", "esc", "ff", "zero"]), "seed": rng.randrange(1000)}
    return {"len": rng.choice([1499, 9000]), "pat": "rand", "seed": rng.randrange(1000)}


def rnd_payload_step(rng, act=None):
    act = act or rng.choice(PAYLOAD_ACTS)
    st = {"how": "payload", "act": act, "num": rng.choice([0, 0, 1, 1, 2, 3]), "den": rng.choice([3, 3, 2, 1])}
    if st["num"] > st["den"]:
        st["num"] = st["den"]
    if act == "seek":
        st["pos"] = rng.choice([0, 0, 1, 5, 10**6])
    else:
        st["data"] = rnd_payload(rng)
    if act == "newstream":
        st["kind"] = rng.choice(["bytesio", "file", "rawfile"])
        st["by"] = rng.choice(["attr", "set_data"])
    return st


def payload_cases(ctx: Ctx):
    rng = ctx.rng
    firsts = PAYLOAD_ACTS + ["set_data", "set_filename", "setattr"]
    for skind in STREAM_KINDS:
        for act in firsts:
            for shared in [False, True]:
                for medium in [None, "DIRECT", "FILE"]:
                    if ctx.quick and medium == "DIRECT" and rng.random() < 0.5:
                        continue
                    f = {"image_id": rng.choice(BOUNDARY), "medium": medium}
                    if rng.random() < 0.3:
                        f["more"] = rng.random() < 0.5
                    if rng.random() < 0.3:
                        f["placement"] = rnd_placement(rng, 0.3)
                    if act == "set_data":
                        first = {"how": "set_data", "data": rnd_payload(rng)}
                    elif act == "set_filename":
                        first = {"how": "set_filename", "text": rng.choice(NAMES)}
                    elif act == "setattr":
                        first = {"how": "set", "kw": {"data": rnd_payload(rng)}}
                    else:
                        first = rnd_payload_step(rng, act)
                    for tail in ([], [{"how": "none"}, rnd_payload_step(rng)], [rnd_payload_step(rng), rnd_payload_step(rng, "rewrite")]):
                        yield {"k": "mutate", "cmd": {"type": "T", "f": f, "data": rnd_payload(rng)}, "stream": skind, "shared_stream": shared,
                               "via": rng.choice(["to_bytes", "send"]), "steps": [first] + tail}


# ---------------------------------------------------------------------------------------
# enum values given by their SPELLING: every text / number / bool a caller may write for an enum field, through every
# entry point that accepts it, must be serialised with the protocol code the spelling stands for.
# The tables below are the specification: the documented names of the unchanged source tree (kitty graphics protocol:
# t=d direct / in the escape code stream, t=f regular file, t=t temporary file, t=s shared memory object; f=24 RGB,
# f=32 RGBA, f=100 PNG; o=z zlib; q=0/1/2; the deletion specifiers), written down once.  They are never read from the
# tree under test.
# ---------------------------------------------------------------------------------------
MEDIUM_SPELLINGS = {"d": "DIRECT", "direct": "DIRECT", "stream": "DIRECT", "f": "FILE", "file": "FILE",
                    "t": "TEMP_FILE", "temp": "TEMP_FILE", "tempfile": "TEMP_FILE", "s": "SHARED_MEMORY", "shm": "SHARED_MEMORY"}
MEDIUM_UNKNOWN = ["", "x", "D", "S", "Direct", "STREAM", "streams", "strea", "str", "dstream", "memory", "shared", "sharedmemory",
                  "shared_memory", "shm ", " d", "dd", "fi", "files", "filename", "sh", "tmp", "temp_file", "tempfiles", "te",
                  "a", "q", "z", "DIRECT", "FILE", "TEMP_FILE", "SHARED_MEMORY", "TransmissionMedium.DIRECT", "0", "d,f", "d\n"]
ENUM_CODES = {
    "medium": {"DIRECT": "d", "FILE": "f", "TEMP_FILE": "t", "SHARED_MEMORY": "s"},
    "format": {"RGB": 24, "RGBA": 32, "PNG": 100},
    "compression": {"ZLIB": "z"},
    "quiet": {"VERBOSE": 0, "QUIET_UNLESS_ERROR": 1, "QUIET_ALWAYS": 2},
    "what": {"VISIBLE_PLACEMENTS": "a", "IMAGE_OR_PLACEMENT_BY_ID": "i", "IMAGE_OR_PLACEMENT_BY_NUMBER": "n",
             "PLACEMENTS_UNDER_CURSOR": "c", "ANIMATION_FRAMES": "f", "PLACEMENTS_AT_POSITION": "p",
             "PLACEMENTS_AT_POSITION_AND_ZINDEX": "q", "PLACEMENTS_AT_COLUMN": "x", "PLACEMENTS_AT_ROW": "y",
             "PLACEMENTS_AT_ZINDEX": "z"},
}
ENUM_KEY = {"medium": "t", "format": "f", "compression": "o", "quiet": "q", "what": "d"}
FORMAT_BITS = {24: "RGB", 32: "RGBA"}
FORMAT_BITS_UNKNOWN = [0, 1, 8, 16, 23, 25, 31, 33, 48, 64, 99, 101, 240, 320, -24, -32]
SPELL_ENTRIES = ["from_string", "config_norm", "config_override", "config_dict", "config_env", "config_toml"]
TERM_ENTRIES = ["terminal_config", "terminal_call", "terminal_env"]


def _escapes(stream: bytes):
    """[(header {key: value}, payload bytes)] of a command stream (plain python reading, for the literal tables)."""
    out = []
    for part in stream.split(b"\033_G")[1:]:
        body = part.split(b"\033\\")[0]
        hdr, _, pay = body.partition(b";")
        out.append(({kv.partition(b"=")[0].decode("latin-1"): kv.partition(b"=")[2].decode("latin-1") for kv in hdr.split(b",") if kv}, pay))
    return out


def _spell_obtain(c):
    """The enum member the real code makes of the spelling, through the entry point of the case:
    ("ok", member or None) | ("rejected", exception text) ."""
    import os
    gc = gcmod()
    enum, entry = c["enum"], c["entry"]
    try:
        if enum == "medium" and "text" in c:
            text = c["text"]
            if entry == "from_string":
                return "ok", gc.TransmissionMedium.from_string(text)
            from tupimage import tupimage_terminal as tt
            if entry == "config_norm":
                return "ok", tt.TupimageConfig.validate_and_normalize("upload_method", text)
            cfg = tt.TupimageConfig()
            if entry == "config_override":
                cfg.override(upload_method=text)
            elif entry == "config_dict":
                cfg.override_from_dict({"upload_method": text})
            elif entry == "config_toml":
                import toml
                cfg.override_from_toml_string(toml.dumps({"upload_method": text}))
            elif entry == "config_env":
                if "\x00" in text:
                    raise ValueError("not an environment value")
                old = os.environ.get("TUPIMAGE_UPLOAD_METHOD")
                saved = {k: os.environ.pop(k) for k in list(os.environ) if k.startswith("TUPIMAGE_")}
                os.environ["TUPIMAGE_UPLOAD_METHOD"] = text
                try:
                    cfg.override_from_env()
                finally:
                    del os.environ["TUPIMAGE_UPLOAD_METHOD"]
                    os.environ.update(saved)
            else:
                raise KeyError(entry)
            return "ok", cfg.upload_method
        if entry == "from_bits":
            return "ok", gc.Format.from_bits(c["bits"])
        if entry == "from_bool":
            return "ok", gc.Compression.from_bool(c["flag"])
        if entry == "by_value":
            return "ok", getattr(gc, ENUM_OF[enum])(c["code"])
        if entry == "by_name":
            return "ok", getattr(gc, ENUM_OF[enum])[c["name"]]
        raise KeyError(entry)
    except ValueError as e:
        return "rejected", str(e)[:200]


def _spell_expected(c):
    """What the spelling stands for by the tables: ("ok", member name or None) | ("rejected", None)."""
    enum, entry = c["enum"], c["entry"]
    if enum == "medium" and "text" in c:
        return ("ok", MEDIUM_SPELLINGS[c["text"]]) if c["text"] in MEDIUM_SPELLINGS else ("rejected", None)
    if entry == "from_bits":
        return ("ok", FORMAT_BITS[c["bits"]]) if c["bits"] in FORMAT_BITS else ("rejected", None)
    if entry == "from_bool":
        return "ok", ("ZLIB" if c["flag"] else None)
    if entry == "by_value":
        names = [n for n, code in ENUM_CODES[enum].items() if code == c["code"]]
        return ("ok", names[0]) if names else ("rejected", None)
    if entry == "by_name":
        return "ok", c["name"]
    raise KeyError(entry)


_PTY = {}


def _spell_host():
    """one pty-hosted interpreter (TupimageTerminal opens /dev/tty) shared by the `terminal_*` cases of a run"""
    if "h" not in _PTY:
        from .ptyhost import PtyHost
        h = PtyHost(rows=24, cols=80, xpixel=640, ypixel=384)
        from PIL import Image
        img = Image.new("RGB", (6, 4), (10, 200, 30))
        for x in range(6):
            img.putpixel((x, x % 4), (x * 40, 7, 255 - x))
        path = str(h.dir / "c06 image.png")
        img.save(path, format="PNG")
        _PTY["h"], _PTY["png"] = h, path
        import atexit
        atexit.register(_spell_close)
    return _PTY["h"], _PTY["png"]


def _spell_close():
    h = _PTY.pop("h", None)
    if h is not None:
        try:
            h.close()
        except Exception:
            pass


_TERM_SRC = """
import io, os
for k in [k for k in os.environ if k.startswith("TUPIMAGE_")]:
    del os.environ[k]
if env_text is not None:
    os.environ["TUPIMAGE_UPLOAD_METHOD"] = env_text
out = io.BytesIO()
kw = {} if ctor_text is None else {"upload_method": ctor_text}
stage = "construct"
try:
    t = tupimage.TupimageTerminal(config="DEFAULT", id_database=dbfile, terminal_name="vt", terminal_id="vt-1", session_id="s-1",
                                  out_command=out, out_display=io.BytesIO(), in_response=io.BytesIO(), num_tmux_layers=0, **kw)
    stage = "get_upload_method"
    got = None if ctor_text is None and env_text is None else t.get_upload_method().name
    stage = "upload"
    if image_kind == "file":
        image = png
    else:
        from PIL import Image
        image = Image.open(png)
        image.load()
    t.upload(image, force_upload=True, force_id=4242, cols=2, rows=1, **({} if call_text is None else {"upload_method": call_text}))
    result = ["ok", got, out.getvalue().hex()]
    t.id_manager.close() if hasattr(t.id_manager, "close") else None
except ValueError as e:
    result = ["ValueError", stage, out.getvalue().hex(), str(e)[:200]]
finally:
    os.environ.pop("TUPIMAGE_UPLOAD_METHOD", None)
"""


def _check_spell_terminal(ctx, d, c):
    """The spelling given to TupimageTerminal (configuration keyword / environment / per-call argument of upload()); the upload of
    a PNG file (or of the same picture held in memory) is read from the command stream."""
    from .common import ToolFailure
    text, entry, kind = c["text"], c["entry"], c.get("image", "file")
    h, png = _spell_host()
    _PTY["n"] = _PTY.get("n", 0) + 1
    r = h.run(_TERM_SRC, ctor_text=text if entry == "terminal_config" else None, env_text=text if entry == "terminal_env" else None,
              call_text=text if entry == "terminal_call" else None, png=png, image_kind=kind, dbfile=str(h.dir / ("ids-%d.db" % _PTY["n"])))
    if "ok" not in r:
        raise ToolFailure(f"pty-hosted TupimageTerminal failed: {r!r}")
    res = r["ok"]
    exp_kind, exp_name = _spell_expected(c)
    ctx.count("spell-terminal:%s:%s" % (entry, exp_name or "unknown"))
    model = d2 = ctx.driver("drv_misc").ask(f"c17 norm 2f7364 upload_method S{text.encode().hex()};")
    m_name = {v: k for k, v in ENUM_CODES["medium"].items()}.get(model[4:]) if model.startswith("ok M") else None
    if res[0] == "ValueError":
        esc = _escapes(bytes.fromhex(res[2]))
        impl = ("rejected", res[1] if res[1] != "get_upload_method" else "construct")
    else:
        esc = _escapes(bytes.fromhex(res[2]))
        impl = ("sent", esc[0][0].get("t") if esc else None)
    # what the statement and the tables ask for: an unknown spelling is refused where it is read; direct and file uploads carry
    # their letter (a picture held in memory goes through a temporary file when a file is asked for); the library documents
    # temporary-file and shared-memory uploads as unsupported (ValueError at upload)
    if exp_kind == "rejected":
        want = ("rejected", "upload" if entry == "terminal_call" else "construct")
    elif exp_name == "DIRECT":
        want = ("sent", "d")
    elif exp_name == "FILE":
        want = ("sent", "f" if kind == "file" else "t")
    else:
        want = ("rejected", "upload")
    m_want = ("rejected", "upload" if entry == "terminal_call" else "construct") if m_name is None else \
        ("sent", "d") if m_name == "DIRECT" else ("sent", "f" if kind == "file" else "t") if m_name == "FILE" else ("rejected", "upload")
    ctx.eq("upload with the medium given as text: outcome", c, list(impl), list(m_want))
    if impl != want:
        ctx.violation("an upload whose medium was given by a documented spelling is not transmitted with the letter the spelling "
                      "stands for (or an unknown spelling was accepted)", c,
                      {"spelling": text, "stands_for": exp_name, "expected": want, "got": impl, "detail": res[3:] if res[0] != "ok" else res[1],
                       "first_escape": (bytes.fromhex(res[2])[:120]).hex()}, key="c06-spell-terminal")
        return
    if res[0] == "ok":
        if res[1] is not None and res[1] != exp_name:
            ctx.violation("get_upload_method() of a terminal configured by a documented spelling", c, {"got": res[1], "stands_for": exp_name},
                          key="c06-spell-terminal-method")
        # all escapes of the upload: exactly one carries the medium key; a file upload names the file
        with_t = [e for e in esc if "t" in e[0]]
        if len(with_t) != 1 or with_t[0] is not esc[0]:
            ctx.violation("the medium key is not carried by exactly the first escape of the upload", c, {"headers": [e[0] for e in esc[:4]]},
                          key="c06-spell-terminal-keys")
        if want == ("sent", "f"):
            import base64
            if base64.b64decode(esc[0][1]) != png.encode():
                ctx.violation("file upload does not name the file", c, {"payload": esc[0][1][:200].decode("latin-1"), "file": png},
                              key="c06-spell-terminal-name")


def _check_spell(ctx, d, c):
    gc = gcmod()
    enum, entry = c["enum"], c["entry"]
    ctx.count("spell:%s:%s" % (enum, entry))
    if entry in TERM_ENTRIES:
        return _check_spell_terminal(ctx, d, c)
    exp_kind, exp_name = _spell_expected(c)
    got_kind, got = _spell_obtain(c)
    got_name = got.name if got_kind == "ok" and got is not None else None
    wrong_type = got_kind == "ok" and got is not None and not isinstance(got, getattr(gc, ENUM_OF[enum]))
    ctx.count("spell-expected:%s:%s" % (enum, exp_name if exp_kind == "ok" else "rejected"))
    # K: Medium.ofString of the model (the string branch of validate_and_normalize) on the same text
    if enum == "medium" and "text" in c and c["text"] != "auto" and " " not in c["text"] and "\n" not in c["text"]:
        model = ctx.driver("drv_misc").ask(f"c17 norm 2f7364 upload_method S{c['text'].encode().hex()};")
        impl = ("ok M" + str(got.value)) if got_kind == "ok" and not wrong_type else "err invalid upload_method"
        ctx.eq("medium from text vs Medium.ofString", c, impl, model)
    # F: the spelling is accepted iff it is a documented one, and means the documented member
    if exp_kind == "rejected":
        if got_kind != "rejected":
            ctx.violation("an undocumented spelling of an enum value is accepted", c, {"spelling": c.get("text", c.get("bits", c.get("code"))),
                          "accepted_as": repr(got)}, key="c06-spell-accepted")
        return
    if got_kind == "rejected":
        ctx.violation("a documented spelling of an enum value is rejected", c, {"stands_for": exp_name, "error": got}, key="c06-spell-rejected")
        return
    if wrong_type or got_name != exp_name:
        # reported below as well, on the wire; this names the entry point
        ctx.violation("a documented spelling resolves to another member than the one it stands for", c,
                      {"stands_for": exp_name, "resolved_to": repr(got)}, key="c06-spell-member")
        if wrong_type:
            return
    # the member's own text form is its protocol code
    if got is not None:
        code = ENUM_CODES[enum][exp_name]
        if str(got) != str(code) or got.value != code:
            ctx.violation("str() / value of an enum member is not its protocol code", c, {"member": repr(got), "str": str(got), "code": code},
                          key="c06-spell-str")
    # a command built with what the entry point returned: judged against the member the spelling stands for
    desc = with_fields(c["cmd"], {enum: exp_name})
    f = dict(c["cmd"].get("f") or {})
    f.pop(enum, None)
    kw = conv_kw(f)
    kw[enum] = got
    data = data_bytes(c["cmd"].get("data"))
    t = desc["type"]
    obj = gc.TransmitCommand(data=data, **kw) if t == "T" else gc.PutCommand(**kw) if t == "P" else gc.DeleteCommand(**kw)
    try:
        impl = ser(obj)
    except Exception as e:
        ctx.violation("serialising a command whose enum field came from a documented spelling raised", c, repr(e), key="c06-spell-raises")
        return
    tok = tokens(desc, data if t == "T" else None)
    ctx.eq("command built from a spelling: header/content/to_bytes", c, impl, model_ser(d, tok))
    if judge(ctx, d, c, "the enum field given by a documented spelling is not serialised with the protocol code it stands for",
             impl[2], desc, keypfx="c06-spell-"):
        # and, read plainly, the key carries the literal code of the table (absent when the spelling means "unset")
        hdr = _escapes(bytes.fromhex(impl[2]))[0][0]
        key = ENUM_KEY[enum]
        want = None if exp_name is None else str(ENUM_CODES[enum][exp_name])
        have = hdr.get(key)
        if enum == "what" and have is not None and (c["cmd"].get("f") or {}).get("delete_data"):
            have = have.lower() if have == have.upper() else "not-upper:" + have
        if have != want:
            ctx.violation("wire key of an enum field differs from the documented code", c, {"key": key, "have": hdr.get(key), "want": want},
                          key="c06-spell-code")
    if t == "T" and c.get("via") == "send" and enum == "medium":
        out = io.BytesIO()
        try:
            obj.send(out, gc.GraphicsCommand.DEFAULT_TEMPLATE, max_size=c.get("max"))
        except ValueError:
            return
        esc = _escapes(out.getvalue())
        want = ENUM_CODES["medium"][exp_name]
        if not esc or esc[0][0].get("t") != want or any("t" in e[0] for e in esc[1:]):
            ctx.violation("send(): medium key of a transmission whose medium came from a documented spelling", c,
                          {"want": want, "headers": [e[0] for e in esc[:4]]}, key="c06-spell-send")


def spell_cases(ctx: Ctx):
    rng = ctx.rng
    quick = ctx.quick

    def tbase():
        f = {"image_id": rng.choice(BOUNDARY + [rnd_int(rng)])}
        for fld in ("format", "quiet", "compression"):
            if rng.random() < 0.5:
                f[fld] = rng.choice(enum_names(fld))
        if rng.random() < 0.3:
            f["placement"] = rnd_placement(rng)
        return f

    # the medium as text: every documented spelling and the unknown ones, through every entry point that reads text
    for text in list(MEDIUM_SPELLINGS) + MEDIUM_UNKNOWN + ["auto"]:
        for entry in SPELL_ENTRIES:
            if text == "auto" and entry != "from_string":
                continue   # "auto" is a configuration value of its own (not a medium)
            if entry == "config_env" and "\x00" in text:
                continue
            known = text in MEDIUM_SPELLINGS
            for rep in range((3 if entry == "from_string" else 2) if known else 1):
                name = MEDIUM_SPELLINGS.get(text)
                data = rnd_data(rng) if name in (None, "DIRECT") or rng.random() < 0.3 else {"text": rng.choice(NAMES)}
                yield {"k": "spell", "enum": "medium", "entry": entry, "text": text, "cmd": {"type": "T", "f": tbase(), "data": data},
                       "via": rng.choice(["to_bytes", "send"]), "max": rng.choice([None, 4096, 256])}
    # random near-misses of the documented spellings (one edit away) stay unknown
    alphabet = "dfstreamilhpo_ DFS"
    seen = set(MEDIUM_SPELLINGS) | set(MEDIUM_UNKNOWN) | {"auto"}
    for _ in range(60 if quick else 600):
        w = rng.choice(list(MEDIUM_SPELLINGS))
        i = rng.randrange(len(w) + 1)
        how = rng.choice(["ins", "del", "sub", "upper", "swap"])
        if how == "ins":
            w2 = w[:i] + rng.choice(alphabet) + w[i:]
        elif how == "del":
            w2 = w[:max(0, i - 1)] + w[i:]
        elif how == "sub":
            w2 = w[:max(0, i - 1)] + rng.choice(alphabet) + w[i:]
        elif how == "upper":
            w2 = w[:max(0, i - 1)] + w[max(0, i - 1):i].upper() + w[i:]
        else:
            w2 = w[1:] + w[:1]
        if w2 in seen:
            continue
        seen.add(w2)
        yield {"k": "spell", "enum": "medium", "entry": rng.choice(SPELL_ENTRIES), "text": w2, "cmd": {"type": "T", "f": tbase(), "data": None}}
    # through TupimageTerminal (pty-hosted): configuration keyword, environment, per-call argument of upload()
    for text in list(MEDIUM_SPELLINGS) + ["x", "streams", "Direct", ""]:
        for entry in TERM_ENTRIES:
            if entry == "terminal_env" and text == "":
                continue
            kinds = ["file", "memory"] if MEDIUM_SPELLINGS.get(text) in ("DIRECT", "FILE") and entry != "terminal_env" else [rng.choice(["file", "memory"])]
            for kind in kinds:
                yield {"k": "spell", "enum": "medium", "entry": entry, "text": text, "image": kind, "cmd": {"type": "T", "f": {"medium": MEDIUM_SPELLINGS.get(text)}}}
    # Format.from_bits, Compression.from_bool
    for bits in list(FORMAT_BITS) * 3 + FORMAT_BITS_UNKNOWN:
        yield {"k": "spell", "enum": "format", "entry": "from_bits", "bits": bits, "cmd": {"type": "T", "f": dict(tbase(), medium=rng.choice(enum_names("medium") + [None])), "data": rnd_data(rng)}}
    for flag in [True, False] * 4:
        yield {"k": "spell", "enum": "compression", "entry": "from_bool", "flag": flag,
               "cmd": {"type": "T", "f": dict(tbase(), medium=rng.choice(enum_names("medium") + [None])), "data": rnd_data(rng)}}
    # every member of every enum by its protocol code and by its name: str() / value / wire
    for enum, codes in ENUM_CODES.items():
        for name, code in codes.items():
            for entry in ("by_value", "by_name"):
                sel = {"code": code} if entry == "by_value" else {"name": name}
                if enum == "what":
                    for dd in (None, False, True):
                        yield dict({"k": "spell", "enum": enum, "entry": entry, "cmd": {"type": "D", "f": {"image_id": rng.choice(BOUNDARY), "delete_data": dd}}}, **sel)
                elif enum == "quiet":
                    for typ in ("T", "P", "D"):
                        cmd = {"type": typ, "f": {"image_id": rng.choice(BOUNDARY)}}
                        if typ == "T":
                            cmd["data"] = rnd_data(rng)
                        yield dict({"k": "spell", "enum": enum, "entry": entry, "cmd": cmd}, **sel)
                else:
                    yield dict({"k": "spell", "enum": enum, "entry": entry, "cmd": {"type": "T", "f": tbase(), "data": rnd_data(rng)}}, **sel)


def run_corpus(ctx: Ctx, prop: str, check):
    """corpus cases first (shared by c05.py / c11.py); before them, whatever the command classes declare that the Lean
    model does not know (a new public field, a new enum member) is reported as a broken correspondence."""
    from . import gen_cmd
    gen_cmd.report_unknown(ctx)
    corpus_dir = Path(__file__).resolve().parent.parent / "corpus" / prop
    if corpus_dir.is_dir():
        for f in sorted(corpus_dir.glob("*.json")):
            c = json.load(open(f))
            c = c.get("case", c)
            check(ctx, c)
            ctx.case(c)
            ctx.count("corpus")


def run(ctx: Ctx):
    ctx.rule = ("cases: transmit presence lattice over 27 slots (own fields, omit_action, placement and its 9 fields): all subsets of "
                "size <=2 and >=n-1 plus random subsets at three densities; full lattices of continuation (2^3), put (2^12) and "
                "delete (2^6) commands; values from {0,1,2^24-1,2^32-1} + digit-count boundaries + random; every enum member; "
                "action selection table; payloads empty/binary/ESC-and-separator bytes/file names, bytes and BytesIO; "
                "name payloads (7 names of 0..600 bytes) x file / temp-file / shared-memory media x limits {None,4096,...,40,0} through "
                "send() and split(); commands DERIVED through clone_with (every field x {None, 0/False, value} one at a time on full "
                "and sparse commands, random chains), get_pure_transmit_command, get_put_command, judged against the fields the caller "
                "asked for, original re-checked; the SAME object serialised again after in-place edits (attribute assignment, every "
                "nested PlacementData field, a placement object shared by two commands, set_placement / set_data / set_filename) "
                "and after edits of the PAYLOAD OBJECT (BytesIO, buffered / unbuffered real file, set_data_from_file handle x "
                "rewritten / extended / cut / overwritten in the middle / edited through getbuffer() / position moved / replaced by "
                "another stream, bytes or a file name; the stream also held by a second command), every to_bytes / content_to_bytes / "
                "get_raw_payload / send judged against the payload held at that moment; inline transmissions through send() (first "
                "accepted limit, small limits, 256, default) and split() with `more` unset / explicitly False / True x set by the "
                "constructor, by assignment or by clone_with x payloads of 0, 1, one chunk -1/+0/+1, two, three and more chunks: the "
                "written escapes read back as ONE transmission with the fields that were set and the exact payload; enum values given "
                "by their SPELLING (literal table of the documented names: d/direct/stream, f/file, t/temp/tempfile, s/shm; 24/32 bits; "
                "compress flag; every member by code and by name) through TransmissionMedium.from_string, TupimageConfig "
                "(validate_and_normalize, override, dict, TOML, environment), a pty-hosted TupimageTerminal (upload_method as keyword, "
                "environment, per-call argument of upload() of a file / an in-memory picture), Format.from_bits, Compression.from_bool: the wire "
                "key carries the code the spelling stands for, ~40 unknown spellings and one-edit near-misses are rejected. "
                "distinct = canonical JSON of the case; non-trivial = at least one optional field set or a payload")
    run_corpus(ctx, "C06", check_case)
    for c in itertools.chain(spell_cases(ctx), cases2(ctx), cases(ctx)):
        if ctx.time_left() < 0:
            ctx.count("skipped-over-budget")
            continue
        check_case(ctx, c)
        ctx.case(c, nontrivial=(_nset(c["cmd"]) > 0 or bool(c["cmd"].get("data")) or c["k"] != "cmd"))
    _spell_close()
    ctx.assumptions += ["field values are natural numbers, booleans or enum members (the declared types)",
                        "in-place edits assign values of the declared types; a stream payload is seekable and is edited only between "
                        "(not during) serialisations; a file opened by set_data_from_file is not changed behind the handle's back"]
