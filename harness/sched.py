"""Deterministic interleaving of several IDManager "processes" on one database file.

Each simulated process is a thread with its own `IDManager` (own sqlite connection).  A trace
callback (`sqlite3.Connection.set_trace_callback`) fires before every SQL statement; whenever the
connection is *outside* a transaction (i.e. the statement is a `BEGIN IMMEDIATE` or an autocommit
statement) the thread parks and the scheduler decides who moves next.  So the schedule is a
sequence of process indices at transaction-boundary / autocommit-statement granularity — the
granularity at which sqlite lets different connections interleave writes (inside a
`BEGIN IMMEDIATE` block no other writer can run; that atomicity is sqlite's and is trusted).

Crash points: a step can be told to `die` instead of continuing — the thread abandons its
connection without commit (the connection object is closed from the thread, which rolls back an
open transaction exactly as a process death would; real SIGKILL-style deaths are exercised
separately by the fork-based variant in c12).
"""
from __future__ import annotations

import datetime as _dt
import random
import threading
import traceback

# ---------------------------------------------------------------------------------------------
# Determinism of the implementation's own inputs: clock and randomness are functions of
# (scenario seed, process, operation index) only, in the interleaved run and in every sequential
# reference run alike.  `CUR` is thread-local: which (process, op) the calling thread executes.
# ---------------------------------------------------------------------------------------------
CUR = threading.local()
BASE = _dt.datetime(2030, 1, 1, 12, 0, 0)


def set_current(seed, nprocs, proc, opidx):
    CUR.key = (seed, proc, opidx)
    CUR.t = BASE + _dt.timedelta(seconds=opidx * nprocs + proc + 1)
    CUR.calls = 0
    CUR.rng = random.Random(f"{seed}/{proc}/{opidx}")


class FakeDateTime(_dt.datetime):
    @classmethod
    def now(cls, tz=None):
        CUR.calls += 1
        return CUR.t + _dt.timedelta(microseconds=CUR.calls)


class FakeSecrets:
    @staticmethod
    def randbelow(n):
        return CUR.rng.randrange(n)

    @staticmethod
    def choice(seq):
        return min(seq)


class _Sqlite3Shim:
    """Stands in for the `sqlite3` module inside tupimage.id_manager: `connect` attaches the calling
    simulated process's trace callback at once, so that the statements of `IDManager.__init__` (PRAGMAs and
    schema DDL) are switch points too; everything else is the real module."""

    def __init__(self, real):
        self._real = real

    def connect(self, *a, **kw):
        conn = self._real.connect(*a, **kw)
        proc = getattr(CUR, "proc", None)
        if proc is not None:
            proc.conn = conn
            conn.set_trace_callback(proc._trace)
        return conn

    def __getattr__(self, name):
        return getattr(self._real, name)


def install_fakes():
    from tupimage import id_manager as im
    saved = (im.datetime, im.secrets, im.sqlite3)
    im.datetime = FakeDateTime
    im.secrets = FakeSecrets
    if not isinstance(im.sqlite3, _Sqlite3Shim):
        im.sqlite3 = _Sqlite3Shim(im.sqlite3)
    return saved


def uninstall_fakes(saved):
    from tupimage import id_manager as im
    im.datetime, im.secrets, im.sqlite3 = saved


class Proc(threading.Thread):
    def __init__(self, idx, sched, dbfile, ops, max_ids, hook=None, seed=0, nprocs=1):
        super().__init__(daemon=True)
        self.idx = idx
        self.sched = sched
        self.dbfile = dbfile
        self.ops = ops
        self.max_ids = max_ids
        self.results = []      # (op, result | ("exc", type, msg))
        self.statements = []   # (op index, sql) as traced
        self.cur_op = -1
        self.go = threading.Semaphore(0)
        self.done = False
        self.parked_at = None
        self.hook = hook
        self.m = None
        self.conn = None
        self.locked = False
        self.seed = seed
        self.nprocs = nprocs

    # -- called in this thread from sqlite's trace callback
    def _trace(self, sql):
        self.statements.append((self.cur_op, sql))
        conn = self.conn if self.m is None else self.m.conn
        # `locked`: this connection holds sqlite's write lock (BEGIN IMMEDIATE/EXCLUSIVE, or a deferred
        # transaction that has already written).  While it does, nobody else can write, so parking here
        # would only make the others wait for busy_timeout; everywhere else is a switch point — including
        # inside a *deferred* transaction that has only read so far (that is where stale snapshots bite).
        if not conn.in_transaction:
            self.locked = False
        if not self.locked:
            self.park(("stmt", self.cur_op, sql.split(None, 3)[0:3]))
        up = sql.lstrip().upper()
        kw = up.split(None, 1)[0] if up else ""
        if kw == "BEGIN" and ("IMMEDIATE" in up or "EXCLUSIVE" in up):
            self.locked = True
        elif conn.in_transaction and kw in ("INSERT", "UPDATE", "DELETE", "REPLACE", "CREATE", "DROP"):
            self.locked = True

    def park(self, where):
        self.parked_at = where
        self.sched.parked.release()
        self.go.acquire()
        self.parked_at = None

    def run(self):
        try:
            from tupimage import id_manager as im
            set_current(self.seed, self.nprocs, self.idx, -1)
            self.park(("open",))
            CUR.proc = self if self.sched.trace_open else None
            try:
                self.m = im.IDManager(self.dbfile, max_ids_per_subspace=self.max_ids)
            except Exception as e:  # noqa: the open itself failed: every operation of this process fails with it
                CUR.proc = None
                for op in self.ops:
                    self.results.append((op, ("exc", type(e).__name__, "open: " + str(e)[:180])))
                return
            CUR.proc = None
            self.m.conn.set_trace_callback(self._trace)
            for i, op in enumerate(self.ops):
                self.cur_op = i
                set_current(self.seed, self.nprocs, self.idx, i)
                self.park(("op", i))
                try:
                    r = self.sched.apply(self.m, op)
                    self.results.append((op, r))
                except Exception as e:  # noqa
                    self.results.append((op, ("exc", type(e).__name__, str(e)[:200])))
            self.m.conn.set_trace_callback(None)
            self.m.close()
        except Exception:
            self.results.append((None, ("harness-exc", traceback.format_exc()[-400:])))
        finally:
            self.done = True
            self.sched.parked.release()


class Scheduler:
    """Runs `programs` (list of op lists) under `schedule` (iterable of process indices; when it
    runs out, or names a finished process, the lowest unfinished process moves)."""

    def __init__(self, dbfile, programs, apply, max_ids=1024, seed=0, trace_open=False):
        self.trace_open = trace_open
        self.parked = threading.Semaphore(0)
        self.apply = apply
        self.procs = [Proc(i, self, dbfile, ops, max_ids, seed=seed, nprocs=len(programs)) for i, ops in enumerate(programs)]
        self.trace = []   # (proc, where) in the order steps were granted

    def run(self, schedule, max_steps=100000):
        for p in self.procs:
            p.start()
            self.parked.acquire()          # wait until it parks at ("open",)
        sched = list(schedule)
        k = 0
        steps = 0
        while True:
            alive = [p for p in self.procs if not p.done]
            if not alive:
                break
            pick = None
            while k < len(sched):
                cand = sched[k]
                k += 1
                if 0 <= cand < len(self.procs) and not self.procs[cand].done:
                    pick = self.procs[cand]
                    break
            if pick is None:
                pick = alive[0]
            self.trace.append((pick.idx, pick.parked_at))
            pick.go.release()
            self.parked.acquire()          # it parked again or finished
            steps += 1
            if steps > max_steps:
                raise RuntimeError("schedule did not terminate")
        for p in self.procs:
            p.join(timeout=5)
        return [p.results for p in self.procs]
