"""Shared machinery of the pytupimage verification harness.

Verdict logic (DESIGN.md section 2):
  1. regenerate Tup/Gen from /repo, build the Lean project (models, drivers, property theorems),
     audit the axioms of the property theorems;
  2. run the property module: corpus first, then generated cases.  Each case runs the real code,
     the Lean model (correspondence K) and the independent specification on the real code's
     output (failing-input search F);
  3. everything agrees and the theorems check  -> exit 0;
  4. a concrete failing input was found        -> VIOLATION ... replay=<file>   (exit 1)
     unless it matches an open entry of known_findings.json (KNOWN-FINDING line, exit 0);
  5. proof or correspondence broken, no failing input found
                                               -> VIOLATION ... no-failing-input-found (exit 1);
  6. tool failure                              -> exit 2.
"""
from __future__ import annotations

import fcntl
import hashlib
import json
import os
import queue
import random
import re
import subprocess
import sys
import threading
import time
import traceback
from pathlib import Path

VERIF = Path(__file__).resolve().parent.parent
LEAN = VERIF / "lean"
REPO = Path(os.environ.get("VERIF_REPO", "/repo"))
BIN = LEAN / ".lake" / "build" / "bin"
GUARD = "SERGEI_GRECHANIK_PYTUPIMAGE_VERIF"

ALLOWED_AXIOMS = {"propext", "Classical.choice", "Quot.sound"}
FORBIDDEN = re.compile(
    r"\bsorry\b|\badmit\b|^\s*axiom\s|native_decide|bv_decide|implemented_by|\bunsafe\s|maxHeartbeats\s+0\b"
)


class ToolFailure(Exception):
    """Harness/tooling problem: exit 2, never a violation."""


# --------------------------------------------------------------------------------------
# Lean driver client
# --------------------------------------------------------------------------------------
class Driver:
    """Line-protocol client of a compiled Lean driver (lean/.lake/build/bin/<name>)."""

    def __init__(self, name: str):
        exe = BIN / name
        if not exe.exists():
            raise ToolFailure(f"driver {exe} is not built")
        self.name = name
        self.p = subprocess.Popen(
            [str(exe)], stdin=subprocess.PIPE, stdout=subprocess.PIPE, bufsize=0
        )
        self.q: "queue.Queue[bytes|None]" = queue.Queue()
        self.t = threading.Thread(target=self._reader, daemon=True)
        self.t.start()
        self.requests = 0

    def _reader(self):
        f = self.p.stdout
        buf = b""
        while True:
            chunk = f.read(1 << 16)
            if not chunk:
                self.q.put(None)
                return
            buf += chunk
            while True:
                i = buf.find(b"\n")
                if i < 0:
                    break
                self.q.put(buf[:i])
                buf = buf[i + 1 :]

    def _get(self) -> str:
        r = self.q.get(timeout=600)
        if r is None:
            raise ToolFailure(f"driver {self.name} died")
        return r.decode("utf-8", "replace")

    def ask(self, line: str) -> str:
        assert "\n" not in line
        self.p.stdin.write(line.encode("utf-8") + b"\n")
        self.requests += 1
        return self._get()

    def ask_many(self, lines):
        lines = list(lines)
        data = b"".join(l.encode("utf-8") + b"\n" for l in lines)
        # the reader thread drains stdout, so a large write cannot deadlock
        self.p.stdin.write(data)
        self.requests += len(lines)
        return [self._get() for _ in lines]

    def close(self):
        try:
            self.p.stdin.close()
            self.p.wait(timeout=10)
        except Exception:
            self.p.kill()


def hx(b: bytes) -> str:
    return b.hex() if b else "-"


def unhx(s: str) -> bytes:
    return b"" if s == "-" else bytes.fromhex(s)


# --------------------------------------------------------------------------------------
# build + audit
# --------------------------------------------------------------------------------------
def _run(cmd, cwd=None, timeout=3600, env=None):
    return subprocess.run(
        cmd, cwd=cwd, timeout=timeout, env=env, stdout=subprocess.PIPE, stderr=subprocess.STDOUT, text=True
    )


class BuildInfo:
    def __init__(self):
        self.drivers_ok = True
        self.props_ok = True
        self.props_log = ""
        self.theorems: list[str] = []
        self.axioms: dict[str, list[str]] = {}
        self.forbidden_hits: list[str] = []
        self.gen_changed: list[str] = []
        self.gen_errors: list[str] = []     # tables that could not be regenerated from the tree under test
        self.leanchecker: str | None = None

    @property
    def obligations(self):
        return len(self.theorems)

    @property
    def discharged(self):
        if not self.props_ok:
            return 0
        return sum(
            1
            for t in self.theorems
            if t in self.axioms and set(self.axioms[t]) <= ALLOWED_AXIOMS
        )

    def broken(self) -> list[str]:
        out = []
        for e in self.gen_errors:
            out.append("regeneration of a table from the tree under test failed (the previous table stays in place): " + e)
        if not self.props_ok:
            out.append("lake build of the property theorems failed")
        for t in self.theorems:
            if t not in self.axioms:
                out.append(f"theorem {t} did not check")
            elif not set(self.axioms[t]) <= ALLOWED_AXIOMS:
                out.append(f"theorem {t} depends on axioms {sorted(set(self.axioms[t]) - ALLOWED_AXIOMS)}")
        out += [f"forbidden construct: {h}" for h in self.forbidden_hits]
        return out


def strip_lean_comments(src: str) -> str:
    # remove block comments (nesting-aware) and line comments
    out = []
    i = 0
    depth = 0
    n = len(src)
    while i < n:
        if src.startswith("/-", i):
            depth += 1
            i += 2
        elif depth and src.startswith("-/", i):
            depth -= 1
            i += 2
        elif depth:
            if src[i] == "\n":
                out.append("\n")
            i += 1
        elif src.startswith("--", i):
            while i < n and src[i] != "\n":
                i += 1
        else:
            out.append(src[i])
            i += 1
    return "".join(out)


def scan_forbidden() -> list[str]:
    hits = []
    for p in sorted((LEAN / "Tup").rglob("*.lean")) + sorted(LEAN.glob("*.lean")):
        src = strip_lean_comments(p.read_text())
        for ln, line in enumerate(src.split("\n"), 1):
            if FORBIDDEN.search(line):
                hits.append(f"{p.relative_to(LEAN)}:{ln}: {line.strip()[:80]}")
    return hits


def theorems_of(prop: str) -> list[str]:
    f = LEAN / "Tup" / "Props" / f"{prop}.lean"
    if not f.exists():
        return []
    src = strip_lean_comments(f.read_text())
    names = []
    ns: list[str] = []
    for line in src.split("\n"):
        m = re.match(r"\s*namespace\s+(\S+)", line)
        if m:
            ns.append(m.group(1))
            continue
        m = re.match(r"\s*end\s+(\S+)", line)
        if m and ns and ns[-1] == m.group(1):
            ns.pop()
            continue
        m = re.match(r"\s*(?:@\[[^\]]*\]\s*)?(?:protected\s+)?theorem\s+([^\s:({\[]+)", line)
        if m:
            names.append(".".join(ns + [m.group(1)]))
    return names


GEN_ERRORS: list[str] = []


def regenerate_gen() -> list[str]:
    """Regenerate lean/Tup/Gen/*.lean from the repo's current working tree.  A generator that cannot run because the
    implementation raises (or no longer has what the table is read from) leaves its file as it was and is recorded in
    GEN_ERRORS: the tie of that table to the code is broken, which is reported like a broken proof obligation."""
    from . import gen

    GEN_ERRORS.clear()
    return gen.regenerate(REPO, LEAN / "Tup" / "Gen", errors=GEN_ERRORS)


def ensure_built(prop: str | None, drivers: list[str], *, leanchecker: bool = False) -> BuildInfo:
    info = BuildInfo()
    lock = open(LEAN / ".build.lock", "w")
    fcntl.flock(lock, fcntl.LOCK_EX)
    try:
        info.gen_changed = regenerate_gen()
        info.gen_errors = list(GEN_ERRORS)
        # drivers (models/specs only; never import Props)
        targets = sorted(set(drivers))
        if targets:
            r = _run(["lake", "build"] + targets, cwd=LEAN)
            if r.returncode != 0:
                info.drivers_ok = False
                raise ToolFailure("lake build of drivers failed:\n" + r.stdout[-4000:])
        if prop is not None:
            info.theorems = theorems_of(prop)
            mod = f"Tup.Props.{prop}"
            if (LEAN / "Tup" / "Props" / f"{prop}.lean").exists():
                r = _run(["lake", "build", mod], cwd=LEAN)
                info.props_log = r.stdout[-6000:]
                info.props_ok = r.returncode == 0
                if info.props_ok and info.theorems:
                    audit = LEAN / f".audit_{prop}.lean"
                    audit.write_text(
                        f"import {mod}\n" + "".join(f"#print axioms {t}\n" for t in info.theorems)
                    )
                    r = _run(["lake", "env", "lean", str(audit)], cwd=LEAN)
                    audit.unlink(missing_ok=True)
                    # output: 'Tup.C10.foo' depends on axioms: [propext, Quot.sound]   |   does not depend on any axioms
                    txt = r.stdout.replace("\n ", " ")
                    for m in re.finditer(r"'([^']+)' depends on axioms: \[([^\]]*)\]", txt, re.S):
                        info.axioms[m.group(1)] = [a.strip() for a in m.group(2).replace("\n", " ").split(",") if a.strip()]
                    for m in re.finditer(r"'([^']+)' does not depend on any axioms", txt):
                        info.axioms[m.group(1)] = []
                if info.props_ok and leanchecker:
                    r = _run(["lake", "env", "leanchecker", mod], cwd=LEAN, timeout=3000)
                    info.leanchecker = "ok" if r.returncode == 0 else ("FAILED: " + r.stdout[-500:])
                    if r.returncode != 0:
                        info.props_ok = False
            info.forbidden_hits = scan_forbidden()
    finally:
        fcntl.flock(lock, fcntl.LOCK_UN)
        lock.close()
    return info


# --------------------------------------------------------------------------------------
# run context
# --------------------------------------------------------------------------------------
def canon(x) -> str:
    return json.dumps(x, sort_keys=True, default=_json_default, separators=(",", ":"))


def _json_default(o):
    if isinstance(o, (bytes, bytearray)):
        return {"hex": bytes(o).hex()}
    if isinstance(o, (set, frozenset)):
        return sorted(o)
    return repr(o)


class Ctx:
    def __init__(self, prop: str, tier: str, seed: int):
        self.prop = prop
        self.tier = tier
        self.seed = seed
        self.rng = random.Random(seed)
        self.t0 = time.time()
        self.evaluations = 0
        self._distinct: set[bytes] = set()
        self.nontrivial = 0
        self.samples: list = []
        self.dist: dict[str, int] = {}
        self.mismatches: list[dict] = []   # K: implementation vs model
        self.violations: list[dict] = []   # F: concrete failing input on the real code
        self.known_hits: dict[str, dict] = {}
        self.notes: list[str] = []
        self.assumptions: list[str] = []
        self.rule = ""
        self.extra: dict = {}
        self.exhaustive = False
        self._drivers: dict[str, Driver] = {}
        self.budget_s = float(os.environ.get("VERIF_BUDGET_S", "0")) or (150 if tier == "quick" else 780)
        self.max_report = 5

    # -- drivers
    def driver(self, name: str) -> Driver:
        if name not in self._drivers:
            self._drivers[name] = Driver(name)
        return self._drivers[name]

    def close(self):
        for d in self._drivers.values():
            d.close()

    # -- time
    def elapsed(self) -> float:
        return time.time() - self.t0

    def time_left(self) -> float:
        return self.budget_s - self.elapsed()

    @property
    def quick(self) -> bool:
        return self.tier == "quick"

    # -- bookkeeping
    def count(self, key: str, n: int = 1):
        self.dist[key] = self.dist.get(key, 0) + n

    def case(self, case, nontrivial: bool = True, sample: bool | None = None):
        """Register one explored case (JSON-serialisable)."""
        self.evaluations += 1
        h = hashlib.blake2b(canon(case).encode(), digest_size=12).digest()
        if h not in self._distinct:
            self._distinct.add(h)
            if nontrivial:
                self.nontrivial += 1
        if sample is None:
            sample = len(self.samples) < 6 and (self.evaluations in (1, 7, 50, 400, 3000, 20000))
        if sample and len(self.samples) < 12:
            s = json.loads(canon(case))
            if len(canon(s)) > 1500:
                s = {"truncated": canon(s)[:1500]}
            self.samples.append(s)

    def mismatch(self, what: str, case, impl, model):
        """K: the implementation and the Lean model disagree on `case`."""
        if len(self.mismatches) < 200:
            self.mismatches.append({"what": what, "case": case, "impl": impl, "model": model})
        self.count("K-mismatch:" + what.split(":")[0])

    def violation(self, what: str, case, detail=None, key: str | None = None):
        """F: `case` is a concrete input on which the real code breaks the property."""
        v = {"what": what, "case": case, "detail": detail, "key": key or what}
        if len(self.violations) < 500:
            self.violations.append(v)
        self.count("F-violation:" + (key or what).split(":")[0])

    def eq(self, what: str, case, impl, model) -> bool:
        if impl != model:
            self.mismatch(what, case, impl, model)
            return False
        return True


# --------------------------------------------------------------------------------------
# known findings
# --------------------------------------------------------------------------------------
def load_findings(prop: str):
    f = VERIF / "known_findings.json"
    if not f.exists():
        return []
    data = json.loads(f.read_text())
    return [e for e in data.get("findings", []) if e.get("property") == prop]


def finding_matches(entry: dict, v: dict) -> bool:
    """An open finding matches a violation iff the violation's key equals the entry's key
    and every (name -> regex) in entry['match'] matches canon(violation['case'])/detail."""
    if entry.get("status") != "open":
        return False
    if entry.get("key") != v.get("key"):
        return False
    for field, rx in (entry.get("match") or {}).items():
        val = v.get(field)
        s = val if isinstance(val, str) else canon(val)
        if not re.search(rx, s):
            return False
    return True


# --------------------------------------------------------------------------------------
# verdict + evidence
# --------------------------------------------------------------------------------------
def write_replay(prop: str, payload: dict) -> Path:
    d = VERIF / "replays"
    d.mkdir(exist_ok=True)
    h = hashlib.blake2b(canon(payload).encode(), digest_size=6).hexdigest()
    p = d / f"{prop}-{h}.json"
    p.write_text(json.dumps(json.loads(canon(payload)), indent=1))
    return p


def finish(ctx: Ctx, info: BuildInfo | None, *, level: str = "proof", checker_cmd: str = "", trusted: list[str] | None = None,
           write_evidence: bool = True) -> int:
    prop = ctx.prop
    findings = load_findings(prop)
    open_hits: dict[str, str] = {}
    fresh = []
    for v in ctx.violations:
        m = next((e for e in findings if finding_matches(e, v)), None)
        if m is not None:
            open_hits.setdefault(m["id"], m["what"])
        else:
            fresh.append(v)
    broken = info.broken() if info is not None else []
    rc = 0
    lines = []
    for fid, what in sorted(open_hits.items()):
        lines.append(f"KNOWN-FINDING: property={prop} {fid}: {what}")
    if fresh:
        rc = 1
        # group by key; one VIOLATION line per distinct key (first = smallest case)
        seen = {}
        for v in fresh:
            k = v["key"]
            if k not in seen or len(canon(v["case"])) < len(canon(seen[k]["case"])):
                seen[k] = v
        for k, v in list(seen.items())[: ctx.max_report]:
            path = write_replay(prop, {"property": prop, "kind": "failing-input", "what": v["what"], "key": k,
                                       "case": v["case"], "detail": v["detail"], "seed": ctx.seed, "tier": ctx.tier})
            lines.append(f"VIOLATION property={prop} replay={path.relative_to(VERIF)}")
    elif ctx.mismatches or broken:
        rc = 1
        payload = {"property": prop, "kind": "no-failing-input-found", "seed": ctx.seed, "tier": ctx.tier,
                   "broken_proof_obligations": broken,
                   "proof_log_tail": (info.props_log[-3000:] if info and not info.props_ok else ""),
                   "broken_correspondence": ctx.mismatches[:10],
                   "explanation": "A theorem or the model/implementation correspondence no longer checks; the failing-input "
                                  "search (independent specification evaluated on the implementation's outputs) found no concrete "
                                  "input on which the property fails. The property is no longer shown to hold."}
        if ctx.mismatches:
            payload["case"] = ctx.mismatches[0]["case"]
        path = write_replay(prop, payload)
        lines.append(f"VIOLATION property={prop} replay={path.relative_to(VERIF)} no-failing-input-found")
    wall = ctx.elapsed()
    if os.environ.get("VERIF_REPO") and os.environ.get("VERIF_REPO") != "/repo":
        # a run against a scratch tree (seed confirmation, fix testing) never touches the evidence of /repo
        write_evidence = False
    if write_evidence:
        cov = {
            "evaluations": ctx.evaluations,
            "distinct_nontrivial": ctx.nontrivial,
            "rule": ctx.rule,
            "samples": ctx.samples[:12] or [{"note": "no generated cases in this run"}],
            "input_distribution": dict(sorted(ctx.dist.items())),
            "correspondence_mismatches": len(ctx.mismatches),
            "exhaustive": ctx.exhaustive,
        }
        if info is not None:
            cov.update({
                "obligations": info.obligations,
                "discharged": info.discharged,
                "checker_cmd": checker_cmd or f"cd lean && lake build Tup.Props.{prop} && lake env lean <#print axioms of every theorem in Tup/Props/{prop}.lean>",
                "trusted_base": (trusted or []) + [
                    "Lean 4.33 kernel",
                    "axioms: " + ", ".join(sorted({a for t in info.theorems for a in info.axioms.get(t, [])}) or ["none"]),
                    "correspondence check (differential testing, harness/" + prop.lower() + ".py) ties the hand-written model to /repo",
                ],
                "theorems": {t: info.axioms.get(t, "NOT CHECKED") for t in info.theorems},
                "gen_files_regenerated": info.gen_changed,
            })
            if info.leanchecker:
                cov["leanchecker"] = info.leanchecker
        cov.update(ctx.extra)
        ev = {
            "property_id": prop,
            "tier": ctx.tier,
            "seed": ctx.seed,
            "level": level,
            "coverage": cov,
            "assumptions": ctx.assumptions,
            "wall_s": round(wall, 2),
            "violations": len(fresh) if fresh else (1 if rc else 0),
            "known_findings_hit": sorted(open_hits),
            "notes": ctx.notes,
        }
        (VERIF / "evidence").mkdir(exist_ok=True)
        (VERIF / "evidence" / f"{prop}.json").write_text(json.dumps(json.loads(canon(ev)), indent=1))
    for l in lines:
        print(l)
    print(f"[{prop}] tier={ctx.tier} seed={ctx.seed} evaluations={ctx.evaluations} distinct_nontrivial={ctx.nontrivial} "
          f"K-mismatches={len(ctx.mismatches)} F-violations={len(ctx.violations)} (new {len(fresh)}) "
          + (f"theorems={info.discharged}/{info.obligations} " if info else "") + f"wall={wall:.1f}s exit={rc}")
    return rc
