"""C14 — IDs are displayed using only the terminal features their ID space allows.

The high-level path is exercised for real: `TupimageTerminal.display_only` on a TupimageTerminal
built with BytesIO streams, a temporary id_database and config="DEFAULT".  The constructor always
opens /dev/tty (it passes in_userinput=None), so the object lives in a `pty.fork()` child of a
helper process (`python -m harness.c14 --host`, single-threaded, so forking is safe); cases go in
and display-stream bytes come back as JSON.

K: bytes written by display_only vs Tup.Model.Placeholder.displayOnly (= toStream with
   displayMode / getFormatting + final cursor move) through drv_ph.
F: the REAL bytes on the specification terminal: every placeholder cell's foreground is a
   24-bit colour only if the ID's space (Spec.Layout.inSpace, through drv_ids) has 24 colour bits,
   a cell carries a third diacritic only if the space uses it, and the rectangle still decodes to
   the full 32-bit ID at the expected positions.
"""
from __future__ import annotations

import io
import itertools
import json
import os
import subprocess
import sys
from pathlib import Path

from . import ph_util as U
from .common import REPO, VERIF, Ctx, ToolFailure

DRIVERS = ["drv_ph", "drv_ids"]
EVIDENCE = dict(
    level="proof",
    trusted=[
        "Spec.Layout.inSpace (feature table of the ID spaces), Spec.Term, Spec.Decode + pinned table",
        "PIL.ImageColor.getrgb resolves '#rrggbb' to (r, g, b) (the model receives the resolved triple)",
        "pty hosting of TupimageTerminal (harness/c14.py --host)",
    ],
)

SPACES = [(0, 1), (8, 1), (24, 1), (8, 0), (24, 0)]
PH = 0x10EEEE


# ------------------------------------------------------------------------------------------
# host: runs inside `python -m harness.c14 --host`
# ------------------------------------------------------------------------------------------
def _display_all(cases):
    import tempfile
    for v in list(os.environ):
        if v.startswith("TUPIMAGE") or v in ("TMUX", "SSH_CLIENT", "SSH_TTY", "SSH_CONNECTION"):
            del os.environ[v]
    sys.path.insert(0, str(REPO))
    from tupimage.placeholder import ImagePlaceholder
    from tupimage.tupimage_terminal import TupimageTerminal
    td = tempfile.mkdtemp(prefix="vc14")
    out = io.BytesIO()
    term = TupimageTerminal(out_command=io.BytesIO(), out_display=out, in_response=io.BytesIO(),
                            id_database=os.path.join(td, "ids.db"), config="DEFAULT")
    fpn = {"br": "bottom-right", "tr": "top-right", "tl": "top-left", "bl": "bottom-left"}
    res = []
    for n_case, c in enumerate(cases):
        if c.get("k") == "alloc":
            res.append(_alloc_scenario(c, td, n_case))
            continue
        out.seek(0)
        out.truncate()
        sc, sr, ec, er = c["rect"]
        bg = c["bg"]
        background = "none" if bg[0] == "none" else (bg[1] if bg[0] == "idx" else "#%02x%02x%02x" % tuple(bg[1:]))
        kw = dict(fewer_diacritics=bool(c["fewer"]), background=background, abs_pos=tuple(c["pos"]) if c.get("pos") else None,
                  final_cursor_pos=fpn[c.get("fp", "br")], use_line_feeds=bool(c.get("lf", 0)))
        try:
            if c.get("via", "int") == "ph":
                r = term.display_only(ImagePlaceholder(c["id"], c.get("pid", 0), sc, sr, ec, er), **kw)
            else:
                r = term.display_only(c["id"], start_col=sc, start_row=sr, end_col=ec, end_row=er, **kw)
            res.append(["ok", out.getvalue().hex(), [r.image_id, r.placement_id, r.start_col, r.start_row, r.end_col, r.end_row]])
        except ValueError:
            res.append(["err value", out.getvalue().hex(), None])
        except IndexError:
            res.append(["err index", out.getvalue().hex(), None])
    import shutil
    shutil.rmtree(td, ignore_errors=True)
    return res


def _alloc_scenario(c, td, n_case):
    """One long-lived TupimageTerminal whose ID space is CONFIGURED (object or text, through one of the configuration layers,
    possibly changed later through the `id_space` property); images are given IDs by the library (assign_id / upload_and_display,
    default or explicit space in any accepted form) and displayed through the high-level path. Returns per step
    [status, display bytes hex, returned placeholder, id]."""
    from tupimage import id_manager as im
    from tupimage.tupimage_terminal import TupimageConfig, TupimageTerminal

    def scrub():
        for v in list(os.environ):
            if v.startswith("TUPIMAGE"):
                del os.environ[v]

    def value(name, form):
        if form["t"] == "obj":
            return im.IDSpace(form["v"][0], bool(form["v"][1])) if name == "id_space" else im.IDSubspace(form["v"][0], form["v"][1])
        return form["v"]

    scrub()
    out, cmd = io.BytesIO(), io.BytesIO()
    cfg = c.get("cfg") or {}
    via = cfg.get("via", "kwargs")
    vals = {k: value(k, cfg[k]) for k in ("id_space", "id_subspace") if k in cfg}
    base = dict(out_command=cmd, out_display=out, in_response=io.BytesIO(), id_database=os.path.join(td, f"alloc{n_case}.db"),
                num_tmux_layers=0, upload_method="direct")
    steps_out = []
    try:
        if via == "kwargs":
            term = TupimageTerminal(config="DEFAULT", **base, **vals)
        elif via == "overrides":
            term = TupimageTerminal(config="DEFAULT", config_overrides=dict(vals), **base)
        elif via == "env":
            for k, v in vals.items():
                os.environ["TUPIMAGE_" + k.upper()] = str(v)
            term = TupimageTerminal(config="DEFAULT", **base)
        elif via == "toml":
            path = os.path.join(td, f"alloc{n_case}.toml")
            with open(path, "w") as f:
                for k, v in vals.items():
                    f.write(f'{k} = "{v}"\n')
            term = TupimageTerminal(config=path, **base)
        elif via == "property":
            term = TupimageTerminal(config="DEFAULT", **base)
            for k, v in vals.items():
                setattr(term, k, v)
        elif via == "cfgobj":
            term = TupimageTerminal(config=TupimageConfig(**vals), **base)
        else:
            raise KeyError(via)
    except Exception as e:          # noqa: BLE001
        scrub()
        return ["alloc", [["err ctor " + type(e).__name__ + ": " + str(e)[:200], "", None, None]]]
    try:
        for st in c["steps"]:
            if st["op"] == "set":
                for k in ("id_space", "id_subspace"):
                    if k in st:
                        setattr(term, k, value(k, st[k]))
                steps_out.append(["set", "", None, None])
                continue
            arg = None
            if st.get("spa") and st["spa"]["t"] != "none":
                arg = value("id_space", st["spa"])
            out.seek(0)
            out.truncate()
            try:
                if st.get("how") == "uad":
                    from PIL import Image
                    img = Image.new("RGB", (4, 4), (st["img"] & 255, (st["img"] >> 8) & 255, (st["img"] >> 16) & 255))
                    r = term.upload_and_display(img, cols=st["cols"], rows=st["rows"], id_space=arg, fewer_diacritics=bool(st["fewer"]),
                                                final_cursor_pos="bottom-right")
                else:
                    inst = term.assign_id(f":c14:{st['img']}", cols=st["cols"], rows=st["rows"], id_space=arg)
                    out.seek(0)
                    out.truncate()
                    r = term.display_only(inst, fewer_diacritics=bool(st["fewer"]), final_cursor_pos="bottom-right")
                steps_out.append(["ok", out.getvalue().hex(), [r.image_id, r.placement_id, r.start_col, r.start_row, r.end_col, r.end_row], r.image_id])
            except Exception as e:          # noqa: BLE001
                steps_out.append(["err " + type(e).__name__ + ": " + str(e)[:200], out.getvalue().hex(), None, None])
    finally:
        scrub()
        try:
            term.id_manager.close()
        except Exception:          # noqa: BLE001
            pass
    return ["alloc", steps_out]


def host_main():
    import pty
    cases = json.load(sys.stdin)
    r, w = os.pipe()
    pid, fd = pty.fork()
    if pid == 0:
        code = 0
        try:
            os.close(r)
            data = json.dumps(_display_all(cases)).encode()
            with os.fdopen(w, "wb") as f:
                f.write(data)
        except BaseException:
            import traceback
            try:
                os.write(w, ("HOSTFAIL " + traceback.format_exc()).encode())
            except OSError:
                pass
            code = 3
        os._exit(code)
    os.close(w)
    chunks = []
    while True:
        b = os.read(r, 1 << 20)
        if not b:
            break
        chunks.append(b)
    os.waitpid(pid, 0)
    os.close(fd)
    sys.stdout.write(b"".join(chunks).decode())


def host(cases):
    env = dict(os.environ, VERIF_REPO=str(REPO))
    r = subprocess.run([sys.executable, "-m", "harness.c14", "--host"], cwd=str(VERIF), input=json.dumps(cases), text=True,
                       stdout=subprocess.PIPE, stderr=subprocess.PIPE, env=env, timeout=3000)
    if r.returncode != 0 or not r.stdout.startswith("["):
        raise ToolFailure("pty host failed: " + (r.stdout[:2000] + r.stderr[-2000:]))
    return json.loads(r.stdout)


# ------------------------------------------------------------------------------------------
def _reqs(c, res):
    sc, sr, ec, er = c["rect"]
    p = [c["id"], c.get("pid", 0) if c.get("via") == "ph" else 0, sc, sr, ec, er]
    bg = c["bg"]
    bgs = ":".join(str(x) for x in bg)
    pos = f"{c['pos'][0]}:{c['pos'][1]}" if c.get("pos") else "-"
    reqs = [f"display {U.ph_str(p)} {int(c['fewer'])} {bgs} {pos} {int(c.get('lf', 0))} {c.get('fp', 'br')}"]
    if res[0] == "ok" and U.in_domain(p):
        onlcr = 1 if c.get("lf") else 0
        reqs.append(U.req_spec(c["W"], c["H"], c["x0"], c["y0"], 1, c.get("rs", 1), onlcr, c.get("sgr", ["-", "-", "-"]), bytes.fromhex(res[1])))
    return p, reqs


def _space_of(ctx, n, cache={}):
    if n not in cache:
        d = ctx.driver("drv_ids")
        owners = [s for s in SPACES if d.ask(f"spec_inspace {s[0]} {s[1]} {n}") == "1"]
        cache[n] = owners
        if len(cache) > 300000:
            cache.clear()
    return cache[n]


def _judge(ctx: Ctx, c, res, p, replies, req0=""):
    st, data = res[0], bytes.fromhex(res[1])
    ctx.count("impl:" + st)
    mst, mdata = U.model_bytes(replies[0])
    if st == mst == "ok" and data != mdata and p[5] > U.TABLE and \
            U.model_bytes(ctx.driver("drv_ph").ask(req0.replace("display ", "display9 ", 1))) == ("ok", data):
        # C14 does not depend on the trailing reset of blank lines (defect D9 of C13): either variant is accepted
        ctx.count("K:matches-model-without-D9-repair")
    elif st != mst:
        ctx.mismatch("display_only status", c, st, mst)
    elif st == "ok" and data != mdata:
        ctx.mismatch("display_only bytes", c, data.hex()[:400], mdata.hex()[:400])
    if st == "ok" and res[2] != p:
        ctx.mismatch("display_only returned placeholder", c, res[2], p)
    if st != "ok" and U.in_domain(p) and not (c.get("lf") and (c.get("pos") or c.get("fp", "br") in ("tr", "tl"))):
        ctx.violation("display_only raised on an addressable placeholder", c, st, key="raises-in-domain")
    if len(replies) < 2:
        return
    owners = _space_of(ctx, c["id"])
    if len(owners) != 1:
        ctx.notes.append(f"id {c['id']} is in {len(owners)} spaces by Spec.Layout (C10's business); skipped")
        return
    cb, u3 = owners[0]
    ctx.count(f"space:{cb}:{u3}")
    ctx.count(f"fewer:{int(c['fewer'])}")
    sp = U.parse_spec(replies[1])
    style = ["abs", c["pos"][0], c["pos"][1]] if c.get("pos") else ["cur", 1, int(c.get("lf", 0))]
    want, cur, s = U.expected(style, p, c["W"], c["H"], c["x0"], c["y0"])
    if c.get("fp", "br") == "bl" and cur[1] == c["H"] - 1:
        # the final move to the bottom-left is an index (ESC D / LF) on the last line: one more scroll
        want = {(y - 1, x): v for (y, x), v in want.items() if y >= 1}
    if sp["ph"] != want:
        ctx.violation("displayed cells do not decode to the full ID at the expected positions", c,
                      {"space": [cb, u3], "cells": U.diff_cells(sp["ph"], want)}, key="display-decode")
    rgb = [list(k) for k, v in sorted(sp["cells"].items()) if v[0] == PH and v[2].startswith("r")]
    third = [list(k) for k, v in sorted(sp["cells"].items()) if v[0] == PH and len(v[1]) >= 3]
    if rgb:
        ctx.count("uses-truecolor")
    if third:
        ctx.count("uses-3rd-diacritic")
    if rgb and cb != 24:
        ctx.violation("true-colour foreground used for an ID of a space without 24 colour bits", c,
                      {"space": [cb, u3], "cells": rgb[:3]}, key="truecolor-in-small-space")
    if third and not u3:
        ctx.violation("third diacritic used for an ID of a space without the third diacritic", c,
                      {"space": [cb, u3], "cells": third[:3]}, key="third-diacritic-in-space-without")
    if c.get("fp", "br") == "br" and list(sp["cur"]) != list(cur) and sp["ph"] == want:
        ctx.violation("cursor does not end at the expected position", c, {"cursor": sp["cur"], "expected": cur}, key="final-cursor")


def _judge_alloc(ctx: Ctx, c: dict, res):
    """F for an allocation scenario: the placeholder of every library-allocated ID, as really printed, uses a true-colour
    foreground only if the space that APPLIES to the request (explicit argument, else the configured one) has 24 colour bits and
    a third diacritic only if that space uses it, and decodes to the returned ID. K: the bytes against the display model."""
    d = ctx.driver("drv_ph")
    ctx.count("alloc-scenarios")
    ctx.count("alloc-config-via:" + (c.get("cfg") or {}).get("via", "kwargs"))
    for st, r in zip(c["steps"], res[1]):
        if st["op"] == "set":
            continue
        if r[0] != "ok":
            if r[0].startswith("err ctor"):
                ctx.violation("the terminal could not be constructed with a documented form of the ID space", c, r[0], key="alloc-raises")
                return
            ctx.violation("allocation + display raised for a documented form of the ID space", c, {"step": st, "error": r[0]}, key="alloc-raises")
            continue
        rid, cols, rows = r[3], st["cols"], st["rows"]
        cb, u3 = st["expect"]
        ctx.count(f"alloc-space:{cb}:{int(bool(u3))}")
        ctx.count("alloc-form:" + (st.get("spa") or {"t": "none"})["t"])
        c2 = dict(k="disp", id=rid, fewer=st["fewer"], rect=[0, 0, cols, rows], bg=["none"], fp="br", W=cols + 1, H=rows + 1, x0=0, y0=0)
        p, reqs = _reqs(c2, r)
        replies = d.ask_many(reqs)
        _judge(ctx, c2, r, p, replies, reqs[0])
        if len(replies) < 2:
            continue
        sp = U.parse_spec(replies[1])
        rgb = [list(k) for k, v in sorted(sp["cells"].items()) if v[0] == PH and v[2].startswith("r")]
        third = [list(k) for k, v in sorted(sp["cells"].items()) if v[0] == PH and len(v[1]) >= 3]
        detail = {"step": st, "allocated_id": rid, "applicable_space": [cb, u3]}
        if rgb and cb != 24:
            ctx.violation("true-colour foreground used for an ID the library allocated under a space without 24 colour bits", c,
                          dict(detail, cells=rgb[:3]), key="truecolor-in-small-space")
        if third and not u3:
            ctx.violation("third diacritic used for an ID the library allocated under a space without the third diacritic", c,
                          dict(detail, cells=third[:3]), key="third-diacritic-in-space-without")


def run_batch(ctx: Ctx, batch):
    if not batch:
        return
    results = host(batch)
    for c, res in zip(batch, results):
        if c.get("k") == "alloc":
            _judge_alloc(ctx, c, res)
            ctx.case(c, nontrivial=any(r[0] == "ok" for r in res[1]))
    pairs = [(c, res) for c, res in zip(batch, results) if c.get("k") != "alloc"]
    batch, results = [x[0] for x in pairs], [x[1] for x in pairs]
    prep = [(c, res) + _reqs(c, res) for c, res in zip(batch, results)]
    flat = [r for (_, _, _, reqs) in prep for r in reqs]
    replies = ctx.driver("drv_ph").ask_many(flat)
    i = 0
    for c, res, p, reqs in prep:
        _judge(ctx, c, res, p, replies[i:i + len(reqs)], reqs[0])
        i += len(reqs)
        ctx.case(c, nontrivial=(res[0] == "ok"))


def check_case(ctx: Ctx, c: dict):
    res = host([c])[0]
    if c.get("k") == "alloc":
        return _judge_alloc(ctx, c, res)
    p, reqs = _reqs(c, res)
    _judge(ctx, c, res, p, ctx.driver("drv_ph").ask_many(reqs), reqs[0])


# ------------------------------------------------------------------------------------------
def place(rng, c):
    """terminal geometry on which the rectangle fits the width"""
    sc, sr, ec, er = c["rect"]
    R, C = er - sr, ec - sc
    if c.get("pos"):
        px, py = c["pos"]
        W, H = px + C + rng.choice([0, 2]), py + R + rng.choice([0, 1])
        c.update(W=W, H=H, x0=rng.randrange(W + 1), y0=rng.randrange(H))
    else:
        x0 = rng.choice([0, 0, 1, 3])
        H = rng.choice([R, R + 1, R + 2, max(1, R - 1)])
        c.update(W=x0 + C + rng.choice([0, 0, 1]), H=H, x0=x0, y0=rng.choice([0, H - 1, rng.randrange(H)]))
    return c


def mk(rng, n, **kw):
    c = dict(k="disp", id=n, fewer=rng.randrange(2), rect=rng.choice([[0, 0, 1, 1], [0, 0, 3, 2], [0, 0, 2, 3], [1, 0, 3, 1], [0, 2, 4, 4],
                                                                   [2, 1, 5, 2], [0, 295, 2, 298], [295, 0, 299, 2], [0, 0, 7, 1]]),
             bg=rng.choice([["none"], ["none"], ["idx", 3], ["rgb", 1, 2, 255]]), sgr=rng.choice([["-", "-", "-"], ["r1.2.3", "i5", "i2"]]))
    r = rng.random()
    if r < 0.15:
        c["pos"] = [rng.choice([0, 2]), rng.choice([0, 1])]
    elif r < 0.35:
        c["lf"] = 1
    c["fp"] = rng.choice(["br", "br", "br", "bl", "tr", "tl"]) if not c.get("lf") else rng.choice(["br", "br", "bl"])
    if rng.random() < 0.2:
        c["via"] = "ph"
        c["pid"] = rng.choice([0, 1, 255, 256, 0xFFFFFF])
    c.update(kw)
    return place(rng, c)


def alloc_case(rng):
    from .c01 import ALIASES, CFG_VIAS, SPACES as SP5, _space_form
    via = rng.choice(CFG_VIAS)
    text_only = via in ("env", "toml")
    cur = rng.choice(SP5)
    cfg = {"via": via, "id_space": _space_form(rng, cur, allow_int=(via == "cfgobj"), allow_obj=not text_only)}
    if rng.random() < 0.3:
        b = rng.choice([0, 1, 7, 200])
        cfg["id_subspace"] = {"t": "str", "v": f"{b}:{b + rng.choice([2, 3, 56])}"}
    steps = []

    def show():
        st = {"op": "show", "how": rng.choice(["assign", "assign", "uad"]), "img": rng.randrange(1 << 24), "cols": rng.choice([1, 2, 3]),
              "rows": rng.choice([1, 2]), "fewer": rng.randrange(2)}
        if rng.random() < 0.3:
            sp = rng.choice(SP5)
            f = _space_form(rng, sp)
            st["spa"] = f
        else:
            sp = cur
            st["spa"] = {"t": "none"}
        st["expect"] = [sp[0], bool(sp[1])]
        steps.append(st)

    show()
    for _ in range(rng.randrange(1, 4)):
        if rng.random() < 0.6:
            cur = rng.choice(SP5)
            steps.append({"op": "set", "id_space": _space_form(rng, cur, allow_int=False)})
        show()
        if rng.random() < 0.5:
            show()
    return {"k": "alloc", "cfg": cfg, "steps": steps}


def cases(ctx: Ctx):
    rng = ctx.rng
    quick = ctx.quick
    # IDs the library allocates itself under a configured space (text aliases, every configuration layer, default changed later)
    for _ in range(120 if quick else 1500):
        yield alloc_case(rng)
    # byte-class products: every ID shape of every space
    for b3, b2, b1, b0 in itertools.product(U.BYTECLS, repeat=4):
        n = (b3 << 24) | (b2 << 16) | (b1 << 8) | b0
        if n:
            for fewer in (0, 1):
                yield mk(rng, n, fewer=fewer)
    # random ids of each space (by construction of the layout)
    for _ in range(600 if quick else 6000):
        cb, u3 = rng.choice(SPACES)
        n = (rng.randrange(1, 256) << 24) if u3 else 0
        if cb == 8:
            n |= rng.randrange(1, 256)
        elif cb == 24:
            n |= (rng.randrange(1, 65536) << 8) | rng.randrange(256)
        yield mk(rng, n)
    # boundary / error inputs
    for n in (0, 2**32, -1):
        yield mk(rng, n)
    yield mk(rng, 5, lf=1, pos=[0, 0])
    yield mk(rng, 5, lf=1, fp="tr")
    yield mk(rng, 5, lf=1, fp="tl")
    yield mk(rng, 5, rect=[297, 0, 299, 1])
    if not quick:
        # every ID of the three enumerable spaces, with and without fewer_diacritics, through the code's own enumeration
        sys.path.insert(0, str(REPO))
        from tupimage.id_manager import IDSpace, IDSubspace
        for cb, u3 in ((0, True), (8, False), (8, True)):
            for n in IDSpace(cb, u3).all_ids(IDSubspace(0, 256)):
                for fewer in (0, 1):
                    yield mk(rng, n, fewer=fewer)


def run(ctx: Ctx):
    ctx.rule = ("cases: allocation scenarios (one long-lived TupimageTerminal, ID space configured as object / text alias through keyword, "
                "config_overrides, environment, config file, property or TupimageConfig, changed through the property between requests; "
                "assign_id + display_only(instance) and upload_and_display with the default or an explicit space in object/text/int form; "
                "features judged against the space that applies to the request); display_only(id or ImagePlaceholder, rectangle, fewer_diacritics, background none/int/'#rrggbb', abs_pos, "
                "use_line_feeds, final_cursor_pos) for every byte-class ID (each byte in {0,1,127,128,255}) with and without "
                "fewer_diacritics, random IDs of each of the 5 spaces; thorough: every ID of the spaces 0-colour+3rd, 8bit, "
                "8bit_diacritic (IDSpace.all_ids, 65 535 IDs) x fewer_diacritics. distinct = canonical JSON; non-trivial = output produced")
    corpus_dir = Path(__file__).resolve().parent.parent / "corpus" / "C14"
    if corpus_dir.is_dir():
        for fp in sorted(corpus_dir.glob("*.json")):
            c = json.load(open(fp))
            c = c.get("case", c)
            check_case(ctx, c)
            ctx.case(c)
            ctx.count("corpus")
    batch = []
    for c in cases(ctx):
        if ctx.time_left() < 0:
            ctx.count("skipped-over-budget")
            continue
        batch.append(c)
        if len(batch) >= 4000:
            run_batch(ctx, batch)
            batch = []
    run_batch(ctx, batch)
    if not ctx.quick and not ctx.dist.get("skipped-over-budget"):
        ctx.extra["exhaustive_over"] = "all IDs of the three enumerable spaces x fewer_diacritics (the other two spaces: byte classes + random)"
    ctx.assumptions += [
        "the space of an ID is decided by Spec.Layout.inSpace (C10 shows the code's spaces are exactly these)",
        "rectangle fits the terminal width from the start column; line-feed style judged with ONLCR",
        "config='DEFAULT' (placeholder_char U+10EEEE); background colour strings are resolved by PIL",
    ]


if __name__ == "__main__":
    if "--host" in sys.argv:
        host_main()
